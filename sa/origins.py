"""E4 -- value origins inside one function (flow-insensitive fixpoint).

Every expression evaluates to a pair (tags, contents):
  tags      where the object itself comes from
  contents  where the objects it (transitively) holds come from
Tags:
  ('param', p)    the argument bound to parameter p itself
  ('derived', p)  reached from p (attribute, element, result of an unknown
                  call on it)
  ('lazy', p)     the callable bound to a lazy parameter p
  ('lazyres',)    result of calling a lazy parameter / delegate / lambda
  ('fresh',)      built during this call
  ('ctx', p)      the injected (hidden) context parameter p
  ('ctxchild',)   a child context created during this call
  ('hidden', p)   other hidden parameter (engine, delegate, ...)
  ('self',)       the receiver of a method
  ('global', g)   module-level object
  ('const',)      immutable scalar
"""
import ast

from sa import effects
from sa import model

FRESH = ('fresh',)
CONST = ('const',)
LAZYRES = ('lazyres',)
SELF = ('self',)
CTXCHILD = ('ctxchild',)

FRESH_BUILDERS = {
    'builtins.list', 'builtins.tuple', 'builtins.set', 'builtins.frozenset',
    'builtins.dict', 'builtins.sorted', 'builtins.reversed',
    'builtins.enumerate', 'builtins.zip', 'builtins.map', 'builtins.filter',
    'builtins.iter', 'builtins.bytearray',
    'collections.deque', 'collections.OrderedDict',
    'collections.defaultdict', 'collections.Counter',
    'yaql.language.utils.FrozenDict', 'yaql.language.utils.QueueType',
    'copy.copy', 'itertools.chain', 'itertools.islice',
    'itertools.takewhile', 'itertools.dropwhile', 'itertools.cycle',
    'itertools.zip_longest', 'itertools.repeat', 'itertools.count',
    'itertools.starmap', 'itertools.accumulate', 'itertools.tee',
    'itertools.groupby', 'itertools.product', 'itertools.chain.from_iterable',
    'builtins.range', 'functools.partial', 'builtins.dict.fromkeys',
    'collections.OrderedDict.fromkeys', 'collections.namedtuple',
    'builtins.slice', 'builtins.memoryview', 'builtins.bytes',
    'itertools.permutations', 'itertools.combinations',
    'itertools.pairwise', 'itertools.filterfalse', 'itertools.compress',
    'heapq.nlargest', 'heapq.nsmallest', 'heapq.merge',
}
CONST_BUILDERS = {
    'builtins.len', 'builtins.str', 'builtins.int', 'builtins.float',
    'builtins.bool', 'builtins.isinstance', 'builtins.issubclass',
    'builtins.hash', 'builtins.id', 'builtins.abs', 'builtins.round',
    'builtins.pow', 'builtins.repr', 'builtins.callable', 'builtins.type',
    'builtins.hasattr', 'builtins.ord', 'builtins.chr', 'builtins.hex',
    'builtins.format', 'builtins.all', 'builtins.any', 'builtins.divmod',
    'builtins.print', 'builtins.sum',
    'copy.deepcopy',
}
ELEMENT_OF = {'builtins.next', 'builtins.min', 'builtins.max',
              'functools.reduce', 'builtins.getattr'}
STR_METHODS = {
    'join', 'format', 'strip', 'lstrip', 'rstrip', 'lower', 'upper',
    'split', 'rsplit', 'replace', 'startswith', 'endswith', 'find',
    'rfind', 'index', 'count', 'encode', 'decode', 'isalpha', 'isdigit',
    'title', 'capitalize', 'zfill', 'ljust', 'rjust', 'center',
    'splitlines', 'partition', 'rpartition', 'format_map', 'casefold',
    'total_seconds', 'isoformat', 'strftime', 'group', 'groups', 'start',
    'end', 'span', 'search', 'match', 'sub', 'subn', 'finditer', 'findall',
    'fullmatch', 'weekday', 'utcoffset', 'timestamp',
}
NEW_FROM_RECEIVER = {   # methods returning a new container from receiver+args
    'copy', 'union', 'intersection', 'difference', 'symmetric_difference',
    'items', 'keys', 'values', '__add__', '__mul__', 'most_common',
}
ELEMENT_METHODS = {'get', 'setdefault', 'pop', 'popitem', 'popleft',
                   '__getitem__', '__next__'}
CHILD_CTX = {'create_child_context'}
ADDERS = {'append': 0, 'add': 0, 'appendleft': 0, 'insert': 1,
          'setdefault': 1}
EXTENDERS = {'extend', 'update', 'extendleft'}


class Val:
    """(tags, c1, deep): origin of the object, of its direct elements, and of
    everything beneath them."""
    __slots__ = ('tags', 'c1', 'deep')

    def __init__(self, tags=(), c1=(), deep=()):
        self.tags = set(tags)
        self.c1 = set(c1)
        self.deep = set(deep)

    def copy(self):
        return Val(self.tags, self.c1, self.deep)

    def join(self, other):
        return Val(self.tags | other.tags, self.c1 | other.c1,
                   self.deep | other.deep)

    def size(self):
        return len(self.tags) + len(self.c1) + len(self.deep)

    def all(self):
        return self.tags | self.c1 | self.deep

    def __iter__(self):     # (tags, contents) view used by older callers
        yield self.tags
        yield self.c1 | self.deep

    def __getitem__(self, i):
        return (self.tags, self.c1 | self.deep)[i]

    def __repr__(self):
        return 'Val(%s | %s | %s)' % (sorted(self.tags), sorted(self.c1),
                                      sorted(self.deep))


def _nc(tags):
    return {t for t in tags if t != CONST}


def _down(tags):
    """Tags of something reached *from* objects with these tags."""
    out = set()
    for t in tags:
        if t[0] in ('param', 'derived'):
            out.add(('derived', t[1]))
        elif t[0] == 'self':
            out.add(('selfattr',))
        elif t[0] in ('lazy', 'lazyres', 'selfattr', 'global', 'closure'):
            out.add(t)
        elif t[0] in ('ctx', 'ctxchild', 'ctxattr'):
            out.add(('ctxdata',))
    return out


def const():
    return Val({CONST})


def fresh(c1=(), deep=()):
    return Val({FRESH}, _nc(c1), _nc(deep))


class Env:
    """Origin analysis of one function."""

    def __init__(self, repo, fi, param_tags, outer=None, summaries=None,
                 selfattrs=None):
        self.repo = repo
        self.fi = fi
        self.selfattrs = selfattrs or {}
        self.param_vals = {}
        for k, v in param_tags.items():
            t, c = v
            self.param_vals[k] = Val(t, c, c)
        self.param_tags = self.param_vals
        self.outer = outer
        self.summaries = summaries or {}
        self.vars = {}
        self.globals_declared = set()
        for n in model.walk_shallow(fi.node):
            if isinstance(n, ast.Global):
                self.globals_declared.update(n.names)
        self.locals = model.local_names_of(fi.node) - self.globals_declared
        self.killed = set()      # top-level `p = maker(p)` statements
        self._changed = False
        self._rebind_kill()
        self._solve()

    # -- the `p = maker(p)` idiom ---------------------------------------------
    def _rebind_kill(self):
        """A parameter re-bound by a top-level assignment before anything
        was written through it: later statements see only the new value."""
        touched = set()
        deferred = {}    # nested def -> names its body mentions
        for st in model.strip_docstring(self.fi.node.body):
            if isinstance(st, (ast.FunctionDef, ast.AsyncFunctionDef)):
                # a definition executes nothing of its body: the names it
                # mentions count from the first statement that mentions the
                # function itself (it may be called from there on)
                deferred[st.name] = {n.id for n in ast.walk(st)
                                     if isinstance(n, ast.Name)}
                for d in st.decorator_list + st.args.defaults + [
                        x for x in st.args.kw_defaults if x is not None]:
                    for n in ast.walk(d):
                        if isinstance(n, ast.Name):
                            touched.add(n.id)
                continue
            if isinstance(st, ast.Assign) and len(st.targets) == 1 and \
                    isinstance(st.targets[0], ast.Name) and \
                    st.targets[0].id in self.param_vals and \
                    st.targets[0].id not in touched:
                name = st.targets[0].id
                # the first top-level rebinding, before anything else
                # mentioned the name: statements after it never see the
                # argument object itself (later rebindings are joined in
                # by the ordinary fixpoint)
                self.param_vals[name] = self.ev(st.value).copy()
                self.killed.add(st)
                touched.add(name)
                continue
            for n in ast.walk(st):
                if isinstance(n, ast.Name):
                    touched.add(n.id)
                    if n.id in deferred:
                        touched |= deferred[n.id]

    # -- helpers ----------------------------------------------------------
    def _get(self, name):
        if name in self.globals_declared:
            return Val({('global', name)})
        if name in self.param_vals:
            v = self.param_vals[name].copy()
            if name in self.vars:
                v = v.join(self.vars[name])
            return v
        if name in self.vars:
            return self.vars[name].copy()
        if name in self.locals:
            return Val()
        o = self.outer
        while o is not None:
            if name in o.param_vals or name in o.locals:
                return o._get(name)
            o = o.outer
        if name in self.fi.module.toplevel or name in self.fi.module.imports:
            return Val({('global', name)})
        return const()

    def _add(self, name, val):
        if name in self.globals_declared:
            return
        v = self.vars.setdefault(name, Val())
        n0 = v.size()
        v.tags |= val.tags
        v.c1 |= val.c1
        v.deep |= val.deep
        if v.size() != n0:
            self._changed = True

    def _bind_enumerate(self, target, it):
        """for i, t in enumerate(x): the index is a number the loop makes,
        only t is an element of x."""
        if isinstance(it, ast.Call) and isinstance(
                it.func, ast.Name) and it.func.id == 'enumerate' and \
                it.args and isinstance(target, ast.Tuple) and len(
                target.elts) == 2 and isinstance(
                target.elts[0], ast.Name) and \
                'enumerate' not in self.locals:
            self._add(target.elts[0].id, Val({CONST}))
            self._bind(target.elts[1], self.elem(self.ev(it.args[0])))
            return True
        return False

    @staticmethod
    def elem(val):
        t = set(val.c1) | _down(val.tags)
        d = set(val.deep) | {x for x in _down(val.tags)}
        if not t:
            t = {CONST}
        return Val(t, d, d)

    @staticmethod
    def attr(val, name=None):
        out = set()
        for t in val.tags:
            if t[0] in ('param', 'derived'):
                out.add(('derived', t[1]))
            elif t[0] == 'fresh':
                out.add(FRESH)
            elif t[0] == 'self':
                out.add(('selfattr', name) if name else ('selfattr',))
            elif t[0] in ('ctx', 'ctxchild'):
                out.add(('ctxattr', t))
            elif t[0] == 'const':
                out.add(CONST)
            else:
                out.add(t)
        d = set(val.c1) | set(val.deep) | {x for x in out
                                            if x[0] == 'derived'}
        return Val(out, d, d)

    def contain(self, vals):
        """A new container holding the given values."""
        c1, deep = set(), set()
        for v in vals:
            c1 |= _nc(v.tags)
            deep |= v.c1 | v.deep
        return fresh(c1, deep)

    # -- expression evaluation -------------------------------------------
    def ev(self, e):
        if e is None or isinstance(e, ast.Constant):
            return const()
        if isinstance(e, ast.Name):
            return self._get(e.id)
        if isinstance(e, (ast.List, ast.Tuple, ast.Set)):
            vals = []
            for x in e.elts:
                if isinstance(x, ast.Starred):
                    vals.append(self.elem(self.ev(x.value)))
                else:
                    vals.append(self.ev(x))
            return self.contain(vals)
        if isinstance(e, ast.Dict):
            return self.contain([self.ev(x) for x in
                                 list(e.keys) + list(e.values)
                                 if x is not None])
        if isinstance(e, (ast.ListComp, ast.SetComp, ast.GeneratorExp,
                          ast.DictComp)):
            for g in e.generators:
                if not self._bind_enumerate(g.target, g.iter):
                    self._bind(g.target, self.elem(self.ev(g.iter)))
            elts = [e.key, e.value] if isinstance(e, ast.DictComp) else [
                e.elt]
            return self.contain([self.ev(x) for x in elts])
        if isinstance(e, ast.Attribute):
            base = self.ev(e.value)
            if e.attr in self.selfattrs and base.tags == {SELF}:
                t, c = self.selfattrs[e.attr]
                return Val(set(t), set(c), set(c))
            return self.attr(base, e.attr)
        if isinstance(e, ast.Subscript):
            base = self.ev(e.value)
            el = self.elem(base)
            if isinstance(e.slice, ast.Slice):
                return fresh(el.tags, el.deep)
            return el
        if isinstance(e, ast.Starred):
            return self.ev(e.value)
        if isinstance(e, ast.IfExp):
            return self.ev(e.body).join(self.ev(e.orelse))
        if isinstance(e, ast.BoolOp):
            v = Val()
            for x in e.values:
                v = v.join(self.ev(x))
            return v
        if isinstance(e, ast.BinOp):
            a = self.elem(self.ev(e.left))
            b = self.elem(self.ev(e.right))
            return fresh(a.tags | b.tags, a.deep | b.deep)
        if isinstance(e, ast.NamedExpr):
            v = self.ev(e.value)
            self._bind(e.target, v)
            return v
        if isinstance(e, ast.Call):
            return self._call(e)
        return const()

    def _args_elem(self, call):
        c1, deep = set(), set()
        for a in list(call.args) + [k.value for k in call.keywords]:
            v = self.elem(self.ev(a.value if isinstance(
                a, ast.Starred) else a))
            c1 |= v.tags
            deep |= v.deep
        return _nc(c1), _nc(deep)

    def _args_reach(self, call):
        t = set()
        for a in list(call.args) + [k.value for k in call.keywords]:
            v = self.ev(a.value if isinstance(a, ast.Starred) else a)
            t |= _down(v.tags) | {x for x in v.c1 | v.deep
                                  if x[0] not in ('fresh', 'const')}
        return t

    def _call(self, call):
        f = call.func
        d = self.repo.resolve(self.fi.module, f, self._all_locals())
        if d == 'builtins.range':
            return fresh()      # a new object holding numbers it makes
        if d in FRESH_BUILDERS:
            c1, deep = self._args_elem(call)
            return fresh(c1, deep)
        if d in CONST_BUILDERS:
            if d == 'copy.deepcopy':
                return fresh()
            return const()
        if d in ELEMENT_OF:
            c1, deep = self._args_elem(call)
            return Val(c1 or {CONST}, deep, deep)
        if isinstance(f, ast.Attribute):
            recv = self.ev(f.value)
            if f.attr in CHILD_CTX:
                return Val({CTXCHILD})
            if f.attr in STR_METHODS:
                return const()
            if f.attr in NEW_FROM_RECEIVER:
                el = self.elem(recv)
                c1, deep = self._args_elem(call)
                return fresh(el.tags | c1, el.deep | deep)
            if f.attr in ELEMENT_METHODS:
                v = self.elem(recv)
                for a in call.args[1:]:
                    v = v.join(self.ev(a))
                return v
        if isinstance(f, ast.Name) and f.id in self.locals and \
                self._local_constructor(f.id):
            c1, deep = self._args_elem(call)
            return fresh(c1, deep)
        fv = self.ev(f)
        if any(t[0] in ('lazy', 'hidden', 'lazyres') for t in fv.tags):
            t = self._args_reach(call) | {LAZYRES}
            return Val(t, t, t)
        tgt = self.repo.lookup(d) if d else None
        if isinstance(tgt, model.ClassInfo):
            r = self._args_reach(call)
            return fresh(r, r)
        if isinstance(tgt, model.FuncInfo):
            s = self.summaries.get(tgt.key)
            if s is not None and s.get('returns_fresh'):
                r = self._args_reach(call)
                return fresh(r, r)
            if s is not None and s.get('returns_global'):
                return Val({('global', g) for g in s['returns_global']})
        t = self._args_reach(call)
        if isinstance(f, ast.Attribute) and d is None:
            recv = self.ev(f.value)
            t |= _down(recv.tags) | {x for x in recv.c1 | recv.deep
                                     if x[0] not in ('fresh', 'const')}
        if not t:
            return fresh()
        return Val(t, t, t)

    def _local_constructor(self, name):
        """Is local `name` only ever bound to container constructors
        (`list if flag else set`, `type(obj)`)?"""
        leaves = []

        def flat(e):
            if isinstance(e, ast.IfExp):
                flat(e.body)
                flat(e.orelse)
            else:
                leaves.append(e)
        found = False
        for n in model.walk_shallow(self.fi.node):
            if isinstance(n, ast.Assign):
                for t in n.targets:
                    if isinstance(t, ast.Name) and t.id == name:
                        found = True
                        flat(n.value)
            elif isinstance(n, (ast.For, ast.comprehension)) and any(
                    isinstance(x, ast.Name) and x.id == name
                    for x in ast.walk(n.target)):
                return False
        if not found or name in self.param_vals:
            return False
        for e in leaves:
            if isinstance(e, ast.Call) and isinstance(e.func, ast.Name) \
                    and e.func.id == 'type' and len(e.args) == 1:
                continue
            d = self.repo.resolve(self.fi.module, e, self._all_locals())
            if d in FRESH_BUILDERS:
                continue
            return False
        return True

    def _all_locals(self):
        names = set(self.locals) | set(self.param_vals)
        o = self.outer
        while o is not None:
            names |= o.locals | set(o.param_vals)
            o = o.outer
        return names

    # -- statements ---------------------------------------------------------
    def _bind(self, target, val):
        if isinstance(target, ast.Name):
            self._add(target.id, val)
        elif isinstance(target, (ast.Tuple, ast.List)):
            el = self.elem(val)
            for t in target.elts:
                self._bind(t.value if isinstance(t, ast.Starred) else t, el)

    def _grow(self, name, val, level=1):
        """Container `name` now holds `val` (level 1: as element, level 2:
        inside an element)."""
        owner = self
        if name not in self.locals and name not in self.param_vals:
            o = self.outer
            while o is not None:
                if name in o.locals or name in o.param_vals:
                    owner = o
                    break
                o = o.outer
            else:
                return      # a global: not a container of this call
        if level == 1:
            owner._add(name, Val((), _nc(val.tags), val.c1 | val.deep))
        else:
            owner._add(name, Val((), (), _nc(val.tags) | val.c1 | val.deep))

    def _solve(self):
        nodes = []
        for st in self.fi.node.body:
            if st in self.killed:
                continue
            nodes.extend(model.walk_shallow(st))
        for _ in range(12):
            self._changed = False
            for n in nodes:
                if isinstance(n, ast.Assign):
                    v = self.ev(n.value)
                    for t in n.targets:
                        self._bind(t, v)
                        self._store_into(t, v)
                elif isinstance(n, ast.AnnAssign) and n.value is not None:
                    v = self.ev(n.value)
                    self._bind(n.target, v)
                    self._store_into(n.target, v)
                elif isinstance(n, ast.AugAssign):
                    if isinstance(n.target, ast.Name):
                        el = self.elem(self.ev(n.value))
                        self._add(n.target.id, fresh(el.tags, el.deep))
                elif isinstance(n, (ast.For, ast.AsyncFor)):
                    if not self._bind_enumerate(n.target, n.iter):
                        self._bind(n.target, self.elem(self.ev(n.iter)))
                elif isinstance(n, (ast.With, ast.AsyncWith)):
                    for item in n.items:
                        if item.optional_vars is not None:
                            self._bind(item.optional_vars,
                                       self.ev(item.context_expr))
                elif isinstance(n, ast.ExceptHandler) and n.name:
                    self._add(n.name, fresh())
                elif isinstance(n, (ast.ListComp, ast.SetComp, ast.DictComp,
                                    ast.GeneratorExp)):
                    self.ev(n)
                elif isinstance(n, ast.Call) and isinstance(
                        n.func, ast.Attribute):
                    m = n.func.attr
                    recv = n.func.value
                    if isinstance(recv, ast.Name):
                        if m in ADDERS and len(n.args) > ADDERS[m]:
                            self._grow(recv.id, self.ev(n.args[ADDERS[m]]))
                        elif m in EXTENDERS and n.args:
                            self._grow(recv.id, self.elem(self.ev(
                                n.args[0])))
                    elif m in ADDERS and isinstance(recv, ast.Call) and \
                            isinstance(recv.func, ast.Attribute) and \
                            isinstance(recv.func.value, ast.Name) and \
                            len(n.args) > ADDERS[m]:
                        # groups.setdefault(k, []).append(v)
                        self._grow(recv.func.value.id,
                                   self.ev(n.args[ADDERS[m]]), 2)
            if not self._changed:
                break

    def _store_into(self, target, val):
        if isinstance(target, ast.Subscript) and isinstance(
                target.value, ast.Name):
            self._grow(target.value.id, val)
            if not isinstance(target.slice, ast.Slice):
                self._grow(target.value.id, self.ev(target.slice))
        elif isinstance(target, ast.Attribute) and isinstance(
                target.value, ast.Name):
            self._grow(target.value.id, val)


def tags_of_target(env, write):
    """Origin tags of the object a write site acts on."""
    return env.ev(write.target).tags
