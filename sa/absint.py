"""A small abstract interpreter for *decision procedures*: short, pure
functions whose job is to return a verdict or raise.

The function's AST is interpreted (nothing of the repository is executed) on
a *scenario*: concrete skeleton values (None, booleans, strings, finite
lists / dicts of opaque symbols) plus an oracle that decides the calls the
rule declares uninterpreted (e.g. "does entry e match the name").  A rule
enumerates every scenario of its abstraction and compares the outcome with
the verdict the property prescribes, so the result does not depend on how
the procedure spells its loops, early exits, helpers, any()/all() or
conditional expressions.

Outcome of run(): ('return', value) | ('raise', class-name) -- or the
exception Unsupported when the body uses something outside the modelled
fragment (the rule then reports "not decided", never a violation).
"""
import ast

from sa import model


class Unsupported(Exception):
    pass


class Sym:
    """An opaque value (equal only to itself)."""
    __slots__ = ('name',)

    def __init__(self, name):
        self.name = name

    def __repr__(self):
        return '<%s>' % self.name


class _Return(Exception):
    def __init__(self, v):
        self.v = v


class _Raise(Exception):
    def __init__(self, v):
        self.v = v


class _Break(Exception):
    pass


class _Continue(Exception):
    pass


class Obj:
    """A record with attributes (a token, `self`, ...)."""

    def __init__(self, _obj_label, **attrs):
        self.__dict__['_name'] = _obj_label
        self.__dict__['attrs'] = dict(attrs)

    def __repr__(self):
        return '<obj %s %r>' % (self._name, self.attrs)


class Thunk:
    """A not-yet-evaluated element of a comprehension (so that any()/all()
    short-circuit like the real ones)."""
    __slots__ = ('expr', 'env')

    def __init__(self, expr, env):
        self.expr, self.env = expr, env


class Closure:
    def __init__(self, node, env, interp):
        self.node, self.env, self.interp = node, env, interp
        self.attrs = {}


SAFE_STR = {'startswith', 'endswith', 'strip', 'lstrip', 'rstrip', 'lower',
            'upper', 'isidentifier', 'isalpha', 'isdigit'}
BUILTINS = {'len': len, 'bool': bool, 'tuple': tuple, 'list': list,
            'str': str, 'isinstance': None, 'any': None, 'all': None,
            'set': set, 'frozenset': frozenset, 'dict': dict,
            'enumerate': enumerate, 'zip': zip, 'sorted': sorted,
            'iter': iter, 'next': None, 'int': int, 'float': float,
            'type': None, 'getattr': None, 'callable': None,
            'setattr': None, 'hasattr': None, 'super': None,
            'reversed': reversed, 'range': range, 'min': min, 'max': max,
            'sum': sum, 'abs': abs, 'map': None, 'filter': None, 'id': id,
            'repr': None}


# library functions that are pure functions of concrete text / numbers
PURE_LIBRARY = {'unicodedata.normalize', 'unicodedata.name',
                'unicodedata.category', 'unicodedata.lookup',
                'string.capwords', 'math.floor', 'math.ceil',
                'keyword.iskeyword', 'keyword.issoftkeyword'}


class Interp:
    def __init__(self, repo, mod, oracle=None, isinstance_oracle=None,
                 max_steps=20000, follow=True):
        self.repo = repo
        self.mod = mod
        self.oracle = oracle or (lambda name, args, kwargs: None)
        self.isinstance_oracle = isinstance_oracle
        self.steps = 0
        self.max_steps = max_steps
        self.follow = follow
        self.trace = []        # uninterpreted calls, in order
        self.symbolic_ops = False
        self.shared = {}       # state shared with sub-interpreters

    def spawn(self, mod):
        sub = Interp(self.repo, mod, self.oracle, self.isinstance_oracle,
                     self.max_steps, self.follow)
        sub.symbolic_ops = self.symbolic_ops
        sub.shared = self.shared
        sub.shared = self.shared
        sub.steps, sub.trace = self.steps, self.trace
        return sub

    # ---------------------------------------------------------------- entry
    def run(self, fnode, args, closure_env=None):
        env = dict(closure_env or {})
        a = fnode.args
        names = [x.arg for x in a.posonlyargs + a.args]
        defaults = list(a.defaults)
        dvals = {}
        for nm, d in zip(names[len(names) - len(defaults):], defaults):
            dvals[nm] = d
        for i, nm in enumerate(names):
            if nm in args:
                env[nm] = args[nm]
            elif i in args:
                env[nm] = args[i]
            elif nm in dvals:
                env[nm] = self.ev(dvals[nm], env)
            else:
                raise Unsupported('argument %s not given' % nm)
        if a.vararg is not None:
            env[a.vararg.arg] = tuple(
                args[i] for i in sorted(k for k in args
                                        if isinstance(k, int))
                if i >= len(names))
        for ko, kd in zip(a.kwonlyargs, a.kw_defaults):
            if ko.arg in args:
                env[ko.arg] = args[ko.arg]
            elif kd is not None:
                env[ko.arg] = self.ev(kd, env)
            else:
                raise Unsupported('argument %s not given' % ko.arg)
        if a.kwarg is not None:
            known = set(names) | {k.arg for k in a.kwonlyargs}
            env[a.kwarg.arg] = {k: v for k, v in args.items()
                                if isinstance(k, str) and k not in known}
        is_gen = not isinstance(fnode, ast.Lambda) and any(
            isinstance(n, (ast.Yield, ast.YieldFrom))
            for n in model.walk_shallow(fnode))
        if is_gen:
            # a generator whose body has no effect the evaluator records:
            # what it yields, collected at once
            env['__yields__'] = []
            before = len(self.trace)
        try:
            if isinstance(fnode, ast.Lambda):
                return ('return', self.ev(fnode.body, env))
            self.block(model.strip_docstring(fnode.body), env)
        except _Return as r:
            if not is_gen:
                return ('return', r.v)
        except _Raise as r:
            return ('raise', r.v)
        if is_gen:
            if len(self.trace) != before and not self.shared.get(
                    'eager-generators'):
                # the order of its effects relative to its consumer's is
                # lost when it is run at once; callers that do not look at
                # that order say so in shared['eager-generators']
                raise Unsupported('generator with recorded effects')
            return ('return', list(env['__yields__']))
        return ('return', None)

    # ----------------------------------------------------------- statements
    def tick(self):
        self.steps += 1
        if self.steps > self.max_steps:
            raise Unsupported('step budget exceeded')

    def block(self, stmts, env):
        for st in stmts:
            self.tick()
            if isinstance(st, ast.Expr):
                if not isinstance(st.value, ast.Constant):
                    self.ev(st.value, env)
            elif isinstance(st, ast.Assign):
                v = self.ev(st.value, env)
                for t in st.targets:
                    self.assign(t, v, env)
            elif isinstance(st, ast.AugAssign) and isinstance(
                    st.target, ast.Name):
                cur = self.ev(ast.Name(id=st.target.id, ctx=ast.Load()),
                              env)
                v = self.ev(st.value, env)
                env[st.target.id] = self.binop(st.op, cur, v)
            elif isinstance(st, ast.AugAssign) and isinstance(
                    st.target, (ast.Subscript, ast.Attribute)):
                import copy as _copy
                load = _copy.copy(st.target)
                load.ctx = ast.Load()
                cur = self.ev(load, env)
                v = self.ev(st.value, env)
                self.assign(st.target, self.binop(st.op, cur, v), env)
            elif isinstance(st, ast.Delete):
                for t in st.targets:
                    if isinstance(t, ast.Subscript):
                        base = self.ev(t.value, env)
                        key = self.ev(t.slice, env)
                        if isinstance(base, (dict, list)):
                            try:
                                del base[key]
                            except (KeyError, IndexError) as ex:
                                raise _Raise(type(ex).__name__)
                            continue
                    elif isinstance(t, ast.Name) and t.id in env:
                        del env[t.id]
                        continue
                    raise Unsupported('del')
            elif isinstance(st, ast.If):
                self.block(st.body if self.truth(self.ev(st.test, env))
                           else st.orelse, env)
            elif isinstance(st, ast.For):
                it = self.iterate(self.ev(st.iter, env))
                broke = False
                for item in it:
                    self.assign(st.target, item, env)
                    try:
                        self.block(st.body, env)
                    except _Break:
                        broke = True
                        break
                    except _Continue:
                        continue
                if not broke:
                    self.block(st.orelse, env)
            elif isinstance(st, ast.While):
                n = 0
                while self.truth(self.ev(st.test, env)):
                    n += 1
                    if n > 200:
                        raise Unsupported('loop bound')
                    try:
                        self.block(st.body, env)
                    except _Break:
                        break
                    except _Continue:
                        continue
            elif isinstance(st, ast.Try):
                try:
                    try:
                        self.block(st.body, env)
                    except _Raise as r:
                        for h in st.handlers:
                            if self.handles(h, r.v, env):
                                if h.name:
                                    env[h.name] = Sym('exc:' + str(r.v))
                                self.block(h.body, env)
                                break
                        else:
                            raise
                    else:
                        self.block(st.orelse, env)
                finally:
                    self.block(st.finalbody, env)
            elif isinstance(st, ast.Return):
                raise _Return(self.ev(st.value, env)
                              if st.value is not None else None)
            elif isinstance(st, ast.Raise):
                raise _Raise(self.exc_name(st.exc, env))
            elif isinstance(st, ast.Break):
                raise _Break()
            elif isinstance(st, ast.Continue):
                raise _Continue()
            elif isinstance(st, ast.Pass):
                pass
            elif isinstance(st, ast.FunctionDef):
                env[st.name] = Closure(st, env, self)
            elif isinstance(st, ast.Assert):
                if not self.truth(self.ev(st.test, env)):
                    raise _Raise('AssertionError')
            else:
                raise Unsupported('statement ' + type(st).__name__)

    def handles(self, h, raised, env):
        if h.type is None:
            return True
        names = [model.norm(x).rsplit('.', 1)[-1] for x in (
            h.type.elts if isinstance(h.type, ast.Tuple) else [h.type])]
        if 'Exception' in names or 'BaseException' in names:
            return True
        return str(raised).rsplit('.', 1)[-1].rstrip("')") in names

    def exc_name(self, e, env):
        if e is None:
            return 'reraise'
        f = e.func if isinstance(e, ast.Call) else e
        # `raise factory(...)`: the class of what the factory returns
        if isinstance(e, ast.Call) and isinstance(f, (ast.Name,
                                                      ast.Attribute)):
            d = self.repo.resolve(self.mod, f) if not (
                isinstance(f, ast.Name) and f.id in env) else None
            tgt = self.repo.lookup(d) if d else None
            if isinstance(tgt, model.FuncInfo) and self.follow:
                try:
                    v = self.ev(e, env)
                except Unsupported:
                    v = None
                if isinstance(v, Obj) and v.attrs.get('__class__'):
                    return v.attrs['__class__'].node.name
                if isinstance(v, tuple) and v and v[0] == 'global':
                    return v[1].rsplit('.', 1)[-1]
        if isinstance(f, ast.Name) and f.id in env:
            v = env[f.id]
            if isinstance(v, Sym):
                return v.name
            if isinstance(v, tuple) and v and v[0] == 'global':
                return v[1].rsplit('.', 1)[-1]
            return str(v)
        return model.norm(f).rsplit('.', 1)[-1]

    def assign(self, t, v, env):
        if isinstance(t, ast.Name):
            env[t.id] = v
        elif isinstance(t, (ast.Tuple, ast.List)):
            vals = list(self.iterate(v))
            if len(vals) != len(t.elts):
                raise _Raise('ValueError')
            for x, y in zip(t.elts, vals):
                self.assign(x, y, env)
        elif isinstance(t, ast.Attribute):
            base = self.ev(t.value, env)
            if not isinstance(base, (Obj, Closure)):
                raise Unsupported('attribute store')
            base.attrs[t.attr] = v
        elif isinstance(t, ast.Subscript):
            base = self.ev(t.value, env)
            key = self.ev(t.slice, env)
            if isinstance(base, Obj) and '__items__' in base.attrs:
                base = base.attrs['__items__']
            if isinstance(base, (dict, list)):
                base[key] = v
            else:
                raise Unsupported('subscript store')
        else:
            raise Unsupported('assignment target')

    # ---------------------------------------------------------- expressions
    def truth(self, v):
        if isinstance(v, Sym):
            raise Unsupported('truth of opaque %r' % v)
        return bool(v)

    def iterate(self, v, force=True):
        if isinstance(v, (list, tuple, set, frozenset, dict, str)):
            return [self.force(x) for x in v] if force else list(v)
        if isinstance(v, Obj) and isinstance(v.attrs.get('__items__'),
                                             (list, tuple)):
            return list(v.attrs['__items__'])     # a record / a sequence
        if hasattr(v, '__next__') and not isinstance(v, (Sym, Obj)):
            return list(v)                        # a concrete iterator
        raise Unsupported('iteration over %r' % (v,))

    def binop(self, op, a, b):
        if isinstance(a, Sym) or isinstance(b, Sym) or (
                self.symbolic_ops and any(
                    isinstance(x, tuple) and x and x[0] == 'op'
                    for x in (a, b))):
            if self.symbolic_ops:
                return ('op', type(op).__name__, a, b)
            raise Unsupported('arithmetic on opaque value')
        try:
            if isinstance(op, ast.Add):
                return a + b
            if isinstance(op, ast.Sub):
                return a - b
            if isinstance(op, ast.Mult):
                return a * b
            if isinstance(op, ast.BitOr):
                return a | b
            if isinstance(op, ast.BitAnd):
                return a & b
            if isinstance(op, ast.FloorDiv):
                return a // b
            if isinstance(op, ast.Mod) and not isinstance(a, str):
                return a % b
            if isinstance(op, ast.Pow) and isinstance(b, int) and \
                    isinstance(a, int) and 0 <= b <= 10000 and \
                    abs(a) <= 10:
                return a ** b
            if isinstance(op, ast.Div):
                return a / b
        except Exception as e:
            raise _Raise(type(e).__name__)
        raise Unsupported('operator')

    def ev(self, e, env):
        self.tick()
        if isinstance(e, ast.Constant):
            return e.value
        if isinstance(e, ast.Name):
            if e.id in env:
                return env[e.id]
            if e.id in ('True', 'False', 'None'):
                return {'True': True, 'False': False, 'None': None}[e.id]
            if e.id in BUILTINS:
                return ('builtin', e.id)
            d = self.repo.resolve(self.mod, e)
            tgt = self.repo.lookup(d) if d else None
            if isinstance(tgt, model.FuncInfo):
                return tgt
            if isinstance(tgt, tuple) and tgt[0] == 'const':
                ck = (tgt[1].name, model.norm(tgt[2]), e.id)
                cache = self.shared.setdefault('consts', {})
                if ck not in cache:
                    cache[ck] = self.spawn(tgt[1]).ev(tgt[2], {})
                return cache[ck]
            if d:
                return ('global', d)
            raise Unsupported('name ' + e.id)
        if isinstance(e, (ast.Tuple, ast.List)):
            vals = [self.ev(x, env) for x in e.elts]
            return tuple(vals) if isinstance(e, ast.Tuple) else vals
        if isinstance(e, ast.Dict):
            return {self.ev(k, env): self.ev(v, env)
                    for k, v in zip(e.keys, e.values)}
        if isinstance(e, ast.UnaryOp):
            v = self.ev(e.operand, env)
            if isinstance(e.op, ast.Not):
                return not self.truth(v)
            if isinstance(e.op, ast.USub) and not isinstance(v, Sym):
                return -v
            raise Unsupported('unary')
        if isinstance(e, ast.BoolOp):
            v = None
            for x in e.values:
                v = self.ev(x, env)
                t = self.truth(v)
                if isinstance(e.op, ast.And) and not t:
                    return v
                if isinstance(e.op, ast.Or) and t:
                    return v
            return v
        if isinstance(e, ast.IfExp):
            return self.ev(e.body if self.truth(self.ev(e.test, env))
                           else e.orelse, env)
        if isinstance(e, ast.Compare):
            left = self.ev(e.left, env)
            for op, c in zip(e.ops, e.comparators):
                right = self.ev(c, env)
                ok = self.compare(op, left, right)
                if not ok:
                    return False
                left = right
            return True
        if isinstance(e, ast.BinOp):
            return self.binop(e.op, self.ev(e.left, env),
                              self.ev(e.right, env))
        if isinstance(e, ast.Subscript):
            base = self.ev(e.value, env)
            if isinstance(e.slice, ast.Slice):
                if isinstance(base, Sym):
                    raise Unsupported('slice of opaque')
                lo = self.ev(e.slice.lower, env) if e.slice.lower else None
                hi = self.ev(e.slice.upper, env) if e.slice.upper else None
                return base[lo:hi]
            key = self.ev(e.slice, env)
            if isinstance(base, Obj) and '__items__' in base.attrs:
                base = base.attrs['__items__']
            if isinstance(base, (dict, list, tuple, str)):
                try:
                    return base[key]
                except (KeyError, IndexError, TypeError) as ex:
                    raise _Raise(type(ex).__name__)
            raise Unsupported('subscript of %r' % (base,))
        if isinstance(e, (ast.GeneratorExp, ast.ListComp, ast.SetComp)):
            out = []
            self.comp(e, 0, dict(env), out)
            if not isinstance(e, ast.GeneratorExp):
                # a list / set display is built at once
                out = [self.force(x) for x in out]
            return out
        if isinstance(e, ast.DictComp):
            out = []
            self.comp(e, 0, dict(env), out)
            return dict(out)
        if isinstance(e, ast.Lambda):
            return Closure(e, env, self)
        if isinstance(e, ast.Attribute):
            base = self.ev(e.value, env)
            if isinstance(base, tuple) and len(base) == 3 and \
                    base[0] == 'super':
                _, ci, slf = base
                start = slf.attrs.get('__class__') or ci
                mro = list(self.repo.mro(start))
                if ci not in mro:
                    mro = list(self.repo.mro(ci))
                for c in mro[mro.index(ci) + 1:]:
                    if isinstance(c, model.ClassInfo) and \
                            e.attr in c.methods:
                        return ('bound', c.methods[e.attr], slf)
                if e.attr == '__init__':
                    return ('builtin', 'object.__init__')
                raise Unsupported('super().%s' % e.attr)
            if isinstance(base, Obj):
                if e.attr in base.attrs:
                    return base.attrs[e.attr]
                ci = base.attrs.get('__class__')
                if ci is not None:
                    m = self.repo.find_method(ci, e.attr)
                    if m is not None:
                        static = any(model.norm(d) == 'staticmethod'
                                     for d in m.node.decorator_list)
                        if any(model.norm(d) in ('property',
                                                 'functools.cached_property')
                               for d in m.node.decorator_list):
                            return self.invoke(('bound', m, base), [], {})
                        return ('bound', m, None if static else base)
                raise Unsupported('attribute %s of %r' % (e.attr, base))
            if isinstance(base, tuple) and base and base[0] == 'global':
                d = base[1] + '.' + e.attr
                tgt = self.repo.lookup(d)
                if isinstance(tgt, tuple) and tgt and tgt[0] == 'const' \
                        and isinstance(tgt[2], (ast.Constant, ast.Tuple,
                                                ast.Dict, ast.List)):
                    # a literal constant of another module of the package
                    ck = (tgt[1].name, model.norm(tgt[2]), e.attr)
                    cache = self.shared.setdefault('consts', {})
                    if ck not in cache:
                        try:
                            cache[ck] = self.spawn(tgt[1]).ev(tgt[2], {})
                        except Unsupported:
                            cache[ck] = ('global', d)
                    return cache[ck]
                return ('global', d)
            return ('attr', base, e.attr)
        if isinstance(e, ast.Call):
            return self.call(e, env)
        if isinstance(e, ast.Yield) and '__yields__' in env:
            env['__yields__'].append(
                self.ev(e.value, env) if e.value is not None else None)
            return None
        if isinstance(e, ast.YieldFrom) and '__yields__' in env:
            env['__yields__'].extend(self.iterate(self.ev(e.value, env)))
            return None
        if isinstance(e, ast.JoinedStr):
            return Sym('text')
        raise Unsupported('expression ' + type(e).__name__)

    def comp(self, e, i, env, out):
        if i == len(e.generators):
            if isinstance(e, ast.DictComp):
                out.append((self.ev(e.key, env), self.ev(e.value, env)))
            else:
                out.append(Thunk(e.elt, dict(env)))
            return
        g = e.generators[i]
        for item in self.iterate(self.ev(g.iter, env)):
            self.assign(g.target, item, env)
            if all(self.truth(self.ev(c, env)) for c in g.ifs):
                self.comp(e, i + 1, env, out)

    def force(self, v):
        if isinstance(v, Thunk):
            return self.ev(v.expr, v.env)
        return v

    def compare(self, op, a, b):
        if isinstance(op, (ast.Is, ast.Eq)):
            if isinstance(a, Sym) or isinstance(b, Sym):
                return a is b
            return a is b if isinstance(op, ast.Is) and (
                a is None or b is None or isinstance(a, bool) or
                isinstance(b, bool)) else a == b
        if isinstance(op, (ast.IsNot, ast.NotEq)):
            return not self.compare(ast.Is() if isinstance(op, ast.IsNot)
                                    else ast.Eq(), a, b)
        if isinstance(op, ast.In):
            items = self.iterate(b)
            return any(self.compare(ast.Eq(), a, x) for x in items)
        if isinstance(op, ast.NotIn):
            return not self.compare(ast.In(), a, b)
        if isinstance(a, Sym) or isinstance(b, Sym):
            raise Unsupported('ordering of opaque values')
        if isinstance(op, ast.Lt):
            return a < b
        if isinstance(op, ast.LtE):
            return a <= b
        if isinstance(op, ast.Gt):
            return a > b
        if isinstance(op, ast.GtE):
            return a >= b
        raise Unsupported('comparison')

    def _super(self, e, env):
        """Zero-argument super() inside a method of a repository class."""
        fn = model.enclosing(e, (ast.FunctionDef, ast.AsyncFunctionDef))
        cd = model.enclosing(fn, ast.ClassDef) if fn is not None else None
        if fn is None or cd is None or getattr(fn, '_parent', None) \
                is not cd or not fn.args.args:
            raise Unsupported('super() outside a method')
        ci = None
        for m in self.repo.modules.values():
            for c in m.classes.values():
                if c.node is cd:
                    ci = c
        slf = env.get(fn.args.args[0].arg)
        if ci is None or not isinstance(slf, Obj):
            raise Unsupported('super() of an unknown class')
        return ('super', ci, slf)

    def call(self, e, env):
        if isinstance(e.func, ast.Name) and e.func.id == 'super' and \
                not e.args and not e.keywords and 'super' not in env:
            r = self.oracle('builtins.super', [], {})
            if r is not None:
                return r[0]
            return self._super(e, env)
        f = self.ev(e.func, env)
        site = (e, env, self.mod)
        args = []
        for a in e.args:
            if isinstance(a, ast.Starred):
                args.extend(self.iterate(self.ev(a.value, env)))
            else:
                args.append(self.ev(a, env))
        kwargs = {}
        for k in e.keywords:
            v = self.ev(k.value, env)
            if k.arg is not None:
                kwargs[k.arg] = v
            elif isinstance(v, dict) and all(isinstance(x, str)
                                             for x in v):
                kwargs.update(v)
            else:
                raise Unsupported('** of %r' % (v,))
        return self.invoke(f, args, kwargs, e, site)

    def invoke(self, f, args, kwargs, e=None, site=None):
        """Call the abstract value f."""
        if site is None:
            site = self.shared.get('call')
        if isinstance(f, tuple) and len(f) == 3 and f[0] == 'ntclass':
            vals = dict(zip(f[2], args))
            vals.update(kwargs)
            if set(vals) != set(f[2]):
                raise _Raise('TypeError')
            o = Obj(f[1], **vals)
            o.attrs['__items__'] = [vals[k] for k in f[2]]
            return o
        if isinstance(f, tuple) and len(f) == 2 and f[0] == 'attrgetter':
            o = args[0]
            vals = []
            for nm in f[1]:
                cur = o
                for part in nm.split('.'):
                    if isinstance(cur, Obj) and part in cur.attrs:
                        cur = cur.attrs[part]
                    else:
                        raise Unsupported('attrgetter %s' % nm)
                vals.append(cur)
            return vals[0] if len(vals) == 1 else tuple(vals)
        if isinstance(f, tuple) and len(f) == 2 and f[0] == 'itemgetter':
            try:
                return args[0][f[1]]
            except Exception as ex:
                raise _Raise(type(ex).__name__)
        if f == ('builtin', 'map') and len(args) >= 2:
            seqs = [list(self.iterate(a)) for a in args[1:]]
            return [self.invoke(args[0], list(t), {}, None, site)
                    for t in zip(*seqs)]
        if f == ('builtin', 'filter') and len(args) == 2:
            items = list(self.iterate(args[1]))
            if args[0] is None:
                return [x for x in items if self.truth(x)]
            return [x for x in items if self.truth(
                self.invoke(args[0], [x], {}, None, site))]
        # functools.partial objects
        if f == ('global', 'functools.partial') and args:
            return ('partial', args[0], list(args[1:]), dict(kwargs))
        if isinstance(f, tuple) and len(f) == 4 and f[0] == 'partial':
            kw = dict(f[3])
            kw.update(kwargs)
            return self.invoke(f[1], list(f[2]) + list(args), kw, None,
                               site)
        if isinstance(f, tuple) and len(f) == 2 and f[0] == 'global' and \
                f[1].startswith('operator.') and f[1] not in (
                    'operator.attrgetter', 'operator.itemgetter',
                    'operator.methodcaller') and not kwargs and \
                not any(isinstance(a, (Sym, Obj, Closure)) for a in args):
            import operator as _op
            fn = getattr(_op, f[1][9:], None)
            if fn is not None:
                try:
                    return fn(*args)
                except Exception as ex:
                    raise _Raise(type(ex).__name__)
        # short-circuit quantifiers over lazily evaluated comprehensions
        if f == ('builtin', 'any'):
            for x in self.iterate(args[0], force=False):
                if self.truth(self.force(x)):
                    return True
            return False
        if f == ('builtin', 'all'):
            for x in self.iterate(args[0], force=False):
                if not self.truth(self.force(x)):
                    return False
            return True
        args = [[self.force(x) for x in a] if isinstance(a, list) and any(
            isinstance(x, Thunk) for x in a) else a for a in args]
        if f == ('builtin', 'object.__init__'):
            return None
        if isinstance(f, tuple) and f[0] == 'builtin':
            name = f[1]
            self.shared['call'] = site
            r = self.oracle('builtins.' + name, args, kwargs)
            if r is not None:
                self.trace.append(('builtins.' + name, args))
                if isinstance(r[0], _Raise):
                    raise r[0]
                return r[0]
            if name == 'next' and args and hasattr(args[0], '__next__') \
                    and not isinstance(args[0], (Sym, Obj)):
                try:
                    return next(args[0])
                except StopIteration:
                    if len(args) == 2:
                        return args[1]
                    raise _Raise('StopIteration')
            if name in ('setattr', 'getattr', 'hasattr') and args and \
                    isinstance(args[0], Obj) and isinstance(args[1], str):
                if name == 'setattr' and len(args) == 3:
                    args[0].attrs[args[1]] = args[2]
                    return None
                if name == 'hasattr':
                    return args[1] in args[0].attrs
                if args[1] in args[0].attrs:
                    return args[0].attrs[args[1]]
                if len(args) == 3:
                    return args[2]
                raise _Raise('AttributeError')
            if name == 'isinstance':
                if self.isinstance_oracle is None:
                    raise Unsupported('isinstance')
                if e is None:
                    raise Unsupported('isinstance through an indirect call')
                return self.isinstance_oracle(args[0], e.args[1])
            if name == 'id' and len(args) == 1:
                return id(args[0])
            fn = BUILTINS.get(name)
            args = [a.attrs['__items__'] if isinstance(a, Obj) and
                    '__items__' in a.attrs else a for a in args]
            if fn is None or any(isinstance(a, Sym) for a in args):
                raise Unsupported('builtin ' + name)
            try:
                r = fn(*args)
            except Exception as ex:
                raise _Raise(type(ex).__name__)
            return list(r) if name in ('enumerate', 'zip', 'sorted',
                                       'iter', 'reversed', 'range') else r
        if isinstance(f, tuple) and f[0] == 'attr':
            base, attr = f[1], f[2]
            if isinstance(base, str) and not attr.startswith('_') and \
                    hasattr(str, attr) and not any(
                        isinstance(a, (Sym, Obj, Closure)) for a in args):
                # str methods are pure functions of concrete text
                try:
                    r = getattr(base, attr)(*args, **kwargs)
                except Exception as ex:
                    raise _Raise(type(ex).__name__)
                return list(r) if attr in ('split', 'rsplit', 'splitlines',
                                           'partition', 'rpartition') \
                    else r
            if isinstance(base, dict) and attr in ('get', 'items', 'keys',
                                                   'values'):
                r = getattr(base, attr)(*args)
                return list(r) if attr != 'get' else r
            if isinstance(base, dict) and attr in ('copy', 'pop', 'update',
                                                   'setdefault', 'clear'):
                try:
                    if attr == 'update':
                        for a in args:
                            base.update(dict(a) if not isinstance(
                                a, dict) else a)
                        base.update(kwargs)
                        return None
                    return getattr(base, attr)(*args)
                except KeyError:
                    raise _Raise('KeyError')
            if isinstance(base, list) and attr in ('copy', 'pop', 'insert',
                                                   'index', 'count'):
                try:
                    return getattr(base, attr)(*args)
                except (IndexError, ValueError) as ex:
                    raise _Raise(type(ex).__name__)
            if isinstance(base, tuple) and len(base) == 2 and base in (
                    ('global', 'builtins.dict'), ('builtin', 'dict')) \
                    and attr == 'fromkeys':
                return dict.fromkeys(list(self.iterate(args[0])),
                                     *args[1:])
            if isinstance(base, list) and attr in ('append', 'extend'):
                if attr == 'extend':
                    base.extend(self.iterate(args[0]))
                else:
                    base.append(*args)
                return None
            if isinstance(base, set) and attr in ('add', 'update'):
                if attr == 'update':
                    for a in args:
                        base.update(self.iterate(a))
                else:
                    base.add(*args)
                return None
            if isinstance(base, dict) and attr == 'get':
                pass
            self.shared['call'] = site
            r = self.oracle('.' + attr, [base] + args, kwargs)
            if r is not None:
                self.trace.append(('.' + attr, [base] + args))
                return r[0]
            raise Unsupported('method %s of %r' % (attr, base))
        if isinstance(f, Closure):
            return self.apply(f.node, f.env, args, kwargs)
        if isinstance(f, tuple) and len(f) == 3 and f[0] == 'bound':
            m, recv = f[1], f[2]
            self.shared['call'] = site
            r = self.oracle(m.key, args, kwargs)
            if r is not None:
                self.trace.append((m.key, args))
                return r[0]
            sub = Interp(self.repo, m.module, self.oracle,
                         self.isinstance_oracle, self.max_steps)
            sub.symbolic_ops = self.symbolic_ops
            sub.shared = self.shared
            sub.steps, sub.trace = self.steps, self.trace
            out = sub.apply(m.node, {}, ([recv] if recv is not None
                                         else []) + args, kwargs)
            self.steps = sub.steps
            return out
        if isinstance(f, model.FuncInfo):
            self.shared['call'] = site
            r = self.oracle(f.key, args, kwargs)
            if r is not None:
                self.trace.append((f.key, args))
                return r[0]
            if not self.follow:
                raise Unsupported('call of ' + f.key)
            sub = Interp(self.repo, f.module, self.oracle,
                         self.isinstance_oracle, self.max_steps)
            sub.symbolic_ops = self.symbolic_ops
            sub.shared = self.shared
            sub.steps = self.steps
            sub.trace = self.trace
            out = sub.apply(f.node, {}, args, kwargs)
            self.steps = sub.steps
            return out
        if isinstance(f, tuple) and f[0] == 'global':
            self.shared['call'] = site
            r = self.oracle(f[1], args, kwargs)
            if r is not None:
                self.trace.append((f[1], args))
                if isinstance(r[0], _Raise):
                    raise r[0]
                return r[0]
            lib = self.library(f[1], args, kwargs, site)
            if lib is not NotImplemented:
                return lib
            tgt = self.repo.lookup(f[1])
            if isinstance(tgt, model.ClassInfo) and self.follow:
                # instantiate a class of the repository
                inst = Obj(tgt.node.name, __class__=tgt)
                init = self.repo.find_method(tgt, '__init__')
                if tgt.module.name.endswith('.exceptions') or any(
                        self.repo.is_subclass(tgt, b) for b in (
                            'builtins.Exception',
                            'builtins.BaseException')):
                    # an exception object: only its class matters
                    inst.attrs['args'] = tuple(args)
                    return inst
                if init is not None:
                    self.invoke(('bound', init, inst), args, kwargs, None,
                                site)
                elif args or kwargs:
                    raise Unsupported('constructor arguments')
                return inst
            if isinstance(tgt, model.FuncInfo) and self.follow:
                self.shared['call'] = site
                r = self.oracle(tgt.key, args, kwargs)
                if r is not None:
                    self.trace.append((tgt.key, args))
                    return r[0]
                sub = Interp(self.repo, tgt.module, self.oracle,
                             self.isinstance_oracle, self.max_steps)
                sub.symbolic_ops = self.symbolic_ops
                sub.shared = self.shared
                sub.steps, sub.trace = self.steps, self.trace
                out = sub.apply(tgt.node, {}, args, kwargs)
                self.steps = sub.steps
                return out
            if f[1] in PURE_LIBRARY and not any(
                    isinstance(a, (Sym, Obj, Closure)) for a in args):
                import importlib
                m, _, nm = f[1].rpartition('.')
                try:
                    return getattr(importlib.import_module(m), nm)(
                        *args, **kwargs)
                except Exception as ex:
                    raise _Raise(type(ex).__name__)
            raise Unsupported('call of ' + f[1])
        if isinstance(f, Sym):
            self.shared['call'] = site
            r = self.oracle(f.name, args, kwargs)
            if r is not None:
                self.trace.append((f.name, args))
                if isinstance(r[0], _Raise):
                    raise r[0]
                return r[0]
        if isinstance(f, Obj) and '__call__' in f.attrs:
            return self.invoke(f.attrs['__call__'], args, kwargs, None,
                               site)
        if isinstance(f, Obj) and f.attrs.get('__class__') is not None:
            m = self.repo.find_method(f.attrs['__class__'], '__call__')
            if m is not None:
                return self.invoke(('bound', m, f), args, kwargs, None,
                                   site)
        raise Unsupported('call of %r' % (f,))

    def library(self, name, args, kwargs, site):
        """Models of the library combinators that show up when loops are
        respelled: every one is applied to concrete skeleton containers
        (whose elements may be opaque) and uninterpreted callables are
        invoked through the interpreter."""
        call = lambda fn, *a: self.invoke(fn, list(a), {}, None, site)
        lst = lambda v: list(self.iterate(v))
        if name == 'itertools.chain':
            out = []
            for a in args:
                out.extend(lst(a))
            return out
        if name == 'itertools.chain.from_iterable' and len(args) == 1:
            out = []
            for a in lst(args[0]):
                out.extend(lst(a))
            return out
        if name == 'itertools.starmap' and len(args) == 2:
            return [call(args[0], *lst(t)) for t in lst(args[1])]
        if name == 'itertools.repeat' and len(args) == 2 and isinstance(
                args[1], int):
            return [args[0]] * args[1]
        if name == 'itertools.count':
            return list(range(args[0] if args else 0,
                              (args[0] if args else 0) + 64))
        if name == 'itertools.product' and not kwargs:
            import itertools
            return [tuple(t) for t in itertools.product(
                *[lst(a) for a in args])]
        if name == 'itertools.islice' and len(args) >= 2 and all(
                isinstance(a, (int, type(None))) for a in args[1:]):
            import itertools
            return list(itertools.islice(lst(args[0]), *args[1:]))
        if name == 'itertools.accumulate' and len(args) in (1, 2) and \
                set(kwargs) <= {'initial'}:
            items = lst(args[0])
            out = []
            if kwargs.get('initial') is not None:
                out.append(kwargs['initial'])
            for x in items:
                if not out:
                    out.append(x)
                elif len(args) == 2:
                    out.append(call(args[1], out[-1], x))
                else:
                    out.append(self.binop(ast.Add(), out[-1], x))
            return out
        if name == 'operator.attrgetter' and args and all(
                isinstance(a, str) for a in args):
            return ('attrgetter', tuple(args))
        if name == 'operator.itemgetter' and len(args) == 1:
            return ('itemgetter', args[0])
        if name == 'functools.reduce' and len(args) in (2, 3):
            items = lst(args[1])
            if len(args) == 3:
                acc = args[2]
            elif items:
                acc, items = items[0], items[1:]
            else:
                raise _Raise('TypeError')
            for x in items:
                acc = call(args[0], acc, x)
            return acc
        if name == 'collections.namedtuple' and len(args) >= 2:
            fields = args[1]
            if isinstance(fields, str):
                fields = fields.replace(',', ' ').split()
            fields = [x for x in lst(fields)]
            if all(isinstance(x, str) for x in fields):
                return ('ntclass', args[0], tuple(fields))
        if name == 'collections.deque' and len(args) <= 1:
            return lst(args[0]) if args else []
        return NotImplemented

    def apply(self, fnode, cenv, args, kwargs):
        amap = dict(enumerate(args))
        amap.update(kwargs)
        out = self.run(fnode, amap, cenv)
        if out[0] == 'raise':
            raise _Raise(out[1])
        return out[1]
