"""Classification of the repository's functions and the origin environments
used by the effect rules (C04, C07, C09, C18)."""
import ast

from sa import model
from sa import origins
from sa import registry as regmod

CTX_NAMES = {'context', 'new_context', '__context__', '__context', 'ctx',
             'context2', 'data_context'}
HIDDEN_NAMES = {'engine', '__engine', 'yaql_interface', '__yaql_interface'}

# construction-time code of the language core: runs when engines, contexts,
# definitions are being built, never while a statement is evaluated
CONSTRUCTION = {
    'yaql.language.specs': {
        'ParameterDefinition.__init__', 'ParameterDefinition.clone',
        'FunctionDefinition.__init__', 'FunctionDefinition.clone',
        'FunctionDefinition.strip_hidden_parameters',
        'FunctionDefinition.set_parameter',
        'FunctionDefinition.insert_parameter',
        '_get_function_definition', 'get_function_definition',
        '_parameter', '_parameter.wrapper', 'parameter', 'inject', 'name',
        'name.wrapper', 'method', 'extension_method', 'no_kwargs', 'meta',
        'meta.wrapper', 'yaql_property', 'yaql_property.decorator',
    },
    'yaql.language.factory': {
        'YaqlOperators.__init__', 'YaqlEngine.__init__',
        'YaqlFactory.__init__', 'YaqlFactory.insert_operator',
        'YaqlFactory._build_operator_table', 'YaqlFactory.create',
        'YaqlFactory._create_lexer', 'YaqlFactory._create_parser',
        'YaqlFactory._name_generator', 'YaqlFactory._standard_operators',
    },
    'yaql.language.lexer': {'Lexer.__init__'},
    'yaql.language.utils': {'to_extension_method', 'create_marker',
                            'create_marker.MarkerClass.__repr__'},
    'yaql.language.parser': {'Parser.__init__',
                             'Parser._generate_operator_funcs'},
    'yaql.yaqlization': {'yaqlize', 'yaqlize.func',
                         'build_yaqlization_settings'},
    'yaql.legacy': {'YaqlFactory.__init__', 'YaqlFactory.create',
                    'create_context'},
    'yaql': {'create_context', '_setup_context', 'detect_version'},
}


class Universe:
    def __init__(self, repo, reg=None):
        self.repo = repo
        self.reg = reg or regmod.Registry(repo)
        self.payload_ov = {}      # FuncInfo.key -> [Overload]
        for ov in self.reg.overloads:
            self.payload_ov.setdefault(ov.func.key, []).append(ov)
        self._envs = {}

    # -- classification -----------------------------------------------------
    def role(self, fi):
        """payload | nested | helper | register | core | construction | cli
        | hostapi"""
        mod = fi.module.name
        q = fi.qualname
        top = fi
        while top.parent_func is not None:
            top = top.parent_func
        if mod.startswith('yaql.cli'):
            return 'cli'
        if top.qualname in CONSTRUCTION.get(mod, ()) or \
                q in CONSTRUCTION.get(mod, ()):
            if fi.key in self.payload_ov:
                return 'payload'
            # nested payloads defined inside construction code (finalize,
            # limit, p_binary ...) are evaluation/parse time
            if fi is not top and not q in CONSTRUCTION.get(mod, ()):
                if top.qualname in ('Parser._generate_operator_funcs',
                                    '_setup_context',
                                    'yaql_property.decorator',
                                    'yaql_property'):
                    return 'nested-runtime'
            return 'construction'
        if fi.key in self.payload_ov:
            return 'payload'
        if fi.name == '__init__' and fi.is_method:
            return 'init'
        if mod in ('yaql.language.factory', 'yaql.language.parser',
                   'yaql.language.lexer'):
            return 'parse'      # builds the shared statement tree
        if mod.startswith('yaql.standard_library'):
            if top.name.startswith('register'):
                return 'register'
            if fi.parent_func is not None:
                return 'nested'
            return 'helper'
        if fi.name == '__init__' and fi.is_method:
            return 'init'
        if mod == 'yaql.yaql_interface' or (mod == 'yaql' and
                                             fi.name == 'eval'):
            return 'hostapi'
        return 'core'

    def evaluation_time(self):
        """Every function whose code can run while a statement is being
        evaluated (strict default: unclassified => evaluation time)."""
        out = []
        for fi in self.repo.all_functions():
            r = self.role(fi)
            if r in ('construction', 'register', 'cli'):
                continue
            out.append((fi, r))
        return out

    # -- origin environments ------------------------------------------------
    def param_tags(self, fi):
        tags = {}
        ovs = self.payload_ov.get(fi.key)
        a = fi.node.args
        if ovs:
            ov = ovs[0]
            for p in ov.params:
                if p.type.hidden:
                    short = (p.type.cls or '').rsplit('.', 1)[-1]
                    if short == 'Context':
                        tags[p.name] = ({('ctx', p.name)}, set())
                    else:
                        tags[p.name] = ({('hidden', p.name)}, set())
                elif p.type.lazy:
                    if p.kind in ('vararg', 'varkw'):
                        tags[p.name] = ({origins.FRESH},
                                        {('lazy', p.name)})
                    else:
                        tags[p.name] = ({('lazy', p.name)}, set())
                elif p.kind in ('vararg', 'varkw'):
                    tags[p.name] = ({origins.FRESH},
                                    {('derived', p.name)})
                else:
                    tags[p.name] = ({('param', p.name)},
                                    {('derived', p.name)})
            return tags
        pos = [x.arg for x in a.posonlyargs + a.args]
        is_method = fi.is_method and \
            not any(isinstance(d, ast.Name) and d.id == 'staticmethod'
                    for d in fi.node.decorator_list)
        for i, n in enumerate(pos):
            if i == 0 and is_method:
                tags[n] = ({origins.SELF}, set())
            elif n in CTX_NAMES:
                tags[n] = ({('ctx', n)}, set())
            elif n in HIDDEN_NAMES:
                tags[n] = ({('hidden', n)}, set())
            else:
                tags[n] = ({('param', n)}, {('derived', n)})
        for x in a.kwonlyargs:
            tags[x.arg] = ({('param', x.arg)}, {('derived', x.arg)})
        if a.vararg:
            tags[a.vararg.arg] = ({origins.FRESH},
                                  {('derived', a.vararg.arg)})
        if a.kwarg:
            tags[a.kwarg.arg] = ({origins.FRESH},
                                 {('derived', a.kwarg.arg)})
        return tags

    def env(self, fi):
        if fi.key in self._envs:
            return self._envs[fi.key]
        outer = self.env(fi.parent_func) if fi.parent_func is not None \
            else None
        e = origins.Env(self.repo, fi, self.param_tags(fi), outer,
                        self.summaries())
        self._envs[fi.key] = e
        return e

    def summaries(self):
        if hasattr(self, '_summ'):
            return self._summ
        self._summ = {}
        # returns_fresh: every return expression is a fresh builder
        for fi in self.repo.all_functions():
            rets = [n for n in model.walk_shallow(fi.node)
                    if isinstance(n, ast.Return) and n.value is not None]
            if not rets:
                continue
            fresh = True
            for r in rets:
                v = r.value
                if isinstance(v, (ast.List, ast.Dict, ast.Set, ast.Tuple,
                                  ast.ListComp, ast.DictComp, ast.SetComp,
                                  ast.GeneratorExp)):
                    continue
                if isinstance(v, ast.Call):
                    d = self.repo.resolve(fi.module, v.func,
                                          model.scope_locals(fi))
                    if d in origins.FRESH_BUILDERS:
                        continue
                fresh = False
            self._summ[fi.key] = {'returns_fresh': fresh}
        return self._summ
