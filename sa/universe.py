"""Classification of the repository's functions and the origin environments
used by the effect rules (C04, C07, C09, C18)."""
import ast

from sa import model
from sa import origins
from sa import registry as regmod

CTX_NAMES = {'context', 'new_context', '__context__', '__context', 'ctx',
             'context2', 'data_context'}
HIDDEN_NAMES = {'engine', '__engine', 'yaql_interface', '__yaql_interface'}

# construction-time code of the language core: runs when engines, contexts,
# definitions are being built, never while a statement is evaluated
CONSTRUCTION = {
    'yaql.language.specs': {
        'ParameterDefinition.__init__', 'ParameterDefinition.clone',
        'FunctionDefinition.__init__', 'FunctionDefinition.clone',
        'FunctionDefinition.strip_hidden_parameters',
        'FunctionDefinition.set_parameter',
        'FunctionDefinition.insert_parameter',
        '_get_function_definition', 'get_function_definition',
        '_parameter', '_parameter.wrapper', 'parameter', 'inject', 'name',
        'name.wrapper', 'method', 'extension_method', 'no_kwargs', 'meta',
        'meta.wrapper', 'yaql_property', 'yaql_property.decorator',
    },
    'yaql.language.factory': {
        'YaqlOperators.__init__', 'YaqlEngine.__init__',
        'YaqlFactory.__init__', 'YaqlFactory.insert_operator',
        'YaqlFactory._build_operator_table', 'YaqlFactory.create',
        'YaqlFactory._create_lexer', 'YaqlFactory._create_parser',
        'YaqlFactory._name_generator', 'YaqlFactory._standard_operators',
    },
    'yaql.language.lexer': {'Lexer.__init__'},
    'yaql.language.utils': {'to_extension_method', 'create_marker',
                            'create_marker.MarkerClass.__repr__'},
    'yaql.language.parser': {'Parser.__init__',
                             'Parser._generate_operator_funcs'},
    'yaql.yaqlization': {'yaqlize', 'yaqlize.func',
                         'build_yaqlization_settings'},
    'yaql.legacy': {'YaqlFactory.__init__', 'YaqlFactory.create',
                    'create_context'},
    'yaql': {'create_context', '_setup_context', 'detect_version'},
}


class Universe:
    def __init__(self, repo, reg=None):
        self.repo = repo
        self.reg = reg or regmod.Registry(repo)
        self.payload_ov = {}      # FuncInfo.key -> [Overload]
        for ov in self.reg.overloads:
            self.payload_ov.setdefault(ov.func.key, []).append(ov)
        self._envs = {}
        self.derived_construction = set()
        self._derive_construction()
        self._derive_callable_objects()

    def _derive_construction(self):
        """Helpers that construction-time code was split into: a function
        all of whose call sites (by name, anywhere in the repository) lie in
        construction-time functions is construction-time itself."""
        idx = {}
        partial_args = set()
        for f in self.repo.all_functions():
            for c in model.calls_in(f.node, shallow=True):
                nm = c.func.attr if isinstance(c.func, ast.Attribute) else (
                    c.func.id if isinstance(c.func, ast.Name) else None)
                if nm:
                    idx.setdefault(nm, []).append(f)
                # functools.partial(helper, ...): the helper runs whenever
                # the partial does, i.e. it belongs to whoever built it
                if model.norm(c.func) in ('functools.partial', 'partial') \
                        and c.args and isinstance(c.args[0], ast.Name):
                    idx.setdefault(c.args[0].id, []).append(f)
                    partial_args.add(id(c.args[0]))
        # calls made while a module is imported (module level, class
        # bodies, decorators and defaults of top-level functions)
        IMPORT = object()
        for mod in self.repo.modules.values():
            for c in ast.walk(mod.tree):
                if not isinstance(c, ast.Call):
                    continue
                nm = c.func.attr if isinstance(c.func, ast.Attribute) else (
                    c.func.id if isinstance(c.func, ast.Name) else None)
                if nm and self._import_time(c):
                    idx.setdefault(nm, []).append(IMPORT)
        # names that are also referenced without being called (passed as a
        # value) can run at any time
        loaded = {}
        for f in self.repo.all_functions():
            for n in model.walk_shallow(f.node):
                if isinstance(n, ast.Name) and isinstance(n.ctx, ast.Load):
                    par = getattr(n, '_parent', None)
                    if id(n) in partial_args:
                        continue
                    if not (isinstance(par, ast.Call) and par.func is n):
                        loaded.setdefault(n.id, 0)
                        loaded[n.id] += 1
        # `@helper` on a module-level function is a call made at import
        for mod in self.repo.modules.values():
            for st in mod.tree.body:
                if isinstance(st, (ast.FunctionDef, ast.ClassDef)):
                    for d in st.decorator_list:
                        if isinstance(d, ast.Name):
                            idx.setdefault(d.id, []).append(IMPORT)
        changed = True
        while changed:
            changed = False
            for f in self.repo.all_functions():
                if f.key in self.derived_construction or \
                        f.key in self.payload_ov or f.name.startswith('__'):
                    continue
                if f.parent_func is not None:
                    continue
                if self._base_role(f) in ('construction', 'register', 'cli'):
                    continue
                if not f.name.startswith('_') or loaded.get(f.name):
                    continue
                callers = idx.get(f.name, [])
                if callers and all(
                        c is IMPORT or
                        self._base_role(c) in ('construction', 'register')
                        or c.key in self.derived_construction or
                        self._top(c).key in self.derived_construction
                        for c in callers):
                    self.derived_construction.add(f.key)
                    changed = True

    def _derive_callable_objects(self):
        """A private class every instance of which is made in a
        construction-time function, bound to a local there and only used as
        a receiver, called, or returned (never stored or passed on) is what
        a nested function of that function would be: its methods run when
        the construction-time function, or the host holding its result,
        says so."""
        for mod in self.repo.modules.values():
            for ci in mod.classes.values():
                nm = ci.node.name
                if not nm.startswith('_') or ci.node not in mod.tree.body:
                    continue
                refs = [n for n in ast.walk(mod.tree)
                        if isinstance(n, ast.Name) and n.id == nm and
                        isinstance(n.ctx, ast.Load)]
                if not refs:
                    continue
                ok = True
                for r in refs:
                    call = getattr(r, '_parent', None)
                    if not (isinstance(call, ast.Call) and call.func is r):
                        ok = False
                        break
                    f = model.enclosing(call, (ast.FunctionDef,
                                               ast.AsyncFunctionDef))
                    fi = next((x for x in mod.functions.values()
                               if x.node is f), None)
                    if fi is None or self.role(fi) not in (
                            'construction', 'register'):
                        ok = False
                        break
                    asg = getattr(call, '_parent', None)
                    if isinstance(asg, ast.Return):
                        continue
                    if not (isinstance(asg, ast.Assign) and len(
                            asg.targets) == 1 and isinstance(
                            asg.targets[0], ast.Name)):
                        ok = False
                        break
                    local = asg.targets[0].id
                    for x in ast.walk(f):
                        if not (isinstance(x, ast.Name) and x.id == local):
                            continue
                        if isinstance(x.ctx, ast.Store):
                            if x is not asg.targets[0]:
                                ok = False
                            continue
                        p = getattr(x, '_parent', None)
                        if not ((isinstance(p, ast.Attribute) and
                                 p.value is x) or
                                (isinstance(p, ast.Call) and p.func is x) or
                                isinstance(p, ast.Return)) or \
                                model.enclosing(x, (
                                    ast.FunctionDef, ast.AsyncFunctionDef,
                                    ast.Lambda)) is not f:
                            ok = False
                if ok:
                    for m in ci.methods.values():
                        if m.key not in self.payload_ov:
                            self.derived_construction.add(m.key)

    @staticmethod
    def _import_time(node):
        """Is `node` evaluated while its module is imported?"""
        cur = node
        while cur is not None:
            par = getattr(cur, '_parent', None)
            if isinstance(par, (ast.FunctionDef, ast.AsyncFunctionDef)):
                if any(cur is d for d in par.decorator_list) or \
                        isinstance(cur, ast.arguments):
                    cur = par
                    continue
                return False
            if isinstance(par, ast.Lambda):
                return False
            cur = par
        return True

    def _is_payload_factory(self, fi):
        """A module-level function that defines a registered payload in its
        body and returns it: its own statements run at registration."""
        inner = [f for f in fi.module.functions.values()
                 if f.parent_func is fi and f.key in self.payload_ov]
        if not inner:
            return False
        names = {f.name for f in inner}
        return any(isinstance(r, ast.Return) and isinstance(
            r.value, ast.Name) and r.value.id in names
            for r in model.walk_shallow(fi.node))

    @staticmethod
    def _top(fi):
        while fi.parent_func is not None:
            fi = fi.parent_func
        return fi

    # -- classification -----------------------------------------------------
    def role(self, fi):
        if self._top(fi).key in self.derived_construction and \
                fi.key not in self.payload_ov:
            return 'construction'
        return self._base_role(fi)

    def _base_role(self, fi):
        """payload | nested | helper | register | core | construction | cli
        | hostapi"""
        mod = fi.module.name
        q = fi.qualname
        top = fi
        while top.parent_func is not None:
            top = top.parent_func
        if mod.startswith('yaql.cli'):
            return 'cli'
        if top.qualname in CONSTRUCTION.get(mod, ()) or \
                q in CONSTRUCTION.get(mod, ()):
            if fi.key in self.payload_ov:
                return 'payload'
            # nested payloads defined inside construction code (finalize,
            # limit, p_binary ...) are evaluation/parse time
            if fi is not top and not q in CONSTRUCTION.get(mod, ()):
                if top.qualname in ('Parser._generate_operator_funcs',
                                    '_setup_context',
                                    'yaql_property.decorator',
                                    'yaql_property'):
                    return 'nested-runtime'
            return 'construction'
        if fi.key in self.payload_ov:
            return 'payload'
        if fi.name == '__init__' and fi.is_method:
            return 'init'
        if mod in ('yaql.language.factory', 'yaql.language.parser',
                   'yaql.language.lexer'):
            return 'parse'      # builds the shared statement tree
        if mod.startswith('yaql.standard_library'):
            if top.name.startswith('register'):
                return 'register'
            if fi.parent_func is not None:
                return 'nested'
            if self._is_payload_factory(fi):
                # group_by_function(flag): runs once, when the library is
                # registered, and returns the payload it defines
                return 'register'
            return 'helper'
        if fi.name == '__init__' and fi.is_method:
            return 'init'
        if mod == 'yaql.yaql_interface' or (mod == 'yaql' and
                                             fi.name == 'eval'):
            return 'hostapi'
        return 'core'

    def evaluation_time(self):
        """Every function whose code can run while a statement is being
        evaluated (strict default: unclassified => evaluation time)."""
        out = []
        for fi in self.repo.all_functions():
            r = self.role(fi)
            if r in ('construction', 'register', 'cli'):
                continue
            out.append((fi, r))
        return out

    # -- origin environments ------------------------------------------------
    def param_tags(self, fi):
        tags = {}
        ovs = self.payload_ov.get(fi.key)
        a = fi.node.args
        if ovs:
            ov = ovs[0]
            for p in ov.params:
                if p.type.hidden:
                    short = (p.type.cls or '').rsplit('.', 1)[-1]
                    if short == 'Context':
                        tags[p.name] = ({('ctx', p.name)}, set())
                    else:
                        tags[p.name] = ({('hidden', p.name)}, set())
                elif p.type.lazy:
                    if p.kind in ('vararg', 'varkw'):
                        tags[p.name] = ({origins.FRESH},
                                        {('lazy', p.name)})
                    else:
                        tags[p.name] = ({('lazy', p.name)}, set())
                elif p.kind in ('vararg', 'varkw'):
                    tags[p.name] = ({origins.FRESH},
                                    {('derived', p.name)})
                elif self._declared_repo_class(p):
                    # an object of a class the library itself defines
                    # (OrderingIterable ...): built during the evaluation,
                    # not host data; what it *holds* may be
                    tags[p.name] = ({('libobj', p.name)},
                                    {('derived', p.name)})
                else:
                    tags[p.name] = ({('param', p.name)},
                                    {('derived', p.name)})
            return tags
        inherited = self._tags_from_call_sites(fi)
        if inherited is not None:
            return inherited
        pos = [x.arg for x in a.posonlyargs + a.args]
        is_method = fi.is_method and \
            not any(isinstance(d, ast.Name) and d.id == 'staticmethod'
                    for d in fi.node.decorator_list)
        for i, n in enumerate(pos):
            if i == 0 and is_method:
                tags[n] = ({origins.SELF}, set())
            elif n in CTX_NAMES:
                tags[n] = ({('ctx', n)}, set())
            elif n in HIDDEN_NAMES:
                tags[n] = ({('hidden', n)}, set())
            else:
                tags[n] = ({('param', n)}, {('derived', n)})
        for x in a.kwonlyargs:
            tags[x.arg] = ({('param', x.arg)}, {('derived', x.arg)})
        if a.vararg:
            tags[a.vararg.arg] = ({origins.FRESH},
                                  {('derived', a.vararg.arg)})
        if a.kwarg:
            tags[a.kwarg.arg] = ({origins.FRESH},
                                 {('derived', a.kwarg.arg)})
        return tags

    def _declared_repo_class(self, p):
        pts = p.type.python_types
        if not pts:
            return False
        for t in pts:
            ci = self.repo.lookup(t)
            if not (isinstance(ci, model.ClassInfo) and
                    ci.module.name.startswith('yaql.standard_library')):
                return False
        return True

    def _tags_from_call_sites(self, fi):
        """A private module-level helper sees what its callers hand it: the
        tags of each parameter are the join of the tags of the actual
        arguments at every call site.  None if the helper can be reached in
        other ways (public name, passed around as a value, no call site,
        recursion)."""
        ctor_of = None
        if fi.cls is not None and fi.name == '__init__' and \
                fi.parent_func is None and '.' not in fi.cls.qualname and \
                fi.cls.node.name.startswith('_') and \
                not fi.cls.node.name.startswith('__'):
            # the constructor of a private module-level class sees what
            # the places that instantiate the class hand it
            ctor_of = fi.cls
        elif fi.parent_func is not None or fi.cls is not None or \
                not fi.name.startswith('_') or fi.name.startswith('__'):
            return None
        busy = self.__dict__.setdefault('_busy_tags', set())
        if fi.key in busy:
            return None
        idx = self.__dict__.get('_call_idx')
        if idx is None:
            idx = {}
            loaded = {}
            for f in self.repo.all_functions():
                for n in ast.walk(f.node):
                    if isinstance(n, ast.Call) and isinstance(
                            n.func, ast.Name):
                        idx.setdefault((f.module.name, n.func.id),
                                       []).append((f, n))
                    elif isinstance(n, ast.Name) and isinstance(
                            n.ctx, ast.Load):
                        par = getattr(n, '_parent', None)
                        if isinstance(par, ast.Call) and par.args and \
                                par.args[0] is n and model.norm(
                                    par.func) in ('functools.partial',
                                                  'partial'):
                            # partial(f, a, b): a call site that binds the
                            # leading parameters
                            pc = ast.Call(func=n, args=par.args[1:],
                                          keywords=par.keywords)
                            pc._parent = getattr(par, '_parent', None)
                            ast.copy_location(pc, par)
                            idx.setdefault((f.module.name, n.id),
                                           []).append((f, pc))
                        elif not (isinstance(par, ast.Call) and
                                  par.func is n):
                            loaded[(f.module.name, n.id)] = True
            self._call_idx = idx
            self._loaded_idx = loaded
        callee_name = ctor_of.node.name if ctor_of else fi.name
        if self._loaded_idx.get((fi.module.name, callee_name)):
            return None
        sites = [(f, c) for f, c in idx.get((fi.module.name, callee_name), [])
                 if model.enclosing_function(c) is f.node]
        if not sites:
            return None
        a = fi.node.args
        pos = [x.arg for x in a.posonlyargs + a.args]
        self_name = None
        if ctor_of:
            self_name, pos = pos[0], pos[1:]
        acc = {n: [set(), set()] for n in pos}
        busy.add(fi.key)
        try:
            for f, c in sites:
                if any(isinstance(x, ast.Starred) for x in c.args) or any(
                        k.arg is None for k in c.keywords):
                    return None
                env = self.env(f)
                amap = {}
                for i, x in enumerate(c.args):
                    if i < len(pos):
                        amap[pos[i]] = x
                for k in c.keywords:
                    amap[k.arg] = k.value
                for n in pos:
                    if n not in amap:
                        continue
                    v = env.ev(amap[n])
                    acc[n][0] |= set(v.tags)
                    acc[n][1] |= set(v.c1) | set(v.deep)
        finally:
            busy.discard(fi.key)
        tags = {}
        if self_name:
            tags[self_name] = ({origins.SELF}, set())
        for n in pos:
            obj, inner = acc[n]
            if n in CTX_NAMES and not obj:
                tags[n] = ({('ctx', n)}, set())
                continue
            # rename per-caller roots to this function's own parameter so
            # that reports name it
            def own(ts):
                out = set()
                for t in ts:
                    if t[0] in ('param', 'derived', 'lazyres'):
                        out.add((t[0], n))
                    else:
                        out.add(t)
                return out
            if not obj:
                tags[n] = ({('param', n)}, {('derived', n)})
            else:
                tags[n] = (own(obj), own(inner))
        if a.vararg:
            tags[a.vararg.arg] = ({origins.FRESH},
                                  {('derived', a.vararg.arg)})
        if a.kwarg:
            tags[a.kwarg.arg] = ({origins.FRESH},
                                 {('derived', a.kwarg.arg)})
        for x in a.kwonlyargs:
            tags[x.arg] = ({('param', x.arg)}, {('derived', x.arg)})
        return tags

    def ctor_attrs(self, fi):
        """For a method of a private module-level class: the attributes of
        self that are bound exactly once in the whole class, in __init__,
        straight from a constructor parameter -> what the instantiation
        sites hand for that parameter."""
        ci = fi.cls
        if ci is None or not fi.is_method or fi.name == '__init__' or \
                fi.parent_func is not None:
            return None
        cache = self.__dict__.setdefault('_ctor_attrs', {})
        if ci.key in cache:
            return cache[ci.key]
        cache[ci.key] = None
        init = ci.methods.get('__init__')
        if init is None:
            return None
        tags = self._tags_from_call_sites(init)
        if tags is None:
            return None
        stores = {}
        for m in ci.methods.values():
            selfn = m.params()[0] if m.params() else None
            for n in ast.walk(m.node):
                if isinstance(n, ast.Attribute) and isinstance(
                        n.ctx, (ast.Store, ast.Del)) and isinstance(
                        n.value, ast.Name) and n.value.id == selfn:
                    stores.setdefault(n.attr, []).append((m, n))
        out = {}
        for attr, lst in stores.items():
            if len(lst) != 1 or lst[0][0] is not init:
                continue
            st = getattr(lst[0][1], '_parent', None)
            if isinstance(st, ast.Assign) and len(st.targets) == 1 and \
                    isinstance(st.value, ast.Name) and st.value.id in tags \
                    and st.value.id != init.params()[0]:
                out[attr] = tags[st.value.id]
        cache[ci.key] = out or None
        return cache[ci.key]

    def env(self, fi):
        if fi.key in self._envs:
            return self._envs[fi.key]
        outer = self.env(fi.parent_func) if fi.parent_func is not None \
            else None
        e = origins.Env(self.repo, fi, self.param_tags(fi), outer,
                        self.summaries(), self.ctor_attrs(fi))
        self._envs[fi.key] = e
        return e

    def summaries(self):
        if hasattr(self, '_summ'):
            return self._summ
        self._summ = {}
        # returns_fresh: every return expression is a fresh builder
        for fi in self.repo.all_functions():
            rets = [n for n in model.walk_shallow(fi.node)
                    if isinstance(n, ast.Return) and n.value is not None]
            if not rets:
                continue
            fresh = True
            for r in rets:
                v = r.value
                if isinstance(v, (ast.List, ast.Dict, ast.Set, ast.Tuple,
                                  ast.ListComp, ast.DictComp, ast.SetComp,
                                  ast.GeneratorExp)):
                    continue
                if isinstance(v, ast.Call):
                    d = self.repo.resolve(fi.module, v.func,
                                          model.scope_locals(fi))
                    if d in origins.FRESH_BUILDERS:
                        continue
                fresh = False
            # returns_global: every return expression is (a choice between)
            # module-level objects, e.g. operator.floordiv
            glob = set()
            for r in rets:
                leaves = [r.value]
                while leaves and glob is not None:
                    e = leaves.pop()
                    if isinstance(e, ast.IfExp):
                        leaves += [e.body, e.orelse]
                        continue
                    d = None
                    if isinstance(e, (ast.Name, ast.Attribute)):
                        d = self.repo.resolve(fi.module, e,
                                              model.scope_locals(fi))
                    if d is None:
                        glob = None
                    else:
                        glob.add(d)
                if glob is None:
                    break
            self._summ[fi.key] = {'returns_fresh': fresh,
                                  'returns_global': glob or None}
        return self._summ
