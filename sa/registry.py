"""E2 -- the declared function registry, recovered from the decorator DSL and
the register() bodies by abstract evaluation of the AST (no import)."""
import ast
import re

from sa import model
from sa.model import AnalysisError

SPECS = 'yaql.language.specs'
YT = 'yaql.language.yaqltypes'
NO_DEFAULT = object()

HIDDEN_BY_NAME = {
    'context': YT + '.Context', '__context': YT + '.Context',
    'engine': YT + '.Engine', '__engine': YT + '.Engine',
    'yaql_interface': YT + '.YaqlInterface',
    '__yaql_interface': YT + '.YaqlInterface',
}

ITER_ABCS = {'collections.abc.Iterable', 'collections.abc.Iterator',
             'builtins.object', 'collections.abc.Generator',
             'typing.Iterable', 'typing.Iterator'}


class TypeDesc:
    """Abstract description of a declared parameter type."""

    def __init__(self, reg, module, expr, default=NO_DEFAULT,
                 nullable_kw=None):
        self.expr = expr
        self.module = module
        self.text = model.norm(expr) if expr is not None else '<undeclared>'
        self.cls = None          # dotted: smart type class or python type
        self.smart = False
        self.smart_class = None  # ClassInfo of the smart type
        self.lazy = False
        self.hidden = False
        self.limiting = False
        self.python_types = []   # dotted python types admitted
        self.excluded = []       # dotted python types excluded by validators
        self.requires_iterator = False
        self.unknown_validators = False
        self.kwargs = {}
        self.args = []
        self.sub = []            # nested TypeDescs (AnyOf / NotOfType / Chain)
        self.nullable = None
        self._build(reg, module, expr, default, nullable_kw)

    # ------------------------------------------------------------------
    def _build(self, reg, module, expr, default, nullable_kw):
        repo = reg.repo
        if expr is None:
            # specs.set_parameter: PythonType(object | type(default), True)
            self.cls = YT + '.PythonType'
            self.smart = True
            base = 'builtins.object'
            if default is not NO_DEFAULT and isinstance(default, ast.Constant)\
                    and default.value is not None:
                base = 'builtins.' + type(default.value).__name__
            elif default is not NO_DEFAULT and default is not None and \
                    not isinstance(default, ast.Constant):
                d = repo.resolve(module, default)
                if d and d.endswith('.NO_VALUE'):
                    base = 'builtins.object'
                else:
                    base = reg.type_of_default(module, default)
            self.python_types = [base]
            self.nullable = True if nullable_kw is None else nullable_kw
            return
        if isinstance(expr, ast.Call):
            d = repo.resolve(module, expr.func)
            # type(None), type(re.compile('.'))
            if d == 'builtins.type' and len(expr.args) == 1:
                a = expr.args[0]
                if isinstance(a, ast.Constant) and a.value is None:
                    self._python([('builtins.NoneType')], default,
                                 nullable_kw)
                    return
                self._python(['<type-of:%s>' % model.norm(a)], default,
                             nullable_kw)
                return
            tgt = repo.lookup(d) if d else None
            if isinstance(tgt, model.ClassInfo) and repo.is_subclass(
                    tgt, YT + '.SmartType') or isinstance(
                    tgt, model.ClassInfo) and (
                    repo.is_subclass(tgt, YT + '.HiddenParameterType') or
                    repo.is_subclass(tgt, YT + '.LazyParameterType')):
                self._smart(reg, module, tgt, expr)
                return
            raise AnalysisError('unrecognised parameter type expression %s '
                                'in %s' % (model.norm(expr), module.name))
        # a bare name: python type (possibly via module constant)
        d = repo.resolve(module, expr)
        if d is None:
            raise AnalysisError('unrecognised parameter type expression %s '
                                'in %s' % (model.norm(expr), module.name))
        tgt = repo.lookup(d)
        if isinstance(tgt, tuple) and tgt[0] == 'const':
            # e.g. REGEX_TYPE = type(re.compile('.')), UTCTZ ...
            sub = TypeDesc(reg, tgt[1], tgt[2], default, nullable_kw)
            self.__dict__.update({k: v for k, v in sub.__dict__.items()
                                  if k not in ('expr', 'text')})
            return
        self._python([d], default, nullable_kw)

    def _python(self, types, default, nullable_kw):
        # specs.set_parameter: raw python type -> PythonType(T, default is
        # None) unless nullable given
        self.cls = YT + '.PythonType'
        self.smart = False
        self.python_types = list(types)
        if nullable_kw is not None:
            self.nullable = nullable_kw
        else:
            self.nullable = isinstance(default, ast.Constant) and \
                default.value is None if default is not NO_DEFAULT else False

    def _smart(self, reg, module, ci, call):
        repo = reg.repo
        self.smart = True
        self.smart_class = ci
        self.cls = ci.dotted
        self.args = call.args
        self.kwargs = {k.arg: k.value for k in call.keywords if k.arg}
        self.lazy = repo.is_subclass(ci, YT + '.LazyParameterType')
        self.hidden = repo.is_subclass(ci, YT + '.HiddenParameterType')
        facts = reg.smart_facts(ci)
        self.limiting = facts['limiting']
        self.python_types = list(facts['python_types'])
        self.excluded = list(facts['excluded'])
        self.requires_iterator = facts['requires_iterator']
        self.unknown_validators = facts['unknown_validators']
        name = ci.qualname
        if name == 'PythonType':
            if call.args:
                self.python_types = reg.python_type_list(module, call.args[0])
            v = self.kwargs.get('validators')
            if len(call.args) > 2:
                v = call.args[2]
            if v is not None:
                self.unknown_validators = True
            self.nullable = _const(self.kwargs.get('nullable'),
                                   _const(call.args[1], True)
                                   if len(call.args) > 1 else True)
        elif name in ('AnyOf', 'Chain'):
            for a in call.args:
                self.sub.append(TypeDesc(reg, module, a))
            self.nullable = _const(self.kwargs.get('nullable'), False)
        elif name == 'NotOfType':
            if call.args:
                self.sub.append(TypeDesc(reg, module, call.args[0]))
            self.nullable = _const(self.kwargs.get('nullable'), True)
        else:
            nl = self.kwargs.get('nullable')
            if nl is not None:
                self.nullable = _const(nl, None)
            else:
                self.nullable = facts['default_nullable']
            if name in ('Iterable', 'Iterator'):
                v = self.kwargs.get('validators') or (
                    call.args[0] if call.args else None)
                if v is not None:
                    self.unknown_validators = True

    # ------------------------------------------------------------------
    def flag(self, name, default=False):
        v = self.kwargs.get(name)
        if v is None:
            return default
        return _const(v, default)

    def admits_iterator(self):
        """May a one-shot iterator (e.g. a generator) be bound here?"""
        if self.lazy or self.hidden:
            return False
        short = self.cls.rsplit('.', 1)[-1] if self.cls else ''
        if self.smart and short == 'AnyOf':
            return any(s.admits_iterator() for s in self.sub)
        if self.smart and short == 'Chain':
            return all(s.admits_iterator() for s in self.sub)
        if self.smart and short == 'NotOfType':
            inner = self.sub[0] if self.sub else None
            if inner is not None and any(
                    t in ITER_ABCS for t in inner.python_types) and \
                    not inner.excluded:
                return False
            return True
        if self.smart and self.smart_class is not None and \
                self.smart_class.module.name != YT and not self.python_types:
            return False   # e.g. Yaqlized: host objects with settings only
        if self.smart and short in ('Constant', 'StringConstant', 'Keyword',
                                    'BooleanConstant', 'NumericConstant'):
            return False
        if not self.python_types:
            return self.smart   # unknown smart type: conservative
        if any(t in self.excluded for t in ('collections.abc.Iterator',
                                            'collections.abc.Iterable')):
            return False
        return any(t in ITER_ABCS for t in self.python_types)

    def admits_kind(self, kind):
        """kind in {'bool','int','float','str','null', ...} -- used by C15."""
        raise NotImplementedError

    def __repr__(self):
        return '<Type %s>' % self.text


def _const(node, default):
    if node is None:
        return default
    if isinstance(node, ast.Constant):
        return node.value
    return default


class Param:
    def __init__(self, name, kind, position, tdesc, default, alias):
        self.name = name          # python name
        self.kind = kind          # 'pos' | 'vararg' | 'kwonly' | 'varkw'
        self.position = position
        self.type = tdesc
        self.default = default    # ast node or NO_DEFAULT
        self.alias = alias        # explicit alias or None
        self.keyword = None       # effective keyword name (after convention)

    @property
    def hidden(self):
        return self.type.hidden

    @property
    def lazy(self):
        return self.type.lazy

    @property
    def visible(self):
        return not self.type.hidden

    def __repr__(self):
        return '<Param %s %s>' % (self.name, self.type.text)


class Overload:
    def __init__(self):
        self.func = None          # FuncInfo of the payload
        self.name = None          # registered YAQL name
        self.is_function = True
        self.is_method = False
        self.no_kwargs = False
        self.params = []
        self.exclusive = False
        self.condition = ''
        self.ctx = 'default'      # default | fallback | legacy | finalizer
        self.reg_site = None
        self.is_property = False
        self.wrapper_of = None

    def param(self, name):
        for p in self.params:
            if p.name == name:
                return p
        return None

    @property
    def key(self):
        return '%s[%s]' % (self.func.key, self.name)

    def __repr__(self):
        return '<Overload %s -> %s>' % (self.name, self.func.key)


def camel(name):
    return re.sub(r'(?!^)_(\w)', lambda m: m.group(1).upper(), name,
                  flags=re.UNICODE)


def convert_function_name(name, convention=True):
    if not name:
        return name
    name = name.rstrip('_')
    if not convention:
        return name
    if not name[0].isalpha():
        finish = name.find(name[0], 1)
        if finish <= 1:
            return name
        return name[:finish + 1] + camel(name[finish + 1:])
    return camel(name)


class Registry:
    STDLIB = ['system', 'common', 'boolean', 'strings', 'math', 'collections',
              'queries', 'regex', 'branching', 'date_time', 'yaqlized',
              'legacy']

    def __init__(self, repo):
        self.repo = repo
        self._facts = {}
        self.decl = {}      # FuncInfo.key -> declaration dict
        self.overloads = []
        self.problems = []
        self._build()

    # -- smart type class facts -------------------------------------------
    def smart_facts(self, ci):
        if ci.key in self._facts:
            return self._facts[ci.key]
        repo = self.repo
        facts = {'limiting': False, 'python_types': [], 'excluded': [],
                 'requires_iterator': False, 'unknown_validators': False,
                 'default_nullable': None}
        conv = repo.find_method(ci, 'convert')
        # limiting: convert (own or inherited) reaches utils.limit_iterable
        c = ci
        seen = set()
        for anc in repo.mro(ci):
            if not isinstance(anc, model.ClassInfo):
                continue
            m = anc.methods.get('convert')
            if m is None:
                continue
            for call in model.calls_in(m.node):
                d = repo.resolve(m.module, call.func,
                                 model.scope_locals(m))
                if d == 'yaql.language.utils.limit_iterable':
                    facts['limiting'] = True
            # only follow the chain while convert() delegates to super()
            if not any(isinstance(n, ast.Call) and isinstance(
                    n.func, ast.Attribute) and n.func.attr == 'convert' and
                    isinstance(n.func.value, ast.Call) and isinstance(
                        n.func.value.func, ast.Name) and
                    n.func.value.func.id == 'super'
                    for n in ast.walk(m.node)):
                break
        # python type + validators through the __init__ super() chain
        cur = ci
        hops = 0
        while isinstance(cur, model.ClassInfo) and hops < 8:
            hops += 1
            init = cur.methods.get('__init__')
            if cur.qualname == 'PythonType' and cur.module.name == YT:
                break
            parent = None
            for b in cur.bases:
                t = repo.lookup(b)
                if isinstance(t, model.ClassInfo) and repo.is_subclass(
                        t, YT + '.SmartType'):
                    parent = t
            if init is None:
                cur = parent
                continue
            # default of nullable parameter
            a = init.node.args
            names = [x.arg for x in a.args]
            if 'nullable' in names and facts['default_nullable'] is None:
                idx = names.index('nullable') - (len(names) - len(a.defaults))
                if idx >= 0:
                    facts['default_nullable'] = _const(a.defaults[idx], None)
            sup = None
            for n in ast.walk(init.node):
                if isinstance(n, ast.Call) and isinstance(
                        n.func, ast.Attribute) and n.func.attr == '__init__' \
                        and isinstance(n.func.value, ast.Call) and \
                        isinstance(n.func.value.func, ast.Name) and \
                        n.func.value.func.id == 'super':
                    sup = n
            if sup is None:
                break
            if parent is not None and parent.qualname == 'PythonType' and \
                    parent.module.name == YT:
                if sup.args:
                    facts['python_types'] = self.python_type_list(
                        cur.module, sup.args[0])
                if facts['default_nullable'] is None and len(sup.args) > 1:
                    facts['default_nullable'] = _const(sup.args[1], None)
                vals = None
                for k in sup.keywords:
                    if k.arg == 'validators':
                        vals = k.value
                    if k.arg == 'nullable' and \
                            facts['default_nullable'] is None:
                        facts['default_nullable'] = _const(k.value, None)
                if vals is None and len(sup.args) > 2:
                    vals = sup.args[2]
                self._validators(cur.module, vals, facts)
            else:
                if facts['default_nullable'] is None and sup.args and \
                        parent is not None and parent.qualname in (
                            'SmartType', 'GenericType'):
                    facts['default_nullable'] = _const(sup.args[0], None)
                for k in sup.keywords:
                    if k.arg == 'validators':
                        self._validators(cur.module, k.value, facts)
            cur = parent
        self._facts[ci.key] = facts
        return facts

    def _validators(self, module, node, facts):
        if node is None:
            return
        elems = []

        def flat(n):
            if isinstance(n, (ast.List, ast.Tuple)):
                for e in n.elts:
                    flat(e)
            elif isinstance(n, ast.BinOp) and isinstance(n.op, ast.Add):
                flat(n.left)
                flat(n.right)
            elif isinstance(n, ast.BoolOp):
                # (validators or [])
                for v in n.values:
                    flat(v)
            elif isinstance(n, ast.Name) and n.id == 'validators':
                pass
            else:
                elems.append(n)
        flat(node)
        for e in elems:
            body = None
            bmod = module
            if isinstance(e, ast.Lambda):
                body = e.body
            elif isinstance(e, (ast.Name, ast.Attribute)):
                # a named one-expression predicate
                dd = self.repo.resolve(module, e)
                tg = self.repo.lookup(dd) if dd else None
                if isinstance(tg, model.FuncInfo):
                    b = model.strip_docstring(tg.node.body)
                    if len(b) == 1 and isinstance(b[0], ast.Return):
                        body = b[0].value
                        bmod = tg.module
            if body is not None and isinstance(body, ast.UnaryOp) \
                    and isinstance(body.op, ast.Not) and isinstance(
                        body.operand, ast.Call) and isinstance(
                        body.operand.func, ast.Name) and \
                    body.operand.func.id == 'isinstance' and \
                    len(body.operand.args) == 2:
                facts['excluded'].extend(self.python_type_list(
                    bmod, body.operand.args[1]))
            else:
                d = self.repo.resolve(module, e)
                if d == 'yaql.language.utils.is_iterator':
                    facts['requires_iterator'] = True
                else:
                    facts['unknown_validators'] = True

    def python_type_list(self, module, node):
        if isinstance(node, ast.Tuple):
            out = []
            for e in node.elts:
                out.extend(self.python_type_list(module, e))
            return out
        d = self.repo.resolve(module, node)
        if d is None:
            return ['<expr:%s>' % model.norm(node)]
        tgt = self.repo.lookup(d)
        if isinstance(tgt, tuple) and tgt[0] == 'const':
            return self.python_type_list(tgt[1], tgt[2])
        return [d]

    def type_of_default(self, module, default):
        """type(default) for a non-literal default expression."""
        d = self.repo.resolve(module, default)
        tgt = self.repo.lookup(d) if d else None
        if isinstance(tgt, tuple) and tgt[0] == 'const':
            v = tgt[2]
            if isinstance(v, ast.Call):
                dd = self.repo.resolve(tgt[1], v.func)
                if dd:
                    t = self.repo.lookup(dd)
                    if isinstance(t, model.FuncInfo):
                        return 'builtins.object'   # marker object
                    return dd    # constructor call -> its class
            if isinstance(v, ast.Constant) and v.value is not None:
                return 'builtins.' + type(v.value).__name__
        return 'builtins.object'

    # -- declarations -----------------------------------------------------
    def _decorators(self, fi):
        """Yield (kind, call-or-name node) for every specs.* decorator,
        innermost first (the order in which they are applied)."""
        out = []
        # anything that is not literally `specs.x` / `specs.x(...)`: decide
        # by abstract evaluation first, by pattern only if that gives up
        for dec in fi.node.decorator_list:
            target = dec.func if isinstance(dec, ast.Call) else dec
            d = self.repo.resolve(fi.module, target)
            if not (d and d.startswith(SPECS + '.') or d in (
                    'builtins.staticmethod', 'builtins.classmethod',
                    'builtins.property', 'abc.abstractmethod')):
                alt = self._decorators_by_evaluation(fi)
                if alt is not None:
                    return alt
                break
        for dec in reversed(fi.node.decorator_list):
            if isinstance(dec, ast.Name):
                # a decorator object kept in a module-level name:
                # `_left = specs.parameter('left', ...)` ... `@_left`
                dd = self.repo.resolve(fi.module, dec)
                tg = self.repo.lookup(dd) if dd else None
                if isinstance(tg, tuple) and tg[0] == 'const' and \
                        isinstance(tg[2], ast.Call):
                    dec = tg[2]
                elif isinstance(tg, model.FuncInfo):
                    # a decorator *function* that applies specs decorators:
                    # def both(func): return specs.a(..)(specs.b(..)(func))
                    inner = self._composed_decorators(tg)
                    if inner is not None:
                        for d2 in inner:      # innermost first
                            t2 = d2.func if isinstance(d2, ast.Call) else d2
                            k2 = self.repo.resolve(tg.module, t2)
                            if k2 and k2.startswith(SPECS + '.'):
                                out.append((k2[len(SPECS) + 1:], d2))
                            else:
                                out.append(('?', d2))
                        continue
            target = dec.func if isinstance(dec, ast.Call) else dec
            d = self.repo.resolve(fi.module, target)
            if d and d.startswith(SPECS + '.'):
                out.append((d[len(SPECS) + 1:], dec))
            elif d in ('builtins.staticmethod', 'builtins.classmethod',
                       'builtins.property', 'abc.abstractmethod'):
                continue
            else:
                out.append(('?', dec))
        if any(k == '?' for k, _ in out):
            alt = self._decorators_by_evaluation(fi)
            if alt is not None:
                return alt
        return out

    BARE_DECORATORS = ('method', 'extension_method', 'no_kwargs')

    def _decorators_by_evaluation(self, fi):
        """The decorator stack of `fi` contains something that is not a
        plain `specs.x(...)`: a helper decorator with arguments, a generic
        `_stacked(*decorators)`, a decorator kept in a tuple ...  Evaluate the
        decorator expressions abstractly (nothing of the repository runs)
        with the `specs` primitives as uninterpreted calls and read off the
        sequence of primitive applications, innermost first.  Each is
        returned as a `specs.x(...)` call node whose arguments are the
        original argument expressions with the helper's parameters replaced
        by the constants they are bound to.  None if that cannot be done."""
        from sa import absint
        import copy
        FUNC = absint.Sym('the-decorated-function')
        applied = []
        pending = {}
        counter = [0]
        mod = fi.module
        holder = {}

        def subst(node, env, nmod):
            """node with names bound in env to constants / captured type
            expressions replaced; None if a name stays open."""
            bad = []

            class S(ast.NodeTransformer):
                def visit_Name(self, n):
                    if n.id in env:
                        v = env[n.id]
                        if isinstance(v, (str, int, float, bool,
                                          type(None))):
                            return ast.copy_location(ast.Constant(v), n)
                        if isinstance(v, absint.Obj) and \
                                'type_node' in v.attrs:
                            return v.attrs['type_node']
                        bad.append(n.id)
                    return n
            out = S().visit(copy.deepcopy(node))
            if bad or nmod is not mod:
                return None
            return ast.fix_missing_locations(out)

        def value_node(v, orig, env, nmod):
            if isinstance(v, (str, int, float, bool, type(None))):
                return ast.Constant(v)
            if isinstance(v, absint.Obj) and 'type_node' in v.attrs:
                return v.attrs['type_node']
            if orig is not None:
                return subst(orig, env, nmod)
            return None

        def rebuild(site, args, kwargs):
            """The call at `site` as a self-contained node: evaluated
            constants and captured type expressions in place of whatever
            the helper spelled (parameters, *args, **kwargs, 'a' + b)."""
            node, env, nmod = site
            plain = not any(isinstance(a, ast.Starred) for a in node.args) \
                and len(node.args) == len(args)
            new_args = []
            for i, v in enumerate(args):
                n2 = value_node(v, node.args[i] if plain else None, env,
                                nmod)
                if n2 is None:
                    return None
                new_args.append(n2)
            kws = {k.arg: k.value for k in node.keywords if k.arg}
            new_kw = []
            for k, v in kwargs.items():
                n2 = value_node(v, kws.get(k), env, nmod)
                if n2 is None:
                    return None
                new_kw.append(ast.keyword(arg=k, value=n2))
            func = subst(node.func, env, nmod)
            if func is None:
                return None
            out = ast.Call(func=func, args=new_args, keywords=new_kw)
            ast.copy_location(out, node)
            return ast.fix_missing_locations(out)

        def is_type_class(callee):
            if callee.startswith('yaql.language.yaqltypes.') or \
                    callee == 'builtins.type':
                return True
            tgt = self.repo.lookup(callee.replace(':', '.'))
            return isinstance(tgt, model.ClassInfo) and any(
                self.repo.is_subclass(tgt, b) for b in (
                    YT + '.SmartType', YT + '.HiddenParameterType',
                    YT + '.LazyParameterType'))

        def oracle(callee, args, kwargs):
            site = holder['it'].shared.get('call')
            if callee.startswith((SPECS + '.', SPECS + ':')):
                kind = callee[len(SPECS) + 1:]
                if kind in self.BARE_DECORATORS:
                    if len(args) == 1 and args[0] is FUNC:
                        applied.append((kind, ast.Name(id=kind,
                                                       ctx=ast.Load())))
                        return (FUNC,)
                    return None
                if kind in ('parameter', 'inject', 'name', 'meta',
                            'yaql_property'):
                    call = rebuild(site, args, kwargs)
                    if call is None:
                        raise absint.Unsupported(
                            'decorator arguments of %s' % model.norm(
                                site[0]))
                    counter[0] += 1
                    key = 'deco#%d' % counter[0]
                    pending[key] = (kind, call)
                    return (absint.Sym(key),)
                return None
            if callee in pending:
                if len(args) == 1 and args[0] is FUNC:
                    applied.append(pending[callee])
                    return (FUNC,)
                raise absint.Unsupported('decorator applied to something '
                                         'else')
            if is_type_class(callee):
                tn = rebuild(site, args, kwargs)
                if tn is None:
                    raise absint.Unsupported('type expression %s' %
                                             model.norm(site[0]))
                return (absint.Obj('type-expression', type_node=tn),)
            return None
        it = absint.Interp(self.repo, mod, oracle)
        holder['it'] = it
        try:
            for dec in reversed(fi.node.decorator_list):
                target = dec.func if isinstance(dec, ast.Call) else dec
                d = self.repo.resolve(mod, target)
                if d in ('builtins.staticmethod', 'builtins.classmethod',
                         'builtins.property', 'abc.abstractmethod'):
                    continue
                v = it.ev(dec, {})
                n0 = len(applied)
                if isinstance(v, absint.Sym):
                    r = oracle(v.name, [FUNC], {})
                    if r is None:
                        return None
                elif isinstance(v, absint.Closure):
                    r = it.apply(v.node, v.env, [FUNC], {})
                    if r is not FUNC:
                        return None
                elif isinstance(v, model.FuncInfo):
                    sub = it.spawn(v.module)
                    r = sub.apply(v.node, {}, [FUNC], {})
                    if r is not FUNC:
                        return None
                elif isinstance(v, tuple) and v and v[0] == 'global' and \
                        v[1].startswith(SPECS + '.'):
                    r = oracle(v[1], [FUNC], {})
                    if r is None:
                        return None
                else:
                    return None
                if len(applied) == n0:
                    return None
        except (absint.Unsupported, absint._Raise):
            return None
        return applied

    def _composed_decorators(self, h):
        """For `def deco(func): a = specs.x(..); return a(specs.y(..)(func))`
        the decorator expressions in application order (innermost first);
        None if the helper has another shape."""
        ps = h.params()
        if len(ps) != 1:
            return None
        binds = {}
        rets = []
        for st in model.strip_docstring(h.node.body):
            if isinstance(st, ast.Assign) and len(st.targets) == 1 and \
                    isinstance(st.targets[0], ast.Name):
                binds[st.targets[0].id] = st.value
            elif isinstance(st, ast.Return):
                rets.append(st.value)
            else:
                return None
        if len(rets) != 1:
            return None
        chain = []
        e = rets[0]
        while isinstance(e, ast.Call) and len(e.args) == 1 and \
                not e.keywords:
            f = e.func
            if isinstance(f, ast.Name) and f.id in binds:
                f = binds[f.id]
            chain.append(f)
            e = e.args[0]
            if isinstance(e, ast.Name) and e.id in binds and not (
                    e.id == ps[0]):
                e = binds[e.id]
        if not (isinstance(e, ast.Name) and e.id == ps[0]):
            return None
        return list(reversed(chain))

    def declaration(self, fi):
        if fi.key in self.decl:
            return self.decl[fi.key]
        try:
            decl = self._declaration_from(fi, self._decorators(fi))
        except AnalysisError:
            alt = self._decorators_by_evaluation(fi)
            if alt is None:
                raise
            decl = self._declaration_from(fi, alt)
        self.decl[fi.key] = decl
        return decl

    def _declaration_from(self, fi, decorators):
        decl = {'name': None, 'is_function': True, 'is_method': False,
                'no_kwargs': False, 'params': {}, 'property_of': None,
                'unknown_decorators': [], 'meta': {}}
        for kind, dec in decorators:
            if kind in ('parameter', 'inject'):
                args = list(dec.args)
                kw = {k.arg: k.value for k in dec.keywords}
                pname = args[0] if args else kw.get('name')
                vt = args[1] if len(args) > 1 else kw.get('value_type')
                nl = args[2] if len(args) > 2 else kw.get('nullable')
                al = args[3] if len(args) > 3 else kw.get('alias')
                if not isinstance(pname, ast.Constant):
                    raise AnalysisError(
                        'non-literal parameter name in decorator of %s' %
                        fi.key)
                decl['params'][pname.value] = {
                    'type': vt, 'nullable': _const(nl, None),
                    'alias': _const(al, None), 'kind': kind, 'node': dec}
            elif kind == 'name':
                decl['name'] = _const(dec.args[0], None) if dec.args else None
                if decl['name'] is None:
                    raise AnalysisError('non-literal @specs.name on %s' %
                                        fi.key)
            elif kind == 'method':
                decl['is_method'] = True
                decl['is_function'] = False
            elif kind == 'extension_method':
                decl['is_method'] = True
                decl['is_function'] = True
            elif kind == 'no_kwargs':
                decl['no_kwargs'] = True
            elif kind == 'meta':
                pass
            elif kind == 'yaql_property':
                decl['property_of'] = dec.args[0] if dec.args else None
            else:
                decl['unknown_decorators'].append(model.norm(dec))
        return decl

    def make_overload(self, fi, reg_name=None, function=None, method=None,
                      convention=True):
        decl = self.declaration(fi)
        ov = Overload()
        ov.func = fi
        node = fi.node
        a = node.args
        if decl['property_of'] is not None:
            # specs.yaql_property: wrapper(obj) named '#property#<name>'
            inner_name = decl['name'] or convert_function_name(
                node.name, False)
            base = '#property#{}'.format(inner_name)
            ov.is_property = True
            ov.name = reg_name if reg_name is not None else \
                convert_function_name(base, convention)
            pos = [x.arg for x in a.posonlyargs + a.args]
            if len(pos) != 1:
                raise AnalysisError('yaql_property on non-unary %s' % fi.key)
            td = TypeDesc(self, fi.module, decl['property_of'])
            p = Param(pos[0], 'pos', 0, td, NO_DEFAULT, None)
            p.keyword = 'obj'
            p.wrapper_name = 'obj'
            ov.params = [p]
            if function is not None:
                ov.is_function = function
            if method is not None:
                ov.is_method = method
            return ov
        pos = [x.arg for x in a.posonlyargs + a.args]
        defaults = [NO_DEFAULT] * (len(pos) - len(a.defaults)) + list(
            a.defaults)
        params = []
        for i, n in enumerate(pos):
            params.append((n, 'pos', i, defaults[i]))
        if a.vararg:
            params.append((a.vararg.arg, 'vararg', len(pos), NO_DEFAULT))
        for x, d in zip(a.kwonlyargs, a.kw_defaults):
            params.append((x.arg, 'kwonly', None,
                           NO_DEFAULT if d is None else d))
        if a.kwarg:
            params.append((a.kwarg.arg, 'varkw', None, NO_DEFAULT))
        declared = dict(decl['params'])
        for n, kind, position, default in params:
            d = declared.pop(n, None)
            if d is not None:
                td = TypeDesc(self, fi.module, d['type'], default,
                              d['nullable'])
                alias = d['alias']
            elif n in HIDDEN_BY_NAME:
                ci = self.repo.lookup(HIDDEN_BY_NAME[n])
                fake = ast.parse(HIDDEN_BY_NAME[n].replace(
                    YT, 'yaqltypes') + '()').body[0].value
                td = TypeDesc.__new__(TypeDesc)
                td.expr = None
                td.module = fi.module
                td.text = '<hidden-by-name %s>' % n
                td.cls = HIDDEN_BY_NAME[n]
                td.smart = True
                td.smart_class = ci
                td.lazy = False
                td.hidden = True
                td.limiting = False
                td.python_types = []
                td.excluded = []
                td.requires_iterator = False
                td.unknown_validators = False
                td.kwargs = {}
                td.args = []
                td.sub = []
                td.nullable = False
                alias = None
            else:
                td = TypeDesc(self, fi.module, None, default, None)
                alias = None
            p = Param(n, kind, position, td, default, alias)
            if alias is not None:
                p.keyword = alias
            elif convention:
                p.keyword = camel(n.rstrip('_'))
            else:
                p.keyword = n
            ov.params.append(p)
        if declared:
            self.problems.append(
                '%s: decorator names parameter(s) %s not in the signature' % (
                    fi.key, sorted(declared)))
        if reg_name is not None:
            ov.name = reg_name
        elif decl['name'] is not None:
            ov.name = convert_function_name(decl['name'], convention)
        else:
            ov.name = convert_function_name(node.name, convention)
        ov.is_function = decl['is_function'] if function is None else function
        ov.is_method = decl['is_method'] if method is None else method
        ov.no_kwargs = decl['no_kwargs']
        return ov

    # -- register() bodies ------------------------------------------------
    def _build(self):
        repo = self.repo
        for short in self.STDLIB:
            mname = 'yaql.standard_library.' + short
            if mname not in repo.modules:
                raise AnalysisError('anchor vanished: module ' + mname)
            mod = repo.modules[mname]
            for q, fi in mod.functions.items():
                if fi.parent_func is None and fi.cls is None and \
                        q.startswith('register'):
                    ctx = 'legacy' if short == 'legacy' else (
                        'fallback' if q == 'register_fallbacks' else
                        'default')
                    # the body, and module-level helpers it hands the
                    # context to
                    todo, seen = [(fi, None)], set()
                    # register() is evaluated abstractly (tables, loops,
                    # aliases, helpers and flags all come out the same);
                    # the pattern reader is kept for what the evaluator does
                    # not model (re-registration of existing overloads ...)
                    mark = len(self.overloads)
                    if self._scan_register_abs(fi, ctx):
                        continue
                    del self.overloads[mark:]
                    self._scan_by_pattern(mod, fi, ctx, todo, seen)
                    continue
        self._build_finalizer()

    def _scan_by_pattern(self, mod, fi, ctx, todo, seen):
                    while todo:
                        f, cond = todo.pop()
                        if f.key in seen:
                            continue
                        seen.add(f.key)
                        self._scan_register(f, ctx, outer_condition=cond)
                        ctxnames = {p for p in f.params()
                                    if 'context' in p or p == 'ctx'}
                        for c in model.calls_in(f.node, shallow=True):
                            if isinstance(c.func, ast.Name) and any(
                                    isinstance(a, ast.Name) and
                                    a.id in ctxnames for a in c.args):
                                h = mod.functions.get(c.func.id)
                                if h is not None and h.parent_func is None \
                                        and not h.name.startswith(
                                            'register'):
                                    hc = self._condition(c, f.node)
                                    todo.append((h, ' and '.join(
                                        x for x in (cond, hc) if x) or
                                        None))

    def _build_finalizer(self):
        repo = self.repo
        # the finaliser pair registered by yaql._setup_context
        init = repo.module('yaql')
        sc = init.functions.get('_setup_context')
        if sc is not None:
            # ... or by module-level helpers it calls
            todo, seen = [sc], set()
            while todo:
                f = todo.pop()
                if f.key in seen:
                    continue
                seen.add(f.key)
                self._scan_register(f, 'finalizer')
                for c in model.calls_in(f.node, shallow=True):
                    if isinstance(c.func, ast.Name):
                        h = init.functions.get(c.func.id)
                        if h is not None and h.parent_func is None and \
                                h.name not in ('create_context',):
                            todo.append(h)

    def _scan_register_abs(self, fi, ctx):
        """register(context, flag...) evaluated abstractly for every
        valuation of its boolean flags, with context.register_function as an
        uninterpreted call: the sequence of (payload, name, kind flags)
        registered, whatever the loops, tables, aliases and helpers it is
        spelled with.  False if the evaluator gives up."""
        from sa import absint
        import itertools
        mod = fi.module
        ps = fi.params()
        if not ps:
            return False
        flags = ps[1:]
        if len(flags) > 4:
            return False
        by_node = {f.node: f for f in self.repo.all_functions()}
        seen_in = {}      # (func key, reg_name, function, method, excl)
        order = []
        vals_all = list(itertools.product((False, True), repeat=len(flags)))
        for vals in vals_all:
            regs = []

            def oracle(callee, args, kwargs):
                if callee == 'register-function':
                    regs.append((args, kwargs))
                    return (None,)
                return None
            cobj = absint.Obj('context', register_function=absint.Sym(
                'register-function'))
            it = absint.Interp(self.repo, mod, oracle)
            amap = {ps[0]: cobj}
            amap.update(dict(zip(flags, vals)))
            try:
                it.run(fi.node, amap)
            except (absint.Unsupported, absint._Raise):
                return False
            for args, kwargs in regs:
                if not args:
                    return False
                tgt = args[0]
                if isinstance(tgt, absint.Closure):
                    tfi = by_node.get(tgt.node)
                elif isinstance(tgt, model.FuncInfo):
                    tfi = tgt
                else:
                    tfi = None
                if tfi is None:
                    return False
                name = kwargs.get('name', args[1] if len(args) > 1
                                  else None)
                key = (tfi.key, name, kwargs.get('function'),
                       kwargs.get('method'),
                       bool(kwargs.get('exclusive', False)))
                if key not in seen_in:
                    seen_in[key] = (tfi, set())
                    order.append(key)
                seen_in[key][1].add(vals)
        for key in order:
            tfi, where = seen_in[key]
            cond = ''
            if len(where) != len(vals_all):
                parts = []
                for i, fl in enumerate(flags):
                    on = {v[i] for v in where}
                    if on == {True}:
                        parts.append(fl)
                    elif on == {False}:
                        parts.append('not %s' % fl)
                cond = ' and '.join(parts) or 'sometimes'
            ov = self.make_overload(tfi, key[1], key[2], key[3])
            ov.exclusive = key[4]
            ov.condition = cond
            ov.ctx = ctx
            ov.reg_site = '%s/(evaluated)' % fi.key
            self.overloads.append(ov)
        return bool(order)

    def _scan_register(self, fi, ctx, outer_condition=None):
        mod = fi.module
        # local tuple/list bindings for `for func in functions:` loops
        seqs = {}
        for st in ast.walk(fi.node):
            if isinstance(st, ast.Assign) and len(st.targets) == 1 and \
                    isinstance(st.targets[0], ast.Name) and isinstance(
                        st.value, (ast.Tuple, ast.List)):
                seqs[st.targets[0].id] = st.value.elts
        for call in model.calls_in(fi.node):
            if not (isinstance(call.func, ast.Attribute) and
                    call.func.attr == 'register_function'):
                continue
            if not call.args:
                continue
            cond = self._condition(call, fi.node)
            if outer_condition:
                cond = ' and '.join(x for x in (outer_condition, cond) if x)
            kw = {k.arg: k.value for k in call.keywords}
            reg_name = _const(kw.get('name'), None) if 'name' in kw else (
                _const(call.args[1], None) if len(call.args) > 1 else None)
            function = _const(kw.get('function'), None)
            method = _const(kw.get('method'), None)
            exclusive = bool(_const(kw.get('exclusive'), False))
            targets = self._payloads(fi, call.args[0], seqs)
            if targets is None:
                # `for spec in utils.to_extension_method(t, context)`: a
                # re-registration of existing overloads, handled by C12
                self.problems.append(
                    'INFO %s: dynamic registration %s' % (
                        fi.key, model.norm(call)))
                continue
            for tfi in targets:
                ov = self.make_overload(tfi, reg_name, function, method)
                ov.exclusive = exclusive
                ov.condition = cond
                ov.ctx = ctx
                ov.reg_site = '%s/%s' % (fi.key, model.norm(call))
                self.overloads.append(ov)

    def _condition(self, node, top):
        """The conditions under which `node` runs inside `top` (if/else
        nesting and early returns alike), as text."""
        from sa import norm
        conds = []
        for e, pol in norm.guards(node, top, substitute=False):
            t = model.norm(e)
            conds.append(t if pol else 'not (%s)' % t)
        return ' and '.join(reversed(conds))

    def _seq_elements(self, regfi, it, seqs, at, depth=0):
        """The element expressions a registration loop ranges over, or
        None if they cannot be listed."""
        mod = regfi.module
        if depth > 6:
            return None
        if isinstance(it, (ast.Tuple, ast.List)):
            return list(it.elts)
        if isinstance(it, ast.BinOp) and isinstance(it.op, ast.Add):
            a = self._seq_elements(regfi, it.left, seqs, at, depth + 1)
            b = self._seq_elements(regfi, it.right, seqs, at, depth + 1)
            return None if a is None or b is None else a + b
        if isinstance(it, ast.Call) and isinstance(it.func, ast.Name) and \
                it.func.id in ('tuple', 'list', 'reversed', 'sorted') and \
                len(it.args) == 1 and it.func.id in ('tuple', 'list'):
            return self._seq_elements(regfi, it.args[0], seqs, at, depth + 1)
        if isinstance(it, ast.Call) and model.norm(it.func) in (
                'itertools.chain',):
            out = []
            for a in it.args:
                e = self._seq_elements(regfi, a, seqs, at, depth + 1)
                if e is None:
                    return None
                out += e
            return out
        if isinstance(it, ast.Call) and isinstance(
                it.func, ast.Name) and not it.args and \
                it.func.id in mod.functions:
            h = mod.functions[it.func.id]
            rets = [r.value for r in model.walk_shallow(h.node)
                    if isinstance(r, ast.Return)]
            if len(rets) == 1:
                return self._seq_elements(h, rets[0], {}, rets[0],
                                          depth + 1)
            return None
        if isinstance(it, ast.Name):
            if it.id in seqs:
                return list(seqs[it.id])
            # the variable of an enclosing loop: one level of flattening
            outer = model.enclosing(at, ast.For)
            while outer is not None:
                if isinstance(outer.target, ast.Name) and \
                        outer.target.id == it.id:
                    groups = self._seq_elements(regfi, outer.iter, seqs,
                                                outer, depth + 1)
                    if groups is None:
                        return None
                    out = []
                    for g in groups:
                        e = self._seq_elements(regfi, g, seqs, outer,
                                               depth + 1)
                        if e is None:
                            return None
                        out += e
                    return out
                outer = model.enclosing(outer, ast.For)
            dd = self.repo.resolve(mod, it)
            tg = self.repo.lookup(dd) if dd else None
            if isinstance(tg, tuple) and tg[0] == 'const':
                sub = tg[2]
                # a module-level tuple of tuples is flattened by the caller
                return self._seq_elements(regfi, sub, seqs, at, depth + 1)
        return None

    def _payloads(self, regfi, arg, seqs):
        mod = regfi.module
        local = model.local_names_of(regfi.node)
        if isinstance(arg, ast.Name):
            if arg.id in mod.functions and arg.id not in local:
                return [mod.functions[arg.id]]
            # nested def inside the registering function
            nested = regfi.qualname + '.' + arg.id
            if nested in mod.functions:
                return [mod.functions[nested]]
            # loop variable over a (possibly nested / named) sequence of
            # module functions
            loop = model.enclosing(arg, ast.For)
            while loop is not None:
                if isinstance(loop.target, ast.Name) and \
                        loop.target.id == arg.id:
                    elts = self._seq_elements(regfi, loop.iter, seqs, loop)
                    if elts is None:
                        return None
                    out = []
                    for e in elts:
                        if isinstance(e, ast.Name) and e.id in mod.functions:
                            out.append(mod.functions[e.id])
                        else:
                            raise AnalysisError(
                                'registration loop element %s not a module '
                                'function in %s' % (model.norm(e), regfi.key))
                    return out
                loop = model.enclosing(loop, ast.For)
            if arg.id in regfi.params():
                return None     # host-supplied (finalizer)
            raise AnalysisError('cannot resolve registered payload %s in %s'
                                % (arg.id, regfi.key))
        if isinstance(arg, ast.Call) and isinstance(arg.func, ast.Name) and \
                arg.func.id in mod.functions:
            # factory: def group_by_function(flag): ... def group_by ...;
            # return group_by
            fac = mod.functions[arg.func.id]
            for st in fac.node.body:
                if isinstance(st, ast.Return) and isinstance(
                        st.value, ast.Name):
                    nested = fac.qualname + '.' + st.value.id
                    if nested in mod.functions:
                        return [mod.functions[nested]]
            raise AnalysisError('factory %s does not return a nested def' %
                                fac.key)
        if isinstance(arg, ast.Lambda):
            return None
        raise AnalysisError('unrecognised registration argument %s in %s' % (
            model.norm(arg), regfi.key))

    # -- views --------------------------------------------------------------
    def in_context(self, *ctxs):
        return [o for o in self.overloads if o.ctx in ctxs]

    def default_overloads(self):
        return self.in_context('default', 'fallback')

    def payloads(self, *ctxs):
        seen = {}
        for o in (self.in_context(*ctxs) if ctxs else self.overloads):
            seen.setdefault(o.func.key, o.func)
        return list(seen.values())

    def by_name(self, name, *ctxs):
        return [o for o in (self.in_context(*ctxs) if ctxs else
                            self.overloads) if o.name == name]

    def overloads_of(self, fi):
        return [o for o in self.overloads if o.func is fi]
