"""Shape-insensitive helpers shared by the rules: the same fact is recognised
whether the code spells it as if/else, as an early exit, as a conditional
expression, through a boolean local, or through a short-circuit operator.

  guards(node, fn)      -> [(test expression, polarity)] that hold whenever
                           control reaches `node` inside function `fn`
  subst_locals(fn, e)   -> e with single-assignment locals of fn substituted
  terminates(stmts)     -> the block never falls through
  literal_in(gs, pred)  -> polarity of the first guard whose atom satisfies
                           pred (looks through not / and / or soundly)
"""
import ast
import copy

from sa import model

FUNC = (ast.FunctionDef, ast.AsyncFunctionDef, ast.Lambda)


def terminates(stmts):
    """Every path through the statement list leaves it (return / raise /
    break / continue)."""
    if not stmts:
        return False
    last = stmts[-1]
    if isinstance(last, (ast.Raise, ast.Return, ast.Continue, ast.Break)):
        return True
    if isinstance(last, ast.If):
        return terminates(last.body) and terminates(last.orelse)
    if isinstance(last, ast.Try):
        return terminates(last.finalbody) or (
            terminates(last.body + last.orelse) and all(
                terminates(h.body) for h in last.handlers))
    if isinstance(last, ast.With):
        return terminates(last.body)
    return False


def single_assignments(fn_node):
    """name -> value for locals assigned exactly once at any depth of the
    function's own body (not in nested functions), never augmented, not
    loop targets, not parameters."""
    counts = {}
    vals = {}
    a = getattr(fn_node, 'args', None)
    params = set()
    if a is not None:
        params = {x.arg for x in a.posonlyargs + a.args + a.kwonlyargs}
        if a.vararg:
            params.add(a.vararg.arg)
        if a.kwarg:
            params.add(a.kwarg.arg)
    for s in model.walk_shallow(fn_node):
        if isinstance(s, ast.Assign):
            for t in s.targets:
                if isinstance(t, ast.Name):
                    counts[t.id] = counts.get(t.id, 0) + 1
                    vals[t.id] = s.value
                else:
                    for x in ast.walk(t):
                        if isinstance(x, ast.Name) and isinstance(
                                x.ctx, ast.Store):
                            counts[x.id] = counts.get(x.id, 0) + 2
        elif isinstance(s, (ast.AugAssign, ast.AnnAssign)):
            t = s.target
            if isinstance(t, ast.Name):
                counts[t.id] = counts.get(t.id, 0) + 2
        elif isinstance(s, (ast.For, ast.comprehension)):
            for x in ast.walk(s.target):
                if isinstance(x, ast.Name):
                    counts[x.id] = counts.get(x.id, 0) + 2
        elif isinstance(s, ast.NamedExpr):
            counts[s.target.id] = counts.get(s.target.id, 0) + 2
        elif isinstance(s, (ast.With,)):
            for it in s.items:
                if it.optional_vars is not None:
                    for x in ast.walk(it.optional_vars):
                        if isinstance(x, ast.Name):
                            counts[x.id] = counts.get(x.id, 0) + 2
    return {k: v for k, v in vals.items()
            if counts.get(k) == 1 and k not in params}


def subst_locals(fn_node, expr, depth=4, only_pure=True):
    """`expr` with single-assignment locals replaced by their defining
    expression (repeated up to `depth` times).  With only_pure, a local is
    substituted only when its value has no call (so the substituted test
    still means the same at the use site)."""
    env = single_assignments(fn_node)

    def pure(v):
        return not any(isinstance(x, (ast.Call, ast.Yield, ast.YieldFrom,
                                      ast.Await)) for x in ast.walk(v))

    class Sub(ast.NodeTransformer):
        def __init__(self):
            self.changed = False

        def visit_Name(self, n):
            if isinstance(n.ctx, ast.Load) and n.id in env and (
                    not only_pure or pure(env[n.id])):
                self.changed = True
                return copy.deepcopy(env[n.id])
            return n
    out = copy.deepcopy(expr)
    for _ in range(depth):
        s = Sub()
        out = s.visit(out)
        if not s.changed:
            break
    return out


def _block_of(node):
    """(parent, list) holding statement `node`."""
    parent = getattr(node, '_parent', None)
    for field in ('body', 'orelse', 'finalbody'):
        block = getattr(parent, field, None)
        if isinstance(block, list) and any(x is node for x in block):
            return parent, block, field
    if isinstance(parent, ast.ExceptHandler):
        return parent, parent.body, 'body'
    return parent, None, None


def guards(node, fn_node, substitute=True):
    """Conditions that hold on every path on which control reaches `node`
    within `fn_node`: tests of enclosing if / while / conditional
    expressions / short-circuit operators (with the polarity of the branch
    `node` is in), and the negations of earlier sibling tests whose branch
    always leaves.  Each entry is (expression, polarity)."""
    out = []
    cur = node
    while cur is not None and cur is not fn_node:
        parent = getattr(cur, '_parent', None)
        if parent is None:
            break
        if isinstance(parent, ast.If) or isinstance(parent, ast.While):
            if cur is not parent.test and not _inside(parent.test, cur):
                in_body = any(x is cur for x in parent.body)
                in_else = any(x is cur for x in parent.orelse)
                if isinstance(parent, ast.While):
                    if in_body:
                        out.append((parent.test, True))
                elif in_body:
                    out.append((parent.test, True))
                elif in_else:
                    out.append((parent.test, False))
        elif isinstance(parent, ast.IfExp):
            if cur is parent.body:
                out.append((parent.test, True))
            elif cur is parent.orelse:
                out.append((parent.test, False))
        elif isinstance(parent, ast.BoolOp):
            idx = [i for i, v in enumerate(parent.values) if v is cur]
            if idx:
                pol = isinstance(parent.op, ast.And)
                for v in parent.values[:idx[0]]:
                    out.append((v, pol))
        elif isinstance(parent, ast.comprehension):
            if any(x is cur for x in parent.ifs):
                i = [k for k, x in enumerate(parent.ifs) if x is cur][0]
                for v in parent.ifs[:i]:
                    out.append((v, True))
        elif isinstance(parent, (ast.GeneratorExp, ast.ListComp,
                                 ast.SetComp, ast.DictComp)):
            if cur is getattr(parent, 'elt', None) or cur in (
                    getattr(parent, 'key', None),
                    getattr(parent, 'value', None)):
                for g in parent.generators:
                    for v in g.ifs:
                        out.append((v, True))
        elif isinstance(parent, ast.Assert):
            pass
        # earlier siblings that leave on one side
        if isinstance(cur, ast.stmt):
            p2, block, field = _block_of(cur)
            if block is not None:
                idx = [i for i, x in enumerate(block) if x is cur][0]
                for prev in block[:idx]:
                    if isinstance(prev, ast.If):
                        b, o = terminates(prev.body), terminates(prev.orelse)
                        if b and not o:
                            out.append((prev.test, False))
                        elif o and not b:
                            out.append((prev.test, True))
                    elif isinstance(prev, ast.Assert):
                        out.append((prev.test, True))
        if isinstance(parent, FUNC) and parent is not fn_node:
            # a nested function: conditions of the definition site do not
            # hold at call time
            out = list(out)
        cur = parent
    if substitute and isinstance(fn_node, FUNC):
        # (a loop or other fragment is not a scope: a name assigned once
        # inside it may be assigned elsewhere too)
        out = [(subst_locals(fn_node, e), p) for e, p in out]
    return out


def _inside(root, node):
    return any(x is node for x in ast.walk(root))


def atoms(expr, pol=True):
    """Flatten a guard into literals that are individually implied:
    (a and b, True) -> a, b true; (a or b, False) -> a, b false;
    (not a, p) -> (a, not p).  Disjunctions that hold and conjunctions that
    fail give no individual literal."""
    if isinstance(expr, ast.UnaryOp) and isinstance(expr.op, ast.Not):
        return atoms(expr.operand, not pol)
    if isinstance(expr, ast.BoolOp):
        if isinstance(expr.op, ast.And) and pol:
            return [a for v in expr.values for a in atoms(v, True)]
        if isinstance(expr.op, ast.Or) and not pol:
            return [a for v in expr.values for a in atoms(v, False)]
        return []
    if isinstance(expr, ast.Compare) and len(expr.ops) == 1:
        flip = {ast.IsNot: ast.Is, ast.NotEq: ast.Eq, ast.NotIn: ast.In}
        op = type(expr.ops[0])
        if op in flip:
            e2 = ast.Compare(left=expr.left, ops=[flip[op]()],
                             comparators=expr.comparators)
            return [(e2, not pol)]
    return [(expr, pol)]


def literals(node, fn_node):
    """All literals implied at `node`: [(atom expression, polarity)]."""
    out = []
    for e, p in guards(node, fn_node):
        out.extend(atoms(e, p))
    return out


def literal_polarity(node, fn_node, pred):
    """Polarity of the first implied literal whose atom satisfies `pred`
    (None if there is none)."""
    for e, p in literals(node, fn_node):
        try:
            if pred(e):
                return p
        except Exception:
            continue
    return None


def eval3(expr, oracle):
    """Three-valued truth of a boolean expression: `oracle(atom)` gives
    True / False / None for atoms (anything that is not not/and/or)."""
    if isinstance(expr, ast.UnaryOp) and isinstance(expr.op, ast.Not):
        v = eval3(expr.operand, oracle)
        return None if v is None else not v
    if isinstance(expr, ast.BoolOp):
        vals = [eval3(v, oracle) for v in expr.values]
        if isinstance(expr.op, ast.And):
            if any(v is False for v in vals):
                return False
            return True if all(v is True for v in vals) else None
        if any(v is True for v in vals):
            return True
        return False if all(v is False for v in vals) else None
    if isinstance(expr, ast.Constant):
        return bool(expr.value)
    return oracle(expr)


def reachable_under(node, fn_node, oracle):
    """False if some condition that must hold for control to reach `node`
    is definitely contradicted by the oracle's assignment of atoms; True
    otherwise (possibly reachable)."""
    for e, pol in guards(node, fn_node):
        v = eval3(e, oracle)
        if v is not None and v != pol:
            return False
    return True


def necessarily_reached_under(node, fn_node, oracle):
    """True if every condition on the way to `node` is *decided* in favour
    of reaching it by the oracle's assignment (no condition is left open):
    -> (bool, the first undecided / contrary condition)."""
    for e, pol in guards(node, fn_node):
        v = eval3(e, oracle)
        if v is None or v != pol:
            return False, (e, pol, v)
    return True, None


def inline_simple_calls(repo, mod, expr, depth=3, exclude=()):
    """`expr` with calls of module-level one-expression functions
    (`def f(a): return <e>`) replaced by <e> with the arguments substituted
    (positional arguments that are plain names / constants / attributes
    only)."""
    from sa import model as _m

    class Inl(ast.NodeTransformer):
        def visit_Call(self, n):
            self.generic_visit(n)
            if not isinstance(n.func, ast.Name) or n.keywords:
                return n
            h = mod.functions.get(n.func.id)
            if h is None or h.parent_func is not None or \
                    n.func.id in exclude:
                return n
            body = _m.strip_docstring(h.node.body)
            if len(body) != 1 or not isinstance(body[0], ast.Return) or \
                    body[0].value is None:
                return n
            ps = h.params()
            if len(ps) != len(n.args) or any(
                    isinstance(a, ast.Starred) for a in n.args):
                return n
            env = dict(zip(ps, n.args))

            class Sub(ast.NodeTransformer):
                def visit_Name(self, x):
                    if isinstance(x.ctx, ast.Load) and x.id in env:
                        return copy.deepcopy(env[x.id])
                    return x
            return Sub().visit(copy.deepcopy(body[0].value))
    out = copy.deepcopy(expr)
    for _ in range(depth):
        new = Inl().visit(out)
        if ast.dump(new) == ast.dump(out):
            break
        out = new
    return out


def as_expression(fn_node):
    """The value a function returns as ONE expression, when its body is
    straight-line single assignments and (nested) if / early-return
    statements that all end in returns: `if t: return a` + `return b`
    becomes `a if t else b`; `x if x else y` is folded to `x or y`.
    None if the body has another shape."""
    body = model.strip_docstring(fn_node.body)

    def block(stmts):
        if not stmts:
            return None
        st, rest = stmts[0], stmts[1:]
        if isinstance(st, ast.Return):
            return st.value if st.value is not None else ast.Constant(None)
        if isinstance(st, ast.Assign) and len(st.targets) == 1 and \
                isinstance(st.targets[0], ast.Name):
            return block(rest)          # substituted afterwards
        if isinstance(st, ast.If):
            a = block(st.body + ([] if terminates(st.body) else rest))
            b = block((st.orelse or []) + (
                [] if st.orelse and terminates(st.orelse) else rest))
            if a is None or b is None:
                return None
            return ast.IfExp(test=st.test, body=a, orelse=b)
        if isinstance(st, ast.Expr) and isinstance(st.value, ast.Constant):
            return block(rest)
        return None
    e = block(body)
    if e is None:
        return None
    e = subst_locals(fn_node, e, only_pure=False)

    class Fold(ast.NodeTransformer):
        def visit_IfExp(self, n):
            self.generic_visit(n)
            t, a, b = ast.dump(n.test), ast.dump(n.body), ast.dump(n.orelse)
            if t == a:
                return ast.BoolOp(op=ast.Or(), values=[n.body, n.orelse])
            if t == b:
                return ast.BoolOp(op=ast.And(), values=[n.orelse, n.body])
            return n
    e = Fold().visit(e)
    ast.fix_missing_locations(e)
    return e


def constant_table_values(repo, mod, it):
    """The rows of a module-level constant table `it` ranges over: a list
    of ast nodes (constants or tuples of constants), or None."""
    from sa import model as _m
    node = it
    for _ in range(4):
        if isinstance(node, (ast.Name, ast.Attribute)):
            d = repo.resolve(mod, node)
            tgt = repo.lookup(d) if d else None
            if isinstance(tgt, tuple) and tgt[0] == 'const':
                mod, node = tgt[1], tgt[2]
                continue
            return None
        break
    if not isinstance(node, (ast.Tuple, ast.List)):
        return None
    rows = []
    for r in node.elts:
        if isinstance(r, ast.Constant) or (isinstance(
                r, (ast.Tuple, ast.List)) and all(
                isinstance(x, ast.Constant) for x in r.elts)):
            rows.append(r)
        else:
            return None
    return rows


def unroll_constant_tables(repo, mod, expr):
    """sum(<elt> for a, b in TABLE) over a module-level table of constants
    -> elt[row1] + elt[row2] + ...; getattr(x, 'name') -> x.name."""
    import copy

    def bind(target, row):
        if isinstance(target, ast.Name):
            return {target.id: row}
        if isinstance(target, (ast.Tuple, ast.List)) and isinstance(
                row, (ast.Tuple, ast.List)) and len(target.elts) == len(
                row.elts) and all(isinstance(t, ast.Name)
                                  for t in target.elts):
            return {t.id: v for t, v in zip(target.elts, row.elts)}
        return None

    class Sub(ast.NodeTransformer):
        def __init__(self, env):
            self.env = env

        def visit_Name(self, n):
            if n.id in self.env and isinstance(n.ctx, ast.Load):
                return copy.deepcopy(self.env[n.id])
            return n

    class U(ast.NodeTransformer):
        def visit_Call(self, n):
            self.generic_visit(n)
            if isinstance(n.func, ast.Name) and n.func.id == 'sum' and \
                    len(n.args) == 1 and isinstance(
                        n.args[0], (ast.GeneratorExp, ast.ListComp)) and \
                    len(n.args[0].generators) == 1 and \
                    not n.args[0].generators[0].ifs:
                g = n.args[0].generators[0]
                rows = constant_table_values(repo, mod, g.iter)
                if rows:
                    terms = []
                    for r in rows:
                        env = bind(g.target, r)
                        if env is None:
                            return n
                        terms.append(U().visit(Sub(env).visit(
                            copy.deepcopy(n.args[0].elt))))
                    out = terms[0]
                    for t in terms[1:]:
                        out = ast.BinOp(left=out, op=ast.Add(), right=t)
                    return ast.fix_missing_locations(
                        ast.copy_location(out, n))
            if isinstance(n.func, ast.Name) and n.func.id == 'getattr' and \
                    len(n.args) == 2 and isinstance(
                        n.args[1], ast.Constant) and isinstance(
                        n.args[1].value, str) and \
                    n.args[1].value.isidentifier():
                return ast.copy_location(ast.Attribute(
                    value=n.args[0], attr=n.args[1].value,
                    ctx=ast.Load()), n)
            return n
    return U().visit(copy.deepcopy(expr))


def _wrap_in_decorator(repo, mod, dec, body, level):
    """`dec` is a module-level decorator of the form

        def dec(func):
            [@functools.wraps(func)]
            def wrapper(*args, **kwargs):
                <statements with exactly one `return func(*args, **kwargs)`>
            return wrapper

    Returns the wrapper's statements with that return replaced by `body`
    (None when the decorator has another form)."""
    import copy
    from sa import model as _m
    if not isinstance(dec, ast.Name):
        return None
    d = mod.functions.get(dec.id)
    if d is None or d.parent_func is not None or len(d.params()) != 1:
        return None
    fparam = d.params()[0]
    stmts = _m.strip_docstring(d.node.body)
    if len(stmts) != 2 or not isinstance(stmts[0], ast.FunctionDef) or \
            not (isinstance(stmts[1], ast.Return) and isinstance(
                stmts[1].value, ast.Name) and
                stmts[1].value.id == stmts[0].name):
        return None
    w = stmts[0]
    a = w.args
    if a.args or a.posonlyargs or a.kwonlyargs or a.vararg is None or \
            a.kwarg is None:
        return None
    va, kw = a.vararg.arg, a.kwarg.arg

    def is_forward(r):
        c = r.value
        return isinstance(c, ast.Call) and isinstance(c.func, ast.Name) \
            and c.func.id == fparam and len(c.args) == 1 and isinstance(
                c.args[0], ast.Starred) and isinstance(
                c.args[0].value, ast.Name) and c.args[0].value.id == va \
            and len(c.keywords) == 1 and c.keywords[0].arg is None and \
            isinstance(c.keywords[0].value, ast.Name) and \
            c.keywords[0].value.id == kw
    forwards = [r for r in _m.walk_shallow(w) if isinstance(r, ast.Return)
                and r.value is not None and is_forward(r)]
    uses = [n for st in w.body for n in ast.walk(st)
            if isinstance(n, ast.Name) and n.id in (fparam, va, kw)]
    if len(forwards) != 1 or len(uses) != 3:
        return None
    wbody = copy.deepcopy(_m.strip_docstring(w.body))
    locs = _m.local_names_of(w) - {va, kw}

    class L(ast.NodeTransformer):
        def visit_Name(self, n):
            if n.id in locs:
                return ast.copy_location(ast.Name(
                    id='_d%d_%s' % (level, n.id), ctx=n.ctx), n)
            return n

        def visit_ExceptHandler(self, n):
            self.generic_visit(n)
            if n.name in locs:
                n.name = '_d%d_%s' % (level, n.name)
            return n
    wbody = [L().visit(st) for st in wbody]

    def splice(stmts):
        out = []
        for st in stmts:
            if isinstance(st, ast.Return) and st.value is not None and \
                    is_forward(st):
                out.extend(body)
                continue
            for fld in ('body', 'orelse', 'finalbody'):
                sub = getattr(st, fld, None)
                if isinstance(sub, list) and sub and isinstance(
                        sub[0], ast.stmt) and not isinstance(
                        st, (ast.FunctionDef, ast.ClassDef)):
                    setattr(st, fld, splice(sub))
            for hd in getattr(st, 'handlers', []):
                hd.body = splice(hd.body)
            out.append(st)
        return out
    return splice(wbody)


def inline_tail_calls(repo, fi, depth=2):
    """A copy of fi whose `return self.helper(a, b)` / `return _helper(a,
    b)` statements are replaced by the helper's body (parameters replaced
    by the argument expressions, the helper's own locals renamed): what a
    rule anchored on one function sees when part of that function was
    moved into a helper it ends with.  Returns fi itself if nothing was
    inlined."""
    import copy
    from sa import model as _m

    def helper_of(call):
        f = call.func
        if isinstance(f, ast.Attribute) and isinstance(
                f.value, ast.Name) and fi.cls is not None and \
                fi.params() and f.value.id == fi.params()[0]:
            h = repo.find_method(fi.cls, f.attr)
            return h, True
        if isinstance(f, ast.Name):
            h = fi.module.functions.get(f.id)
            if h is not None and h.parent_func is None and h.cls is None:
                return h, False
        return None, False

    def expand(ret, level):
        call = ret.value
        if not isinstance(call, ast.Call) or level > depth:
            return None
        h, is_method = helper_of(call)
        if h is None or h.node is fi.node or call.keywords or any(
                isinstance(a, ast.Starred) for a in call.args):
            return None
        a = h.node.args
        if a.vararg or a.kwarg or a.kwonlyargs:
            return None
        ps = [x.arg for x in a.posonlyargs + a.args]
        actual = ([call.func.value] if is_method else []) + list(call.args)
        defaults = list(a.defaults)
        missing = len(ps) - len(actual)
        if missing < 0 or missing > len(defaults):
            return None
        if missing:
            actual += defaults[len(defaults) - missing:]
        if not all(isinstance(x, (ast.Name, ast.Constant, ast.Attribute))
                   for x in actual):
            return None
        if any(isinstance(n, (ast.Yield, ast.YieldFrom))
               for n in _m.walk_shallow(h.node)):
            return None
        env = dict(zip(ps, actual))
        # a parameter the helper re-binds is a local initialised with the
        # argument
        rebound = {n.id for n in _m.walk_shallow(h.node)
                   if isinstance(n, ast.Name) and n.id in env and
                   isinstance(n.ctx, (ast.Store, ast.Del))}
        prologue = []
        for q in ps:
            if q in rebound:
                prologue.append(ast.Assign(
                    targets=[ast.Name(id='_h%d_%s' % (level, q),
                                      ctx=ast.Store())],
                    value=copy.deepcopy(env.pop(q)), lineno=ret.lineno,
                    col_offset=ret.col_offset))
        locs = (_m.local_names_of(h.node) - set(ps)) | rebound

        class R(ast.NodeTransformer):
            def visit_Name(self, n):
                if n.id in env and isinstance(n.ctx, ast.Load):
                    return copy.deepcopy(env[n.id])
                if n.id in locs:
                    return ast.copy_location(ast.Name(
                        id='_h%d_%s' % (level, n.id), ctx=n.ctx), n)
                return n
        body = prologue + [R().visit(copy.deepcopy(st))
                           for st in _m.strip_docstring(h.node.body)]
        # decorators that wrap the helper in `def wrapper(*a, **k): ...
        # return func(*a, **k) ...`: the wrapper's statements surround the
        # helper's body
        for d in reversed(h.node.decorator_list):
            if _m.norm(d) in ('staticmethod', 'classmethod'):
                return None
            body = _wrap_in_decorator(repo, h.module, d, body, level)
            if body is None:
                return None
        out = []
        for st in body:
            out.extend(rewrite([st], level + 1))
        return out

    def rewrite(stmts, level):
        out = []
        for st in stmts:
            if isinstance(st, ast.Return) and st.value is not None:
                e = expand(st, level)
                if e is not None:
                    changed[0] = True
                    out.extend(e)
                    continue
            for fld in ('body', 'orelse', 'finalbody'):
                sub = getattr(st, fld, None)
                if isinstance(sub, list) and sub and isinstance(
                        sub[0], ast.stmt) and not isinstance(
                        st, (ast.FunctionDef, ast.ClassDef)):
                    setattr(st, fld, rewrite(sub, level))
            out.append(st)
        return out

    changed = [False]
    node = copy.deepcopy(fi.node)
    node.body = rewrite(node.body, 1)
    if not changed[0]:
        return fi
    ast.fix_missing_locations(node)
    _m._attach_parents(node)
    clone = _m.FuncInfo(fi.module, fi.qualname, node, fi.cls,
                        fi.parent_func)
    clone.is_method = fi.is_method
    return clone
