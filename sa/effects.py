"""E4 (part) -- store / mutation sites of a function and the root they act on.

A *write site* is an attribute store, subscript store/delete, augmented
assignment to an attribute/subscript, a call of a mutating method, setattr /
delattr, or a `global`/`nonlocal` rebinding.  For each site the *root* of the
target expression is classified.
"""
import ast

from sa import model

MUTATORS = {
    'append', 'extend', 'insert', 'pop', 'remove', 'clear', 'sort',
    'reverse', 'update', 'setdefault', 'add', 'discard', 'popitem',
    'popleft', 'appendleft', 'extendleft', 'rotate',
    'intersection_update', 'difference_update',
    'symmetric_difference_update', '__setitem__', '__delitem__',
    '__setattr__', '__delattr__', 'move_to_end', 'subtract',
}


class Write:
    __slots__ = ('node', 'target', 'kind', 'root', 'chain', 'value', 'key',
                 'method')

    def __init__(self, node, target, kind, value=None, key=None,
                 method=None):
        self.node = node        # the statement / call
        self.target = target    # expression written to (container/object)
        self.kind = kind        # attr subscript del-subscript aug mutcall
        #                         setattr global nonlocal del-attr
        self.value = value      # stored value expression (if any)
        self.key = key          # subscript key expression (if any)
        self.method = method
        self.root, self.chain = root_of(target)

    def __repr__(self):
        return '<Write %s %s>' % (self.kind, model.norm(self.node)[:60])


def root_of(expr):
    """(root Name id or None, attribute/subscript chain) of a target."""
    chain = []
    e = expr
    while True:
        if isinstance(e, ast.Attribute):
            chain.append('.' + e.attr)
            e = e.value
        elif isinstance(e, ast.Subscript):
            chain.append('[]')
            e = e.value
        elif isinstance(e, ast.Call) and isinstance(e.func, ast.Attribute) \
                and e.func.attr in ('get', 'setdefault', '__getitem__'):
            chain.append('.%s()' % e.func.attr)
            e = e.func.value
        else:
            break
    chain.reverse()
    if isinstance(e, ast.Name):
        return e.id, chain
    return None, chain


def writes_in(func_node, shallow=True):
    """All write sites in the body of func_node (not nested defs when
    shallow)."""
    out = []
    body = func_node.body if not isinstance(func_node, ast.Lambda) else [
        func_node.body]
    it = []
    for st in body:
        it.extend(model.walk_shallow(st) if shallow else ast.walk(st))
    declared_global = set()
    declared_nonlocal = set()
    for n in it:
        if isinstance(n, ast.Global):
            declared_global.update(n.names)
        elif isinstance(n, ast.Nonlocal):
            declared_nonlocal.update(n.names)
    for n in it:
        if isinstance(n, (ast.Assign, ast.AnnAssign, ast.AugAssign)):
            targets = n.targets if isinstance(n, ast.Assign) else [n.target]
            value = n.value
            flat = []
            for t in targets:
                flat.extend(_flatten_target(t))
            for t in flat:
                if isinstance(t, ast.Attribute):
                    out.append(Write(n, t.value, 'aug-attr' if isinstance(
                        n, ast.AugAssign) else 'attr', value, None, t.attr))
                elif isinstance(t, ast.Subscript):
                    out.append(Write(n, t.value, 'aug-subscript' if
                                     isinstance(n, ast.AugAssign) else
                                     'subscript', value, t.slice))
                elif isinstance(t, ast.Name):
                    if t.id in declared_global:
                        out.append(Write(n, t, 'global', value))
                    elif t.id in declared_nonlocal:
                        out.append(Write(n, t, 'nonlocal', value))
                    elif isinstance(n, ast.AugAssign):
                        out.append(Write(n, t, 'aug-name', value))
        elif isinstance(n, ast.Delete):
            for t in n.targets:
                if isinstance(t, ast.Subscript):
                    out.append(Write(n, t.value, 'del-subscript', None,
                                     t.slice))
                elif isinstance(t, ast.Attribute):
                    out.append(Write(n, t.value, 'del-attr', None, None,
                                     t.attr))
        elif isinstance(n, (ast.For, ast.AsyncFor)):
            for t in _flatten_target(n.target):
                if isinstance(t, ast.Attribute):
                    out.append(Write(n, t.value, 'attr', None, None, t.attr))
                elif isinstance(t, ast.Subscript):
                    out.append(Write(n, t.value, 'subscript', None, t.slice))
        elif isinstance(n, ast.Call):
            f = n.func
            if isinstance(f, ast.Attribute) and f.attr in MUTATORS:
                out.append(Write(n, f.value, 'mutcall', None, None, f.attr))
            elif isinstance(f, ast.Name) and f.id in ('setattr', 'delattr') \
                    and n.args:
                out.append(Write(n, n.args[0], 'setattr',
                                 n.args[2] if len(n.args) > 2 else None,
                                 n.args[1] if len(n.args) > 1 else None))
    return out


def _flatten_target(t):
    if isinstance(t, (ast.Tuple, ast.List)):
        out = []
        for e in t.elts:
            out.extend(_flatten_target(e))
        return out
    if isinstance(t, ast.Starred):
        return _flatten_target(t.value)
    return [t]
