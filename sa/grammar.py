"""E5 -- generated grammar / LALR automaton (view V2).

Runs the repository's own operator-table -> grammar generator and ply's table
construction, then exposes the tables for *queries*.  Nothing here calls
parse(), token() or input(): not one character of expression text exists in
the process.
"""
import os
import sys
import warnings

from sa import model
from sa.model import AnalysisError

_loaded = {}


def load_repo_package():
    """Import /repo's yaql (import-time code only)."""
    if 'mods' in _loaded:
        return _loaded['mods']
    warnings.filterwarnings('ignore')
    root = os.path.abspath(model.REPO)
    if sys.path[0] != root:
        sys.path.insert(0, root)
    for k in list(sys.modules):
        if k == 'yaql' or k.startswith('yaql.'):
            del sys.modules[k]
    try:
        import yaql
        import yaql.legacy
        from yaql.language import factory, lexer, parser
        from ply import yacc, lex
    except Exception as e:
        raise AnalysisError('cannot import the repository package for the '
                            'generated views: %r' % (e,))
    if not os.path.abspath(yaql.__file__).startswith(root):
        raise AnalysisError('yaql imported from %s, not from %s' % (
            yaql.__file__, root))
    _loaded['mods'] = dict(yaql=yaql, legacy=yaql.legacy, factory=factory,
                           lexer=lexer, parser=parser, yacc=yacc, lex=lex)
    return _loaded['mods']


class Built:
    pass


def build(fac):
    """factory -> (operator table, grammar, LALR table, lexer object)."""
    m = load_repo_package()
    yacc = m['yacc']
    lex = m['lex']
    import re
    b = Built()
    b.factory = fac
    names = fac._name_generator()
    b.ops = fac._build_operator_table(names)
    b.lexer_rules = fac._create_lexer(b.ops)
    b.parser_module = fac._create_parser(b.lexer_rules, b.ops)
    pdict = {k: getattr(b.parser_module, k) for k in dir(b.parser_module)}
    pinfo = yacc.ParserReflect(pdict, log=yacc.NullLogger())
    pinfo.get_all()
    if pinfo.validate_all():
        raise AnalysisError('ply rejects the generated grammar spec')
    g = yacc.Grammar(pinfo.tokens)
    for term, assoc, level in pinfo.preclist:
        g.set_precedence(term, assoc, level)
    for funcname, gram in pinfo.grammar:
        file, line, prodname, syms = gram
        g.add_production(prodname, syms, funcname, file, line)
    g.set_start(pinfo.start)
    b.undefined = g.undefined_symbols()
    b.unused_terminals = g.unused_terminals()
    g.compute_first()
    g.compute_follow()
    g.build_lritems()

    class Table(yacc.LRGeneratedTable):
        def lr0_items(self):
            if not hasattr(self, '_C'):
                self._C = super().lr0_items()
            return self._C
    b.grammar = g
    b.table = Table(g, 'LALR', log=yacc.NullLogger())
    b.states = b.table.lr0_items()
    b.pinfo = pinfo
    # the lexer's master regular expressions (built, never fed)
    b.lexobj = lex.lex(object=b.lexer_rules, reflags=re.UNICODE | re.VERBOSE,
                       errorlog=lex.NullLogger())
    return b


def lexer_rule_order(b):
    """Token names in the order the master regex tries them."""
    order = []
    for rex, names in b.lexobj.lexstatere['INITIAL']:
        for entry in names:
            if entry is None:
                continue
            func, tok = entry
            order.append((tok, func))
    return order


def effective_token_regex(method_name):
    """The regular expression ply will use for token rule Lexer.<name>:
    the `regex` attribute set by @lex.TOKEN if present, else the docstring.
    Read by reflection (import of the repository's lexer module only)."""
    m = load_repo_package()
    cls = getattr(m['lexer'], 'Lexer', None)
    if cls is None:
        raise AnalysisError('anchor vanished: lexer.Lexer')
    f = cls.__dict__.get(method_name)
    if f is None:
        raise AnalysisError('anchor vanished: Lexer.%s' % method_name)
    f = getattr(f, '__func__', f)
    rx = getattr(f, 'regex', None)
    if rx is None:
        rx = getattr(f, '__doc__', None)
    if isinstance(f, str):
        rx = f
    if not rx:
        raise AnalysisError('token rule Lexer.%s has no regular expression'
                            % method_name)
    return rx


def token_rule_names():
    m = load_repo_package()
    cls = m['lexer'].Lexer
    out = []
    for k, v in cls.__dict__.items():
        if k.startswith('t_') and k not in ('t_ignore', 't_error') and (
                callable(getattr(v, '__func__', v)) or isinstance(v, str)):
            out.append(k)     # rules given as plain strings are rules too
    return out


def abstract_operator_table(repo):
    """The operator table of a default YaqlFactory, computed by the abstract
    evaluator from factory.py's source (constructor + _build_operator_table):
    {symbol: record}.  Records are what the code builds -- plain tuples or
    objects with named fields.  None when the construction is outside the
    evaluator's fragment."""
    from sa import absint
    mod = repo.module('yaql.language.factory')
    ci = mod.classes.get('YaqlFactory')
    if ci is None:
        return None
    m = repo.find_method(ci, '_build_operator_table')
    if m is None or len(m.params()) != 2:
        return None
    it = absint.Interp(repo, mod)
    try:
        fac = it.invoke(('global', ci.dotted), [], {})
        names = iter(['%d' % i for i in range(7, 400)])
        out = it.invoke(('bound', m, fac), [names], {})
    except (absint.Unsupported, absint._Raise, RecursionError):
        return None
    if not isinstance(out, absint.Obj):
        return None
    return out


def record_items(rec):
    """The fields of an operator record in order, whatever its type."""
    from sa import absint
    if isinstance(rec, (tuple, list)):
        return list(rec)
    if isinstance(rec, absint.Obj) and '__items__' in rec.attrs:
        return list(rec.attrs['__items__'])
    return None
