"""E3 -- statement-level control-flow graphs, dominators, path queries."""
import ast

from sa import model


class Node:
    __slots__ = ('id', 'kind', 'ast', 'succ', 'pred', 'loop_depth', 'stmt')

    def __init__(self, nid, kind, node=None, stmt=None):
        self.id = nid
        self.kind = kind      # entry exit raise stmt test for with handler
        self.ast = node       # the statement, or the test expression
        self.stmt = stmt if stmt is not None else node  # owning statement
        self.succ = []        # (Node, label)
        self.pred = []
        self.loop_depth = 0

    def __repr__(self):
        t = ''
        if self.ast is not None:
            t = model.norm(self.ast).split('\n')[0][:50]
        return '<N%d %s %s>' % (self.id, self.kind, t)

    @property
    def lineno(self):
        return getattr(self.ast, 'lineno', 0)


class CFG:
    def __init__(self, func_node, never_returns=None):
        self.func = func_node
        self.nodes = []
        self.never_returns = never_returns or (lambda call: False)
        self.entry = self._new('entry')
        self.exit = self._new('exit')
        self.raise_exit = self._new('raise')
        self._by_stmt = {}
        body = func_node.body if not isinstance(func_node, ast.Lambda) else [
            ast.Return(value=func_node.body)]
        ctx = {'loop': None, 'handlers': [], 'depth': 0, 'finally': []}
        ends = self._block(body, [(self.entry, None)], ctx)
        for n, lab in ends:
            self._edge(n, self.exit, lab)
        self._dom = None
        self._pdom = None

    # -- construction -----------------------------------------------------
    def _new(self, kind, node=None, stmt=None):
        n = Node(len(self.nodes), kind, node, stmt)
        self.nodes.append(n)
        return n

    def _edge(self, a, b, label=None):
        a.succ.append((b, label))
        b.pred.append((a, label))

    def _connect(self, preds, node):
        for p, lab in preds:
            self._edge(p, node, lab)

    def _block(self, stmts, preds, ctx):
        for st in stmts:
            if not preds:
                # unreachable code: still build it so that sites are indexed
                pass
            preds = self._stmt(st, preds, ctx)
        return preds

    def _exc_edges(self, node, ctx):
        for h in ctx['handlers']:
            self._edge(node, h, 'exc')

    def _terminates(self, st):
        """A bare expression statement calling a function that never
        returns (raise on all paths)."""
        if isinstance(st, ast.Expr) and isinstance(st.value, ast.Call):
            return self.never_returns(st.value)
        return False

    def _stmt(self, st, preds, ctx):
        d = ctx['depth']
        if isinstance(st, ast.If):
            t = self._new('test', st.test, st)
            t.loop_depth = d
            self._by_stmt[st] = t
            self._connect(preds, t)
            self._exc_edges(t, ctx)
            a = self._block(st.body, [(t, 'true')], ctx)
            b = self._block(st.orelse, [(t, 'false')], ctx) \
                if st.orelse else [(t, 'false')]
            return a + b
        if isinstance(st, (ast.For, ast.AsyncFor)):
            h = self._new('for', st, st)
            h.loop_depth = d
            self._by_stmt[st] = h
            self._connect(preds, h)
            self._exc_edges(h, ctx)
            brk = []
            c2 = dict(ctx, loop=(h, brk), depth=d + 1)
            body_end = self._block(st.body, [(h, 'iter')], c2)
            for n, lab in body_end:
                self._edge(n, h, 'back' if lab is None else lab)
            out = self._block(st.orelse, [(h, 'done')], ctx) \
                if st.orelse else [(h, 'done')]
            return out + brk
        if isinstance(st, ast.While):
            t = self._new('test', st.test, st)
            t.loop_depth = d
            self._by_stmt[st] = t
            self._connect(preds, t)
            self._exc_edges(t, ctx)
            brk = []
            c2 = dict(ctx, loop=(t, brk), depth=d + 1)
            body_end = self._block(st.body, [(t, 'true')], c2)
            for n, lab in body_end:
                self._edge(n, t, 'back' if lab is None else lab)
            const_true = isinstance(st.test, ast.Constant) and bool(
                st.test.value)
            out = [] if const_true else [(t, 'false')]
            if st.orelse and not const_true:
                out = self._block(st.orelse, out, ctx)
            return out + brk
        if isinstance(st, ast.Try):
            hnodes = []
            for h in st.handlers:
                hn = self._new('handler', h, h)
                hn.loop_depth = d
                self._by_stmt[h] = hn
                hnodes.append(hn)
            c2 = dict(ctx, handlers=ctx['handlers'] + hnodes)
            # the try body may fail before its first statement completes
            for p, lab in preds:
                for hn in hnodes:
                    self._edge(p, hn, 'exc')
            body_end = self._block(st.body, preds, c2)
            if st.orelse:
                body_end = self._block(st.orelse, body_end, ctx)
            outs = list(body_end)
            for h, hn in zip(st.handlers, hnodes):
                outs += self._block(h.body, [(hn, None)], ctx)
            if st.finalbody:
                outs = self._block(st.finalbody, outs, ctx)
            return outs
        if isinstance(st, (ast.With, ast.AsyncWith)):
            w = self._new('with', st, st)
            w.loop_depth = d
            self._by_stmt[st] = w
            self._connect(preds, w)
            self._exc_edges(w, ctx)
            return self._block(st.body, [(w, None)], ctx)
        if isinstance(st, (ast.FunctionDef, ast.AsyncFunctionDef,
                           ast.ClassDef)):
            n = self._new('def', st, st)
            n.loop_depth = d
            self._by_stmt[st] = n
            self._connect(preds, n)
            return [(n, None)]
        n = self._new('stmt', st, st)
        n.loop_depth = d
        self._by_stmt[st] = n
        self._connect(preds, n)
        if isinstance(st, ast.Return):
            self._exc_edges(n, ctx)
            self._edge(n, self.exit, 'return')
            return []
        if isinstance(st, ast.Raise):
            if ctx['handlers']:
                self._exc_edges(n, ctx)
            # an explicit raise may always propagate (handler may not match)
            self._edge(n, self.raise_exit, 'raise')
            return []
        if isinstance(st, ast.Break):
            if ctx['loop'] is not None:
                ctx['loop'][1].append((n, 'break'))
            return []
        if isinstance(st, ast.Continue):
            if ctx['loop'] is not None:
                self._edge(n, ctx['loop'][0], 'continue')
            return []
        self._exc_edges(n, ctx)
        if self._terminates(st):
            self._edge(n, self.raise_exit, 'raise')
            return []
        return [(n, None)]

    # -- lookup -----------------------------------------------------------
    def node_of(self, astnode):
        """CFG node whose statement/test contains `astnode`."""
        n = astnode
        while n is not None:
            if n in self._by_stmt:
                return self._by_stmt[n]
            n = getattr(n, '_parent', None)
            if n is self.func:
                break
        return None

    # -- dominators ---------------------------------------------------------
    def _reachable(self):
        seen = {self.entry.id}
        stack = [self.entry]
        while stack:
            n = stack.pop()
            for s, _ in n.succ:
                if s.id not in seen:
                    seen.add(s.id)
                    stack.append(s)
        return seen

    def dominators(self):
        if self._dom is not None:
            return self._dom
        reach = self._reachable()
        ids = [n.id for n in self.nodes if n.id in reach]
        full = set(ids)
        dom = {i: set(full) for i in ids}
        dom[self.entry.id] = {self.entry.id}
        changed = True
        while changed:
            changed = False
            for n in self.nodes:
                if n.id not in reach or n is self.entry:
                    continue
                ps = [p.id for p, _ in n.pred if p.id in reach]
                new = set(full)
                for p in ps:
                    new &= dom[p]
                new = new | {n.id} if ps else {n.id}
                if new != dom[n.id]:
                    dom[n.id] = new
                    changed = True
        self._dom = dom
        return dom

    def dominates(self, a, b):
        """Every path entry -> b passes through a."""
        dom = self.dominators()
        if b.id not in dom:
            return True   # b unreachable
        return a.id in dom[b.id]

    def reaches_exit_without(self, start, blockers, via_raise=False):
        """Is there a path start -> normal exit avoiding `blockers`?"""
        block = {b.id for b in blockers}
        if start.id in block:
            return False
        seen = {start.id}
        stack = [start]
        while stack:
            n = stack.pop()
            if n is self.exit:
                return True
            for s, _ in n.succ:
                if s.id in block or s.id in seen:
                    continue
                if s is self.raise_exit and not via_raise:
                    continue
                seen.add(s.id)
                stack.append(s)
        return False

    def can_return_normally(self):
        return self.reaches_exit_without(self.entry, [])

    def reachable_from(self, start, labels_ok=None, first_labels=None):
        """Nodes reachable from `start` (optionally only via the given
        labels on the first hop)."""
        seen = set()
        stack = []
        for s, lab in start.succ:
            if first_labels is None or lab in first_labels:
                stack.append(s)
        while stack:
            n = stack.pop()
            if n.id in seen:
                continue
            seen.add(n.id)
            for s, lab in n.succ:
                stack.append(s)
        return seen

    def paths(self, max_visits=2, limit=20000, include_raise=False):
        """Enumerate entry->exit paths, each node visited at most
        `max_visits` times (loops unrolled <= max_visits-1 back edges)."""
        out = []
        targets = (self.exit, self.raise_exit) if include_raise else (
            self.exit,)

        def rec(n, path, counts):
            if len(out) >= limit:
                return
            if n in targets:
                out.append(path + [n])
                return
            for s, lab in n.succ:
                if s is self.raise_exit and not include_raise:
                    continue
                c = counts.get(s.id, 0)
                if c >= max_visits:
                    continue
                counts[s.id] = c + 1
                rec(s, path + [n], counts)
                counts[s.id] = c
        rec(self.entry, [], {self.entry.id: 1})
        return out


def _contains(root, node):
    if root is None:
        return False
    for n in ast.walk(root):
        if n is node:
            return True
    return False


def header_expr(node):
    """The expression(s) a CFG node itself evaluates (not nested bodies)."""
    a = node.ast
    if node.kind == 'for':
        return [a.iter]
    if node.kind == 'with':
        return [i.context_expr for i in a.items]
    if node.kind == 'handler':
        return [a.type] if a.type is not None else []
    if node.kind in ('def', 'entry', 'exit', 'raise'):
        return []
    return [a] if a is not None else []


def node_calls(node):
    out = []
    for e in header_expr(node):
        for n in model.walk_shallow(e):
            if isinstance(n, ast.Call):
                out.append(n)
    return out


def always_raises(func_node, never_returns=None):
    g = CFG(func_node, never_returns)
    return not g.can_return_normally()


def assigned_names(node):
    """Names (re)bound by the CFG node itself."""
    out = set()
    a = node.ast
    targets = []
    if node.kind == 'stmt' and isinstance(a, ast.Assign):
        targets = a.targets
    elif node.kind == 'stmt' and isinstance(a, (ast.AugAssign,
                                                ast.AnnAssign)):
        targets = [a.target]
    elif node.kind == 'for':
        targets = [a.target]
    elif node.kind == 'with':
        targets = [i.optional_vars for i in a.items
                   if i.optional_vars is not None]
    elif node.kind == 'handler' and a.name:
        out.add(a.name)
    elif node.kind == 'def':
        out.add(a.name)
    for t in targets:
        for n in ast.walk(t):
            if isinstance(n, ast.Name) and isinstance(n.ctx, ast.Store):
                out.add(n.id)
    return out


def reaching_defs(g, use_node, name):
    """CFG nodes whose binding of `name` may reach `use_node`; the entry
    node stands for 'the parameter / no local binding'."""
    out = []
    seen = set()
    stack = [p for p, _ in use_node.pred]
    while stack:
        n = stack.pop()
        if n.id in seen:
            continue
        seen.add(n.id)
        if n is g.entry:
            out.append(n)
            continue
        if name in assigned_names(n):
            out.append(n)
            continue
        stack.extend(p for p, _ in n.pred)
    return out
