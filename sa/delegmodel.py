"""Abstract evaluation of FunctionDefinition.get_delegate / map_args on a
finite family of abstract definitions and calls (companion of sa.resmodel).

A situation fixes a parameter list (positional, defaulted, keyword-only,
hidden, *args, **kwargs), a call (positional values, keyword values) and
which value fails its type check.  The parameter types, the payload and the
contexts are records whose methods are uninterpreted calls; the source of
get_delegate / map_args is interpreted by sa.absint.  Observed: which values
are type-checked and when, what get_delegate raises, and -- when the
returned delegate is invoked, twice -- which child context is created, which
context every argument is converted in and what reaches the payload.
"""
import ast
import itertools

from sa import absint
from sa import model

SPECS = 'yaql.language.specs'


class NotDecided(Exception):
    pass


# parameter lists: (key, position, kind, has_default)
#   kind: 'plain' | 'hidden' | 'star' | 'starstar'
SIGNATURES = {
    'a,b=,*,k': [('a', 0, 'plain', False), ('b', 1, 'plain', True),
                 ('k', None, 'plain', False)],
    'H,a': [('ctx', 0, 'hidden', False), ('a', 1, 'plain', False)],
    'a,*rest': [('a', 0, 'plain', False), ('*', 1, 'star', False)],
    'a,**kw': [('a', 0, 'plain', False), ('**', None, 'starstar', False)],
    'a,H,b': [('a', 0, 'plain', False), ('eng', 1, 'hidden', False),
              ('b', 2, 'plain', False)],
    'H,a,H,b': [('ctx', 0, 'hidden', False), ('a', 1, 'plain', False),
                ('eng', 2, 'hidden', False), ('b', 3, 'plain', False)],
    # hidden parameters after the visible ones (max(a, b, engine) ...)
    'a,b,H': [('a', 0, 'plain', False), ('b', 1, 'plain', False),
              ('eng', 2, 'hidden', False)],
    'a,b=,H,H': [('a', 0, 'plain', False), ('b', 1, 'plain', True),
                 ('eng', 2, 'hidden', False), ('ctx', 3, 'hidden', False)],
}
# calls: (positional value ids, {keyword: value id})
CALLS = {
    'a,b=,*,k': [(('x',), {'k': 'y'}), (('x', 'z'), {'k': 'y'}),
                 ((), {'a': 'x', 'k': 'y'}), (('x',), {}),
                 (('x',), {'k': None})],
    'H,a': [(('x',), {}), ((), {'a': 'x'})],
    'a,*rest': [(('x', 'y', 'z'), {}), (('x',), {})],
    'a,**kw': [(('x',), {'q': 'y'}), (('x',), {}), (('x',), {'q': None})],
    'a,H,b': [(('x', 'y'), {}), (('x',), {'b': 'y'})],
    'H,a,H,b': [(('x', 'y'), {}), (('x',), {'b': 'y'})],
    'a,b,H': [(('x', 'y'), {}), (('x',), {'b': 'y'}),
              ((), {'a': 'x', 'b': 'y'})],
    'a,b=,H,H': [(('x', 'y'), {}), (('x',), {'b': 'y'}), (('x',), {}),
                 ((), {'a': 'x'})],
}


def _expected_slots(sig, call):
    """-> (positional [(param key, value id)], keyword {key: (param key,
    value id)}) or 'reject'"""
    pos_vals, kw_vals = call
    kw_vals = dict(kw_vals)
    params = SIGNATURES[sig]
    visible = [p for p in params if p[1] is not None and
               p[2] in ('plain',)]
    pos_slots = []
    used = 0
    for key, position, kind, has_default in params:
        if position is None or kind in ('star',):
            continue
        if kind == 'hidden':
            pos_slots.append((key, None))
            continue
        idx = visible.index((key, position, kind, has_default))
        if idx < len(pos_vals):
            if key in kw_vals:
                return 'reject'
            pos_slots.append((key, pos_vals[idx]))
            used = max(used, idx + 1)
        elif key in kw_vals:
            pos_slots.append((key, kw_vals.pop(key)))
        elif has_default:
            pos_slots.append((key, 'default:' + key))
        else:
            return 'reject'
    kw_slots = {}
    for key, position, kind, has_default in params:
        if position is not None or kind == 'starstar':
            continue
        if kind == 'hidden':
            kw_slots[key] = (key, None)
        elif key in kw_vals:
            kw_slots[key] = (key, kw_vals.pop(key))
        elif has_default:
            kw_slots[key] = (key, 'default:' + key)
        else:
            return 'reject'
    extra = pos_vals[len(visible):]
    if extra:
        if not any(p[2] == 'star' for p in params):
            return 'reject'
        for v in extra:
            pos_slots.append(('*', v))
    if kw_vals:
        if not any(p[2] == 'starstar' for p in params):
            return 'reject'
        for k, v in kw_vals.items():
            kw_slots[k] = ('**', v)
    return pos_slots, kw_slots


def run_get_delegate(repo, sig, call, failing=None, convert_fails=None,
                     method='get_delegate'):
    mod = repo.module(SPECS)
    ci = mod.classes.get('FunctionDefinition')
    fi = ci.methods.get(method) if ci else None
    if fi is None:
        raise NotDecided('FunctionDefinition.%s not found' % method)
    trace = []
    values = {}

    def val(vid):
        if vid is None:
            return None        # a null argument value
        if vid not in values:
            values[vid] = absint.Obj('value:%s' % vid, vid=vid)
        return values[vid]
    children = []

    def oracle(callee, cargs, ckw):
        if callee.startswith('check#'):
            key = callee[6:]
            v = cargs[0]
            vid = v.attrs.get('vid') if isinstance(v, absint.Obj) else v
            trace.append(('check', key, vid, cargs[1:]))
            return (not (failing == (key, vid)),)
        if callee.startswith('convert#'):
            key = callee[8:]
            v = cargs[0]
            vid = v.attrs.get('vid') if isinstance(v, absint.Obj) else v
            trace.append(('convert', key, vid, cargs[1:]))
            if convert_fails == key:
                return (absint._Raise('ArgumentValueException'),)
            return (absint.Obj('converted', key=key, vid=vid,
                               in_context=cargs[2] if len(cargs) > 2
                               else None),)
        if callee == 'create_child_context':
            c = absint.Obj('child#%d' % len(children), child_of='context')
            children.append(c)
            trace.append(('child', c))
            return (c,)
        if callee.endswith('create_marker'):
            return (absint.Sym('marker:%s' % (cargs[0] if cargs else '')),)
        if callee == 'payload':
            trace.append(('payload', tuple(cargs), dict(ckw)))
            return (absint.Sym('result'),)
        return None

    def inst(value, cls_expr):
        names = [model.norm(x).rsplit('.', 1)[-1] for x in (
            cls_expr.elts if isinstance(cls_expr, ast.Tuple)
            else [cls_expr])]
        if isinstance(value, absint.Obj) and 'hidden' in value.attrs:
            if 'HiddenParameterType' in names:
                return value.attrs['hidden']
            if 'LazyParameterType' in names:
                return False
        raise absint.Unsupported('isinstance(%r, %s)' % (
            value, model.norm(cls_expr)))
    it = absint.Interp(repo, mod, oracle, inst, max_steps=40000)
    no_default = it.ev(ast.Name(id='NO_DEFAULT', ctx=ast.Load()), {})
    params = {}
    for key, position, kind, has_default in SIGNATURES[sig]:
        vt = absint.Obj('type:%s' % key, hidden=(kind == 'hidden'),
                        check=absint.Sym('check#%s' % key),
                        convert=absint.Sym('convert#%s' % key))
        # the python name of a visible parameter is not the keyword it is
        # passed by (trailing underscore, naming convention): the table is
        # keyed by python name, callers use the alias
        pyname = key + '_' if kind == 'plain' else key
        params[pyname] = absint.Obj(
            'param:%s' % key, __class__=mod.classes.get(
                'ParameterDefinition'),
            name=pyname, alias=key if kind == 'plain' else None,
            position=position,
            value_type=vt,
            default=val('default:' + key) if has_default else no_default)
    selfobj = absint.Obj('definition', __class__=ci, parameters=params,
                         payload=absint.Sym('payload'), name='f')
    context = absint.Obj('context', create_child_context=absint.Sym(
        'create_child_context'))
    pos_vals, kw_vals = call
    amap = {0: selfobj, 'receiver': absint.Sym('receiver'),
            'engine': absint.Sym('engine'), 'context': context,
            'args': tuple(val(v) for v in pos_vals),
            'kwargs': {k: val(v) for k, v in kw_vals.items()}}
    ps = fi.params()
    want_ps = ['receiver', 'engine', 'context', 'args', 'kwargs'] \
        if method == 'get_delegate' else ['args', 'kwargs', 'context',
                                          'engine']
    if ps[1:] != want_ps:
        raise NotDecided('%s has parameters %s' % (method, ps))
    if method != 'get_delegate':
        del amap['receiver']
    try:
        out = it.run(fi.node, amap)
        built = len(trace)
        runs = []
        if out[0] == 'return' and method == 'get_delegate':
            for k in range(2):
                try:
                    runs.append(('return', it.invoke(out[1], [], {})))
                except absint._Raise as r:
                    runs.append(('raise', r.v))
    except absint.Unsupported as e:
        raise NotDecided(str(e))
    return out, trace, built, runs, context


def verdicts(repo):
    bad = {k: [] for k in (
        'every-value-checked', 'failed-check-rejects', 'rejects-bad-calls',
        'no-conversion-before-invocation', 'fresh-child-per-invocation',
        'converted-in-that-child', 'payload-gets-converted-slots',
        'conversion-error-is-argument-error')}
    n = 0
    for sig, calls in CALLS.items():
        for call in calls:
            exp = _expected_slots(sig, call)
            slots = [] if exp == 'reject' else (
                exp[0] + list(exp[1].values()))
            fails = [None] + [(k, v) for k, v in slots if v is not None]
            for failing in fails:
                desc = 'f(%s) called with %s %s%s' % (
                    sig, list(call[0]), call[1],
                    ', %s failing the check of %s' % (failing[1],
                                                      failing[0])
                    if failing else '')
                out, trace, built, runs, ctx = run_get_delegate(
                    repo, sig, call, failing)
                n += 1
                checks = [(t[1], t[2]) for t in trace[:built]
                          if t[0] == 'check']
                early = [t for t in trace[:built]
                         if t[0] in ('convert', 'payload', 'child')]
                if early:
                    bad['no-conversion-before-invocation'].append(
                        '%s: %s happens while the delegate is being built'
                        % (desc, early[0][0]))
                if exp == 'reject':
                    if not (out[0] == 'raise' and str(out[1]).endswith(
                            'ArgumentException')):
                        bad['rejects-bad-calls'].append(
                            '%s: expected ArgumentException, got %s' % (
                                desc, out[:2]))
                    continue
                if failing is not None:
                    if not (out[0] == 'raise' and str(out[1]).endswith(
                            'ArgumentException')):
                        bad['failed-check-rejects'].append(
                            '%s: expected ArgumentException, got %s' % (
                                desc, out[0]))
                    continue
                if out[0] != 'return':
                    bad['rejects-bad-calls'].append(
                        '%s: a well-formed call is refused (%s)' % (
                            desc, out[1]))
                    continue
                want_checks = sorted((k, v) for k, v in slots)
                if sorted(checks, key=str) != sorted(want_checks, key=str):
                    bad['every-value-checked'].append(
                        '%s: type checks performed %s, expected %s' % (
                            desc, checks, want_checks))
                for t in trace[:built]:
                    if t[0] == 'check' and not (
                            len(t[3]) == 2 and t[3][0] is ctx):
                        bad['every-value-checked'].append(
                            '%s: check() not given (value, context, '
                            'engine)' % desc)
                # the two invocations
                segs = []
                cur = []
                for t in trace[built:]:
                    if t[0] == 'child' and cur:
                        segs.append(cur)
                        cur = []
                    cur.append(t)
                if cur:
                    segs.append(cur)
                kids = [t[1] for t in trace[built:] if t[0] == 'child']
                if len(kids) != 2 or kids[0] is kids[1] or len(segs) != 2:
                    bad['fresh-child-per-invocation'].append(
                        '%s: two invocations create %d child context(s)'
                        % (desc, len(kids)))
                    continue
                for seg, kid in zip(segs, kids):
                    convs = [t for t in seg if t[0] == 'convert']
                    for t in convs:
                        if not (len(t[3]) >= 2 and t[3][1] is kid):
                            bad['converted-in-that-child'].append(
                                '%s: parameter %s is converted in %s, not '
                                'in the child context of this invocation'
                                % (desc, t[1], t[3][1] if len(t[3]) > 1
                                   else '?'))
                    pays = [t for t in seg if t[0] == 'payload']
                    if len(pays) != 1:
                        bad['payload-gets-converted-slots'].append(
                            '%s: payload called %d times per invocation'
                            % (desc, len(pays)))
                        continue
                    gp = [(a.attrs.get('key'), a.attrs.get('vid'))
                          if isinstance(a, absint.Obj) else a
                          for a in pays[0][1]]
                    gk = {k.rstrip('_'): (a.attrs.get('key'),
                                          a.attrs.get('vid'))
                          if isinstance(a, absint.Obj) else a
                          for k, a in pays[0][2].items()}
                    if gp != list(exp[0]) or gk != exp[1]:
                        bad['payload-gets-converted-slots'].append(
                            '%s: payload receives %s %s, expected the '
                            'converted %s %s' % (desc, gp, gk, exp[0],
                                                 exp[1]))
            # a conversion error surfaces as ArgumentException
            if exp != 'reject' and exp[0]:
                key = exp[0][-1][0]
                out, trace, built, runs, ctx = run_get_delegate(
                    repo, sig, call, None, convert_fails=key)
                n += 1
                if not runs or not (runs[0][0] == 'raise' and str(
                        runs[0][1]).endswith('ArgumentException')):
                    bad['conversion-error-is-argument-error'].append(
                        'f(%s): ArgumentValueException from converting %s '
                        'surfaces as %s' % (sig, key, runs[:1]))
    out = {k: (not v, v[0] if v else '') for k, v in bad.items()}
    out['_situations'] = n
    return out


_SHAPES = {}


def mapping_shape(repo):
    """How map_args packages its answer, learnt by mapping the call f(x,
    k=y) onto `a, b=, *, k` abstractly: -> (make, split) where make(pos,
    kw) builds a mapping of that form and split(mapping) takes one apart.
    Plain pairs and records with two named fields are understood; anything
    else falls back to the plain pair."""
    if id(repo) in _SHAPES:
        return _SHAPES[id(repo)]

    def pair_make(pos, kw):
        return (tuple(pos), kw)

    def pair_split(m):
        if isinstance(m, tuple) and len(m) == 2:
            return m
        return None
    shape = (pair_make, pair_split)
    try:
        out = run_get_delegate(repo, 'a,b=,*,k', (('x',), {'k': 'y'}),
                               None, method='map_args')[0]
    except (NotDecided, absint.Unsupported, absint._Raise):
        out = None
    m = out[1] if out and out[0] == 'return' else None
    if isinstance(m, absint.Obj) and isinstance(
            m.attrs.get('__items__'), list) and len(
            m.attrs['__items__']) == 2:
        fields = [k for k, v in m.attrs.items()
                  if k != '__items__' and not k.startswith('__')]
        pf = [k for k in fields if isinstance(m.attrs[k], (tuple, list))]
        kf = [k for k in fields if isinstance(m.attrs[k], dict)]
        if len(fields) == 2 and len(pf) == 1 and len(kf) == 1:
            order = [k for k in (pf[0], kf[0])]
            first_is_pos = m.attrs['__items__'][0] is m.attrs[pf[0]]
            cname = getattr(m, "_name", "mapping")

            def rec_make(pos, kw, pf=pf[0], kf=kf[0]):
                o = absint.Obj(cname, **{pf: tuple(pos), kf: kw})
                o.attrs['__items__'] = [o.attrs[pf], o.attrs[kf]] \
                    if first_is_pos else [o.attrs[kf], o.attrs[pf]]
                return o

            def rec_split(x, pf=pf[0], kf=kf[0]):
                if isinstance(x, absint.Obj) and pf in x.attrs and \
                        kf in x.attrs:
                    return x.attrs[pf], x.attrs[kf]
                return pair_split(x)
            shape = (rec_make, rec_split)
    _SHAPES[id(repo)] = shape
    return shape


def map_verdicts(repo):
    """FunctionDefinition.map_args on the same situations: the call is
    mapped (not None) exactly when it is well-formed and every supplied
    value passes the type check of the parameter it is paired with."""
    bad = {k: [] for k in ('map-accepts-iff-wellformed',
                           'map-checks-every-supplied-value',
                           'map-pairs-values-with-parameters')}
    n = 0
    for sig, calls in CALLS.items():
        for call in calls:
            exp = _expected_slots(sig, call)
            hidden = {p[0] for p in SIGNATURES[sig] if p[2] == 'hidden'}
            supplied = [] if exp == 'reject' else [
                (k, v) for k, v in exp[0] + list(exp[1].values())
                if k not in hidden and not str(v).startswith('default:')]
            for failing in [None] + supplied:
                desc = 'f(%s) mapped onto %s %s%s' % (
                    sig, list(call[0]), call[1],
                    ', %s failing the check of %s' % (failing[1],
                                                      failing[0])
                    if failing else '')
                out, trace, built, runs, ctx = run_get_delegate(
                    repo, sig, call, failing, method='map_args')
                n += 1
                if out[0] != 'return':
                    bad['map-accepts-iff-wellformed'].append(
                        '%s: map_args raises %s' % (desc, out[1]))
                    continue
                accepted = out[1] is not None
                # map_args checks positional values and ** extras; a value
                # bound by keyword to a named parameter is checked by
                # get_delegate (every-value-checked), which always follows
                named_kw = failing is not None and failing[1] in \
                    call[1].values() and failing[0] != '**'
                should = exp != 'reject' and (failing is None or named_kw)
                if accepted != should:
                    bad['map-accepts-iff-wellformed'].append(
                        '%s: the overload is %s' % (
                            desc, 'kept as a candidate' if accepted
                            else 'dropped'))
                    continue
                if not accepted:
                    continue
                checks = sorted(((t[1], t[2]) for t in trace
                                 if t[0] == 'check' and t[1] not in hidden
                                 and not str(t[2]).startswith('default:')),
                                key=str)
                need = sorted(((k, v) for k, v in supplied
                               if v in call[0] or k == '**'), key=str)
                if not set(need) <= set(checks):
                    checks = need + ['...']
                if checks and checks[-1] == '...':
                    bad['map-checks-every-supplied-value'].append(
                        '%s: positional values and ** extras must be '
                        'type-checked: %s' % (desc, need))
                pos, kw = mapping_shape(repo)[1](out[1]) or ((), {})
                def _nm(p):
                    return p.attrs.get('name').rstrip('_') if isinstance(
                        p, absint.Obj) and isinstance(
                        p.attrs.get('name'), str) else p
                got_pos = [_nm(p) for p in pos]
                want_pos = [k for k, v in exp[0] if v in call[0]]
                got_kw = {k: _nm(p) for k, p in kw.items()}
                want_kw = {}
                for k, v in call[1].items():
                    owner = [pk for pk, pv in exp[0] + list(
                        exp[1].values()) if pv == v]
                    want_kw[k] = owner[0] if owner else '?'
                if got_pos != want_pos or got_kw != want_kw:
                    bad['map-pairs-values-with-parameters'].append(
                        '%s: positional values paired with %s, keywords '
                        'with %s; expected %s and %s' % (
                            desc, got_pos, got_kw, want_pos, want_kw))
    out = {k: (not v, v[0] if v else '') for k, v in bad.items()}
    out['_map_situations'] = n
    return out
