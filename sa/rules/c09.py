"""C09 -- evaluation has no side effects on host data, context or statement.

Effect analysis over all evaluation-time functions.
"""
import ast
import os

from sa import effects
from sa import cfg as cfgmod
from sa import model
from sa import norm
from sa import origins
from sa import universe as unimod
from sa.model import AnalysisError

TITLE = 'no in-place write on host-reachable data, contexts, nodes'

DATA_TAGS = ('param', 'derived', 'lazyres')

# reviewed exceptions: (function key, root parameter) -> reason
R09A_EXCEPTIONS = {
    ('yaql.standard_library.queries:then_by', 'collection'):
        'receiver is the OrderingIterable produced by orderBy in the same '
        'evaluation (an evaluation-local lazy object, not host data)',
    ('yaql.standard_library.queries:then_by_descending', 'collection'):
        'same as then_by',
    ('yaql.standard_library.yaqlized:_auto_yaqlize', 'value'):
        'marks a host *result* object as yaqlized, only when the host '
        'enabled auto_yaqlize_result on the owning object',
}

R09A_MODULES_EXTRA = ('yaql.language.utils', 'yaql.language.yaqltypes',
                      'yaql.yaql_interface', 'yaql.yaqlization')
R09D_MODULES = ('yaql.language.runner', 'yaql.language.specs',
                'yaql.language.expressions', 'yaql.language.yaqltypes',
                'yaql.language.utils', 'yaql.yaql_interface',
                'yaql.language.conventions')
CTX_MUTATORS = {'register_function', 'delete_function', '__setitem__',
                '__delitem__'}


def data_tags(tags):
    return sorted(t for t in tags if t[0] in DATA_TAGS)


class Effects:
    """Interprocedural 'mutates parameter' summaries."""

    def __init__(self, repo, uni, extra_funcs=()):
        self.repo = repo
        self.uni = uni
        self.funcs = list(repo.all_functions()) + list(extra_funcs)
        self.mut = {}      # fi.key -> set of parameter names mutated
        self.direct = {}   # fi.key -> parameters written in the body itself
        self.via = {}      # (fi.key, param) -> {(callee key, callee param)}
        self.self_mut = {}  # method name -> [FuncInfo] that store into self
        self._solve()

    def _solve(self):
        for fi in self.funcs:
            self.mut[fi.key] = set()
        for fi in self.funcs:
            if fi.is_method and fi.name != '__init__':
                for w in effects.writes_in(fi.node):
                    if w.kind == 'aug-name':
                        continue
                    tags = self.uni.env(fi).ev(w.target).tags
                    if any(t[0] in ('self', 'selfattr') for t in tags):
                        self.self_mut.setdefault(fi.name, []).append(fi)
                        break
        for _ in range(6):
            changed = False
            for fi in self.funcs:
                env = self.uni.env(fi)
                cur = self.mut[fi.key]
                n0 = len(cur)
                for w in effects.writes_in(fi.node):
                    if w.kind == 'aug-name':
                        continue
                    for t in env.ev(w.target).tags:
                        if t[0] in ('param', 'derived'):
                            cur.add(t[1])
                            self.direct.setdefault(fi.key, set()).add(t[1])
                for call, callee, amap in self.calls(fi):
                    for pname, actual in amap.items():
                        if pname in self.mut.get(callee.key, ()):
                            for t in env.ev(actual).tags:
                                if t[0] in ('param', 'derived'):
                                    cur.add(t[1])
                                    self.via.setdefault(
                                        (fi.key, t[1]), set()).add(
                                        (callee.key, pname))
                if len(cur) != n0:
                    changed = True
            if not changed:
                break

    def excepted(self, key, pname, exceptions, _seen=None):
        """(function, parameter) is a reviewed exception, or writes through
        the parameter only by handing it to one."""
        if (key, pname) in exceptions:
            return True
        seen = _seen or set()
        if (key, pname) in seen:
            return False
        seen.add((key, pname))
        if pname in self.direct.get(key, ()):
            return False
        vias = self.via.get((key, pname))
        return bool(vias) and all(
            self.excepted(k, q, exceptions, seen) for k, q in vias)

    def calls(self, fi):
        """(call, callee FuncInfo, {callee param name: actual expr})"""
        out = []
        for call in model.calls_in(fi.node, shallow=True):
            d = self.repo.resolve(fi.module, call.func,
                                  model.scope_locals(fi))
            tgt = self.repo.lookup(d) if d else None
            callee = None
            if isinstance(tgt, model.FuncInfo):
                callee = tgt
            elif d is None and isinstance(call.func, ast.Name):
                q = fi.qualname + '.' + call.func.id
                f = fi
                while f is not None and callee is None:
                    q = f.qualname + '.' + call.func.id
                    callee = fi.module.functions.get(q)
                    f = f.parent_func
            if callee is None:
                continue
            names = callee.params()
            if callee.is_method:
                names = names[1:]
            amap = {}
            for i, a in enumerate(call.args):
                if isinstance(a, ast.Starred):
                    break
                if i < len(names):
                    amap[names[i]] = a
            for k in call.keywords:
                if k.arg:
                    amap[k.arg] = k.value
            out.append((call, callee, amap))
        return out


def class_attr_holds_data(uni, ci, attr):
    """Does self.<attr> ever receive a value derived from a parameter of the
    method that assigns it (e.g. self.collection = collection)?"""
    for m in ci.methods.values():
        env = uni.env(m)
        for n in model.walk_shallow(m.node):
            if isinstance(n, ast.Assign):
                for t in n.targets:
                    if isinstance(t, ast.Attribute) and t.attr == attr and \
                            isinstance(t.value, ast.Name):
                        v = env.ev(n.value)
                        if any(x[0] in DATA_TAGS for x in v.tags | v.c1):
                            if m.name == '__init__' and isinstance(
                                    n.value, ast.Name) and \
                                    _constructed_with_own_storage(
                                        uni, ci, m, n.value.id, attr):
                                continue
                            return True
    return False


def _constructed_with_own_storage(uni, ci, init, pname, attr):
    """Every construction site of the class hands, for constructor parameter
    `pname`, a container built at that site (or, inside the class, the same
    attribute of another instance): the attribute then never holds data."""
    repo = uni.repo
    ps = init.params()
    if pname not in ps:
        return False
    pos = ps.index(pname) - 1
    sites = 0
    for f in repo.all_functions():
        for c in model.calls_in(f.node, shallow=True):
            if not isinstance(c.func, (ast.Name, ast.Attribute)):
                continue
            last = c.func.id if isinstance(c.func, ast.Name) else c.func.attr
            if last != ci.node.name:
                continue
            tgt = repo.lookup(repo.resolve(
                f.module, c.func, model.scope_locals(f)) or '')
            if tgt is not ci:
                if not (f.module is ci.module and isinstance(
                        c.func, ast.Name)):
                    continue
            if any(isinstance(a, ast.Starred) for a in c.args) or any(
                    k.arg is None for k in c.keywords):
                return False
            actual = None
            if 0 <= pos < len(c.args):
                actual = c.args[pos]
            for k in c.keywords:
                if k.arg == pname:
                    actual = k.value
            if actual is None:
                return False
            sites += 1
            if f.cls is ci and isinstance(actual, ast.Attribute) and \
                    actual.attr == attr and isinstance(
                        actual.value, ast.Name) and actual.value.id == 'self':
                continue
            v = uni.env(f).ev(actual)
            if not v.tags or any(t[0] != 'fresh' for t in v.tags | v.c1):
                return False
    return sites > 0


def r09a_scope(uni):
    out = []
    for fi, role in uni.evaluation_time():
        mod = fi.module.name
        if mod.startswith('yaql.standard_library') or \
                mod in R09A_MODULES_EXTRA or role == 'nested-runtime' and \
                mod == 'yaql':
            if mod == 'yaql.language.utils' and fi.name in (
                    'filter_parameters_dict',):
                pass
            out.append((fi, role))
    return out


MUTABLE_NAMES = ('list', 'set', 'dict', 'bytearray', 'deque',
                 'MutableSequence', 'MutableMapping', 'MutableSet',
                 'MutableSequenceType', 'MutableMappingType',
                 'MutableSetType', 'SequenceType', 'MappingType', 'SetType',
                 'Sequence', 'Mapping', 'Set', 'Iterable', 'IterableType',
                 'object', 'QueueType')
IMMUTABLE_NAMES = ('tuple', 'str', 'int', 'float', 'bool', 'frozenset',
                   'bytes', 'FrozenDict', 'datetime', 'timedelta',
                   'DATETIME_TYPE', 'TIMESPAN_TYPE', 'NoneType')


def _may_be_mutable_here(uni, fi, w):
    """May the name an augmented assignment targets hold a mutable
    container at that point?  Decided by an isinstance test that holds
    there, else by the declared type of the parameter; unknown -> no."""
    name = w.target.id
    for e, pol in norm.literals(w.node, fi.node):
        if isinstance(e, ast.Call) and isinstance(e.func, ast.Name) and \
                e.func.id == 'isinstance' and len(e.args) == 2 and \
                isinstance(e.args[0], ast.Name) and e.args[0].id == name:
            ts = e.args[1].elts if isinstance(
                e.args[1], ast.Tuple) else [e.args[1]]
            names = [model.norm(t).rsplit('.', 1)[-1] for t in ts]
            if pol and any(n in MUTABLE_NAMES for n in names):
                return True
            if pol and all(n in IMMUTABLE_NAMES for n in names):
                return False
    for ov in uni.payload_ov.get(fi.key, ()):
        for p in ov.params:
            if p.name != name or p.type.hidden:
                continue
            pts = p.type.python_types
            if not pts:
                return not p.type.smart      # undeclared: anything
            short = [t.rsplit('.', 1)[-1] for t in pts]
            if any(n in MUTABLE_NAMES for n in short):
                return True
    return False


def check_r09a(repo, rep, uni, eff, scope, prefix=''):
    nsites = 0
    for fi, role in scope:
        env = uni.env(fi)
        site_base = prefix + fi.key
        hits = []
        for w in effects.writes_in(fi.node):
            if w.kind == 'aug-name':
                # `p += x` rebinds for numbers, strings and tuples but
                # extends a list / set / dict / deque in place
                v = env.ev(w.target)
                bad = data_tags(v.tags)
                if bad and _may_be_mutable_here(uni, fi, w):
                    nsites += 1
                    hits.append((w.node, bad, 'augmented assignment `%s`, '
                                 'which extends a list/set/dict operand in '
                                 'place' % model.norm(w.node), w.target))
                continue
            v = env.ev(w.target)
            nsites += 1
            bad = data_tags(v.tags)
            # context writes are R09c's
            if w.kind in ('subscript', 'del-subscript') and any(
                    t[0] in ('ctx', 'ctxchild') for t in v.tags) and not bad:
                continue
            if not bad and fi.cls is not None:
                # an attribute of self that holds an argument of the
                # constructor (self.collection = collection): writing
                # through it writes host data
                for t in v.tags:
                    if t[0] == 'selfattr' and len(t) > 1 and t[1] and \
                            w.kind != 'attr' and class_attr_holds_data(
                                uni, fi.cls, t[1]):
                        bad = [('derived', 'self.' + t[1])]
            if bad:
                hits.append((w.node, bad, '%s on %s' % (
                    w.kind, model.norm(w.target)), w.target))
        for call, callee, amap in eff.calls(fi):
            for pname, actual in amap.items():
                if pname in eff.mut.get(callee.key, ()):
                    if eff.excepted(callee.key, pname, R09A_EXCEPTIONS):
                        continue    # reviewed at the callee
                    bad = data_tags(env.ev(actual).tags)
                    nsites += 1
                    if bad:
                        hits.append((call, bad,
                                     'passes it to %s, which writes through '
                                     'its parameter %s' % (callee.key,
                                                           pname), actual))
        # receiver.method() where the method (by name, unique among repo
        # classes) stores into self
        for call in model.calls_in(fi.node, shallow=True):
            f = call.func
            if isinstance(f, ast.Attribute) and f.attr in eff.self_mut and \
                    f.attr not in effects.MUTATORS:
                if fi.cls is not None and all(
                        m.cls is fi.cls for m in eff.self_mut[f.attr]):
                    continue   # a class working on instances of itself
                top = fi
                while top.parent_func is not None:
                    top = top.parent_func
                if all(m.cls is not None and model.enclosing(
                        m.cls.node, (ast.FunctionDef,
                                     ast.AsyncFunctionDef)) is not None and
                       any(model.enclosing(m.cls.node, (
                           ast.FunctionDef, ast.AsyncFunctionDef)) is x
                           for x in ast.walk(top.node))
                       for m in eff.self_mut[f.attr]):
                    # the only classes with such a method are defined
                    # inside this very call: their instances are call-local
                    continue
                bad = data_tags(env.ev(f.value).tags)
                nsites += 1
                if bad:
                    hits.append((call, bad, 'calls %s(), which stores into '
                                 'its receiver' % f.attr, f.value))
        if not hits:
            rep.ob('R09a', site_base, True, nontrivial=bool(
                effects.writes_in(fi.node)))
            continue
        by_root = {}
        for node, bad, what, expr in hits:
            for t in bad:
                root = t[1] if len(t) > 1 else 'lambda-result'
                by_root.setdefault(root, []).append((node, what, expr))
        for root, lst in sorted(by_root.items()):
            exc = R09A_EXCEPTIONS.get((fi.key, root))
            # a reviewed exception covers writes on the parameter object
            # itself, not on anything else reached from it
            if exc and not all(isinstance(e, ast.Name) and e.id == root
                               for n2, w2, e in lst):
                exc = None
            lst = [(n2, w2) for n2, w2, e in lst]
            node, what = lst[0]
            if exc:
                rep.ob('R09a', '%s/%s' % (site_base, root), True,
                       'reviewed exception: ' + exc, loc=fi.module.loc(node),
                       construct=model.norm(node))
                continue
            for node, what in lst:
                rep.ob('R09a', '%s/%s' % (site_base, root), False,
                       'in-place write on a value reachable from argument '
                       '`%s` (%s): host data bound to it (convertInputData '
                       'off, or a host-supplied mutable) is changed by '
                       'evaluating an expression; copy first' % (root, what),
                       loc=fi.module.loc(node), construct=model.norm(node))
    return nsites


SCALAR_TYPES = ('Integer', 'Number', 'String', 'Boolean', 'DateTime',
                'Keyword', 'Constant')


def check_augmented_assignments(repo, rep, uni):
    """R09e: `x += y` (and *=, |=, &=, -=) on a name that may hold a value
    taken from an argument -- the argument itself, an element of a
    collection argument, the result of a lambda -- changes that value in
    place when it is a list, set or dict: `total += item` extends the
    host's list.  Allowed: names holding only values made in the call, and
    parameters declared with a scalar type."""
    n = 0
    for fi, role in uni.evaluation_time():
        if not fi.module.name.startswith('yaql.standard_library'):
            continue
        env = None
        top = fi
        while top.parent_func is not None:
            top = top.parent_func
        if top.key not in uni.payload_ov:
            continue     # a helper: what its parameters hold is declared
            #              by the payloads that call it, not here
        ovs = uni.payload_ov.get(fi.key) or []
        scalar = set()
        for ov in ovs[:1]:
            for p in ov.params:
                short = (p.type.cls or '').rsplit('.', 1)[-1]
                pts = getattr(p.type, 'python_types', None) or []
                if short in SCALAR_TYPES or (pts and all(
                        t in ('builtins.int', 'builtins.float',
                              'builtins.str', 'builtins.bool',
                              'builtins.tuple', 'builtins.frozenset',
                              'builtins.bytes', 'datetime.datetime',
                              'datetime.timedelta') for t in pts)):
                    scalar.add(p.name)
        for st in model.walk_shallow(fi.node):
            if not (isinstance(st, ast.AugAssign) and isinstance(
                    st.target, ast.Name) and isinstance(
                    st.op, (ast.Add, ast.Mult, ast.BitOr, ast.BitAnd,
                            ast.Sub, ast.BitXor))):
                continue
            env = env or uni.env(fi)
            v = env.ev(ast.Name(id=st.target.id, ctx=ast.Load()))
            risky = sorted(t for t in v.tags if t[0] in (
                'param', 'derived', 'hidden', 'ctx') and not (
                t[0] == 'param' and len(t) > 1 and t[1] in scalar))
            n += 1
            rep.ob('R09e', '%s/%s' % (fi.key, model.norm(st)[:50]),
                   not risky,
                   '`%s`: %s may hold a value that came in through %s; if '
                   'it is a list, set or dict the augmented assignment '
                   'changes it in place -- host data bound to it '
                   '(convertInputData off, a context variable) is changed '
                   'by evaluating an expression; build a new value (x = x '
                   '+ y)' % (model.norm(st), st.target.id, risky),
                   loc=fi.module.loc(st), construct=model.norm(st))
    rep.floor('augmented assignments examined', n, 8)


def check_r09b(repo, rep, uni):
    """The finaliser returns a newly built object for every container
    branch."""
    mod = repo.module('yaql.language.utils')
    fi = mod.func('convert_output_data')
    env = uni.env(fi)
    params = fi.params()
    obj = params[0]
    n = 0
    # walk the top-level if/elif chain
    for st in model.strip_docstring(fi.node.body):
        cur = st if isinstance(st, ast.If) else None
        while cur is not None:
            test = model.norm(cur.test)
            if obj in model.names_loaded(cur.test) and (
                    'isinstance' in test or 'is_iterable' in test or
                    'is_sequence' in test or 'is_iterator' in test):
                for r in [x for s in cur.body for x in model.walk_shallow(s)
                          if isinstance(x, ast.Return)]:
                    n += 1
                    v = env.ev(r.value) if r.value is not None else None
                    ok = v is not None and origins.FRESH in v.tags and \
                        not any(t[0] in ('param', 'derived') for t in v.tags)
                    rep.ob('R09b', '%s/branch[%s]' % (fi.key, test), ok,
                           'container branch of the finaliser returns %s, '
                           'which is not a newly built object: the result '
                           'would alias the evaluated (host) data' % (
                               model.norm(r.value) if r.value is not None
                               else 'None'),
                           loc=mod.loc(r), construct=model.norm(r))
            nxt = cur.orelse
            cur = nxt[0] if len(nxt) == 1 and isinstance(nxt[0], ast.If) \
                else None
    # the same question asked of the converter as a whole: interpreted on
    # every mutable container kind (under every option valuation), it must
    # never hand back the object it was given
    from sa import shapes
    facts = shapes.Facts(repo)
    m = 0
    for kind in ('list', 'dict', 'set', 'deque', 'generator'):
        for t in (True, False):
            for s_ in (True, False):
                it = shapes.Interp(repo, fi, facts, {
                    'yaql.convertTuplesToLists': t,
                    'yaql.convertSetsToLists': s_})
                inner = shapes.Shape('list', [shapes.Shape('int')])
                sh = shapes.Shape(kind, [shapes.Shape('str'), inner]
                                  if kind == 'dict' else [inner])
                try:
                    it.convert(sh)
                except shapes.Error:
                    continue
                m += 1
                mutable = [k for k in it.passthrough
                           if k in ('list', 'dict', 'set', 'deque',
                                    'generator')]
                rep.ob('R09b', '%s/fresh[%s,T=%d,S=%d]' % (
                    fi.key, kind, t, s_), not mutable,
                    'the finaliser returns a %s it was given as it is '
                    '(options T=%s S=%s): the result would alias the '
                    'evaluated (host) data' % (
                        mutable[0] if mutable else '', t, s_),
                    loc=mod.loc(fi.node))
    rep.floor('finaliser scenarios on mutable containers', m, 12)


def check_r09c(repo, rep, uni):
    """Context writes target the injected context or a child created in the
    call; never .parent, an ordinary argument or a global."""
    n = 0
    for fi, role in uni.evaluation_time():
        mod = fi.module.name
        if mod in ('yaql.language.contexts',):
            continue     # the context classes' own storage (C17)
        env = uni.env(fi)
        sites = []
        for w in effects.writes_in(fi.node):
            if w.kind in ('subscript', 'del-subscript', 'aug-subscript'):
                sites.append((w.node, w.target, w.key))
        for call in model.calls_in(fi.node, shallow=True):
            f = call.func
            if isinstance(f, ast.Attribute) and f.attr in CTX_MUTATORS:
                sites.append((call, f.value, None))
        for node, target, key in sites:
            v = env.ev(target)
            ctxish = [t for t in v.tags if t[0] in (
                'ctx', 'ctxchild', 'ctxattr')]
            if not ctxish:
                continue
            n += 1
            site = '%s/context-write' % fi.key
            bad = [t for t in ctxish if t[0] == 'ctxattr']
            if bad:
                rep.ob('R09c', site, False,
                       'store into a context reached through an attribute '
                       'of the call\'s context (%s): this writes into a '
                       'layer the host supplied / an outer scope' %
                       model.norm(target), loc=fi.module.loc(node),
                       construct=model.norm(node))
                continue
            if fi.key == 'yaql.language.expressions:Statement.evaluate':
                ok = isinstance(key, ast.Constant) and key.value == '$'
                rep.ob('R09c', site, ok,
                       'documented exception: evaluate() binds `$` in the '
                       'supplied context' if ok else
                       'Statement.evaluate may only bind `$` in the supplied '
                       'context, writes %s' % model.norm(key) if key
                       is not None else 'non-subscript write',
                       loc=fi.module.loc(node), construct=model.norm(node))
                continue
            if mod in ('yaql.language.expressions', 'yaql.language.runner',
                       'yaql.yaql_interface') and fi.key not in \
                    uni.payload_ov and isinstance(target, ast.Name) and \
                    target.id in fi.params() and (
                        not fi.name.startswith('_') or
                        fi.name.startswith('__')):
                # (private helpers are handed what their callers made)
                # the expression nodes, the dispatcher and the host
                # interface are handed the HOST's context (a payload gets a
                # per-call child): what they write must go into a child
                # they made -- on every path that reaches the write
                g = cfgmod.CFG(fi.node)
                stmt = node if isinstance(node, ast.stmt) else \
                    model.enclosing(node, ast.stmt)
                use = g.node_of(stmt) if stmt is not None else None
                defs = cfgmod.reaching_defs(g, use, target.id) \
                    if use is not None else [g.entry]
                from_host = [d for d in defs if d is g.entry or not (
                    isinstance(getattr(d, 'ast', None), ast.Assign) and
                    isinstance(d.ast.value, ast.Call) and isinstance(
                        d.ast.value.func, ast.Attribute) and
                    d.ast.value.func.attr == 'create_child_context')]
                rep.ob('R09c', site, not from_host,
                       'own/child context' if not from_host else
                       '`%s` writes into the context the caller supplied '
                       '(no child was created on this path): the host\'s '
                       'context is changed by evaluating an expression' %
                       model.norm(node).split('\n')[0][:80],
                       loc=fi.module.loc(node), construct=model.norm(node))
                continue
            rep.ob('R09c', site, True, 'own/child context',
                   loc=fi.module.loc(node), construct=model.norm(node))
    # helpers that receive a context parameter: every actual argument is the
    # caller's own context or a child created in the call
    eff_calls = 0
    for fi, role in uni.evaluation_time():
        if not fi.module.name.startswith('yaql.standard_library'):
            continue
        env = uni.env(fi)
        for call in model.calls_in(fi.node, shallow=True):
            d = repo.resolve(fi.module, call.func, model.scope_locals(fi))
            tgt = repo.lookup(d) if d else None
            if not isinstance(tgt, model.FuncInfo) or \
                    tgt.key in uni.payload_ov:
                continue
            names = tgt.params()
            for i, a in enumerate(call.args):
                if i < len(names) and names[i] in unimod.CTX_NAMES:
                    eff_calls += 1
                    v = env.ev(a)
                    ok = bool(v.tags) and all(
                        t[0] in ('ctx', 'ctxchild') for t in v.tags)
                    rep.ob('R09c', '%s/passes-context-to[%s]' % (
                        fi.key, tgt.qualname), ok,
                        'context handed to %s is %s, not the call\'s own '
                        'context or a child of it' % (
                            tgt.qualname, sorted(v.tags)),
                        loc=fi.module.loc(call), construct=model.norm(call))
    rep.floor('context write sites', n, 10)
    return n


def check_r09d(repo, rep, uni):
    """No attribute store on nodes, definitions, smart types, engine outside
    construction-time code."""
    n = 0
    # classes every instance of which is made inside one evaluation-time
    # call (a resolution object, a sort key ...): their state is per call
    from sa.rules import c18
    local, _shared = c18.split_stateful(repo, uni,
                                        c18.stateful_classes(repo, uni))
    for fi, role in uni.evaluation_time():
        if fi.module.name not in R09D_MODULES:
            continue
        if role in ('init',):
            continue
        if fi.cls is not None and fi.cls.key in local:
            continue
        env = uni.env(fi)
        for w in effects.writes_in(fi.node):
            if w.kind not in ('attr', 'aug-attr', 'setattr', 'del-attr'):
                continue
            v = env.ev(w.target)
            shared = [t for t in v.tags if t[0] in (
                'self', 'selfattr', 'param', 'derived', 'global', 'hidden',
                'lazy')]
            n += 1
            site = '%s/attribute-store' % fi.key
            if not shared:
                rep.ob('R09d', site, True, 'store on an object built in '
                       'this call', loc=fi.module.loc(w.node),
                       construct=model.norm(w.node), nontrivial=True)
                continue
            val = env.ev(w.value) if w.value is not None else origins.Val()
            percall = [t for t in val.tags | val.c1
                       if t[0] in ('param', 'derived', 'ctx', 'ctxchild',
                                   'lazy', 'lazyres', 'hidden')]
            if all(t[0] == 'self' for t in shared) and not percall:
                rep.ob('R09d', site, True,
                       'idempotent memo: the stored value depends only on '
                       'the object itself', loc=fi.module.loc(w.node),
                       construct=model.norm(w.node))
                continue
            rep.ob('R09d', site, False,
                   'attribute store on a shared object (%s) during '
                   'evaluation; stored value depends on %s: statements, '
                   'definitions and smart types must stay immutable so that '
                   'they can be reused' % (sorted(shared), sorted(percall)
                                           or 'the call'),
                   loc=fi.module.loc(w.node), construct=model.norm(w.node))
    return n


def load_fixture(repo, name):
    here = os.path.dirname(os.path.dirname(os.path.dirname(
        os.path.abspath(__file__))))
    path = os.path.join(here, 'fixtures', name)
    if not os.path.exists(path):
        raise AnalysisError('positive-control fixture missing: ' + name)
    m = model.Module(repo, 'fixtures.' + name[:-3], path)
    return m


def positive_control(repo, rep, uni):
    """A zero-count rule must still be able to fire: the fixture holds three
    payload-shaped functions that write through their argument."""
    m = load_fixture(repo, 'c09_fixture.py')
    funcs = list(m.functions.values())
    from sa import report as repmod
    tmp = repmod.Report('C09-fixture', 'quick')
    repo.modules[m.name] = m
    try:
        feff = Effects(repo, uni)
        check_r09a(repo, tmp, uni, feff, [(f, 'helper') for f in funcs],
                   prefix='fixture:')
    finally:
        del repo.modules[m.name]
    eff = Effects(repo, uni)
    flagged = {v['site'].split(':')[-1].split('/')[0]
               for v in tmp.violations} - {f.name for f in funcs
                                           if f.name.startswith('_')}
    want = {f.name for f in funcs if f.name.startswith('bad_')}
    clean = {f.name for f in funcs if f.name.startswith('ok_')}
    rep.ob('R09a', 'fixtures/c09_fixture.py/positive-control',
           want <= flagged and not (clean & flagged),
           'positive control: expected the rule to flag %s and stay silent '
           'on %s; it flagged %s' % (sorted(want), sorted(clean),
                                     sorted(flagged)))
    return eff


def run(repo, rep):
    rep.rule('R09a', 'NO-IN-PLACE-ON-ARGUMENTS: no mutating operation on a '
             'value whose origin is a non-hidden parameter (or the result '
             'of a user lambda) in payloads, their helpers, converters, '
             'utils; directly or through a callee that writes through its '
             'parameter')
    rep.rule('R09b', 'FINALISER-BUILDS-FRESH: every container branch of '
             'convert_output_data returns a newly constructed object')
    rep.rule('R09c', 'CONTEXT-WRITES-ARE-LOCAL: stores / register_function '
             'on a context target the injected context or a child created '
             'in the call; Statement.evaluate binds only `$`')
    rep.rule('R09d', 'NODES-AND-DEFINITIONS-ARE-IMMUTABLE: no attribute '
             'store on shared objects in evaluation-time core code, except '
             'idempotent memos that depend only on the object itself')
    rep.trusted += ['host-supplied callables (yaqlized methods, delegates, '
                    'predicates) are host code', 'mutating-method catalogue '
                    'in sa/effects.py']
    rep.explanation = (
        'Origin/effect analysis: for every write site (attribute or '
        'subscript store, delete, augmented assignment, mutating method '
        'call, setattr) in evaluation-time code the origin of the written '
        'object is computed (parameter / derived from parameter / lambda '
        'result / fresh / injected context / child context / self); writes '
        'are allowed only on fresh objects and on the call\'s own context.')
    uni = unimod.Universe(repo)
    # the injected context of every payload is a fresh child per call: the
    # premise of R09c (decided by C04's rule R04a, repeated here)
    from sa.rules import c04
    rep.rule('R04a', 'see C04: every payload call runs in '
             'context.create_child_context() created per invocation')
    from sa import resmodel
    resmodel.install(repo, rep)
    resmodel.guarded_specs(repo, rep, 'R04a', c04.check_r04a, repo, rep)
    eff = positive_control(repo, rep, uni)
    scope = r09a_scope(uni)
    nsites = check_r09a(repo, rep, uni, eff, scope)
    check_r09b(repo, rep, uni)
    rep.rule('R09e', 'AUGMENTED-ASSIGNMENTS-ON-OWN-VALUES: `x += y` only on '
             'names holding values made in the call or parameters declared '
             'scalar')
    check_augmented_assignments(repo, rep, uni)
    nctx = check_r09c(repo, rep, uni)
    nattr = check_r09d(repo, rep, uni)
    # objects registered in the context (function objects, their helpers)
    # are part of the context: one that keeps per-call state is a side
    # effect that outlives the evaluation
    from sa.rules import c18
    rep.rule('R18c', 'see C18: classes whose methods store to self after '
             'construction are instantiated per call, never when the '
             'library is registered')
    stateful = c18.stateful_classes(repo, uni)
    local, shared = c18.split_stateful(repo, uni, stateful)
    c18.check_r18c(repo, rep, uni, local, shared)
    rep.count(functions_analysed=len(scope), write_sites=nsites,
              context_write_sites=nctx, core_attribute_stores=nattr,
              overloads=len(uni.reg.overloads))
    rep.floor('evaluation-time functions analysed', len(scope), 330)
    rep.floor('registered overloads', len(uni.reg.overloads), 280)
    rep.floor('write sites examined', nsites, 40)
