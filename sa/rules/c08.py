"""C08 -- iterator limit and memory quota bound every evaluation."""
import ast

from sa import cfg as cfgmod
from sa import consume
from sa import model
from sa import norm
from sa import universe as unimod
from sa.model import AnalysisError

TITLE = 'consuming parameters are limiting; limits/quota on every path'

CONSUMING = {'loop', 'eager', 'lazy', 'lazy-then-eager', 'yieldfrom',
             'membership', 'star', 'next', 'callee-loop', 'callee-eager',
             'escape'}

R08A_EXCEPTIONS = {
    ('yaql.standard_library.system:assert__', 'obj'):
        'memorised, then handed to the user lambda; the functions that '
        'lambda applies declare limiting parameters themselves',
    ('yaql:_setup_context.finalize', 'obj'):
        'handed to convert_output_data, which pulls elements only through '
        'the #iter limiter (R08c)',
}
R08E_EXCEPTIONS = {
    'yaql.language.yaqltypes:DateTime.convert':
        'early return of a datetime (fixed size); other values go through '
        'SmartType.convert',
}
YT = 'yaql.language.yaqltypes'
UT = 'yaql.language.utils'


def element_uses(cons, fi, vararg):
    """Uses of the *elements* of a *args tuple inside the payload body."""
    out = []
    for u in cons.uses(fi, vararg):
        if u.mode == 'loop' and u.stmt is not None:
            names = [t.id for t in ast.walk(u.stmt.target)
                     if isinstance(t, ast.Name)]
            # for i, t in enumerate(args): the element is the last name
            for n in names[-1:]:
                out.extend(cons.uses(fi, n))
    return out


def check_r08a(repo, rep, uni, cons):
    nparams = 0
    nlimiting = 0
    seen = set()
    for ov in uni.reg.overloads:
        for p in ov.params:
            if p.type.hidden or p.type.lazy:
                continue
            if p.type.limiting:
                nlimiting += 1
                continue
            if not p.type.admits_iterator():
                continue
            k = (ov.func.key, p.name)
            if k in seen:
                continue
            seen.add(k)
            nparams += 1
            fi = ov.func
            if p.kind in ('vararg', 'varkw'):
                uses = element_uses(cons, fi, p.name)
                what = 'element of *%s' % p.name
            else:
                uses = cons.uses(fi, p.name)
                what = p.name
            bad = [u for u in uses if u.mode in CONSUMING]
            site = '%s/%s' % (fi.key, p.name)
            if not bad:
                rep.ob('R08a', site, True,
                       'declared %s; body never pulls elements from it' %
                       p.type.text)
                continue
            exc = R08A_EXCEPTIONS.get(k)
            if exc is None and ov.ctx == 'finalizer' and \
                    ov.name == '#finalize' and p.name == 'obj':
                exc = R08A_EXCEPTIONS[('yaql:_setup_context.finalize',
                                       'obj')]
            if exc:
                rep.ob('R08a', site, True, 'reviewed exception: ' + exc)
                continue
            for u in bad:
                rep.ob('R08a', site, False,
                       'parameter `%s` of %s is declared %s, which admits a '
                       'one-shot iterator but does not apply '
                       'yaql.limitIterators, and the body consumes it (%s '
                       '%s): an endless or oversized sequence is pulled '
                       'without bound; declare it yaqltypes.Iterable()/'
                       'Iterator()' % (what, ov.name, p.type.text, u.mode,
                                       u.detail),
                       loc=fi.module.loc(u.node),
                       construct=model.norm(model.enclosing(
                           u.node, ast.stmt) or u.node)[:160])
    rep.floor('limiting parameters in the registry', nlimiting, 60)
    rep.floor('iterator-admitting non-limiting parameters examined',
              nparams, 80)
    return nparams, nlimiting


def lazy_calls(uni, fi):
    """Calls of a lazy parameter (or an element of lazy varargs) in fi."""
    env = uni.env(fi)
    out = []
    for call in model.calls_in(fi.node, shallow=True):
        fv = env.ev(call.func)
        if any(t[0] == 'lazy' for t in fv.tags | fv.c1):
            if isinstance(call.func, ast.Attribute) and call.func.attr in (
                    'append', 'get', 'items'):
                continue
            out.append(call)
    return out


def check_r08b(repo, rep, uni, cons):
    n = 0
    for fi, role in uni.evaluation_time():
        if role not in ('payload', 'nested', 'helper'):
            continue
        if not fi.module.name.startswith('yaql.standard_library'):
            continue
        calls = lazy_calls(uni, fi)
        for call in calls:
            n += 1
            site = '%s/result-of[%s]' % (fi.key, model.norm(call.func))
            par = getattr(call, '_parent', None)
            if isinstance(par, ast.Call) and repo.resolve(
                    fi.module, par.func, model.scope_locals(fi)) == \
                    UT + '.limit_iterable':
                rep.ob('R08b', site, True, 'wrapped by limit_iterable')
                continue
            uses = cons.classify(fi, call, call, 0, set())
            bad = []
            for u in uses:
                if u.mode in ('eager', 'membership', 'star', 'callee-eager',
                              'lazy-then-eager'):
                    bad.append(u)
                elif u.mode == 'loop' and not u.loop_yields and \
                        not u.loop_exits:
                    bad.append(u)
                elif u.mode == 'callee-loop':
                    bad.append(u)
            if not bad:
                rep.ob('R08b', site, True, 'result is not consumed eagerly '
                       '(modes: %s)' % sorted({u.mode for u in uses}),
                       nontrivial=bool(uses))
                continue
            for u in bad:
                rep.ob('R08b', site, False,
                       'the value returned by the user lambda is consumed '
                       'eagerly (%s %s) without passing through '
                       'utils.limit_iterable: a lambda returning an endless '
                       'sequence is pulled without bound' % (u.mode,
                                                             u.detail),
                       loc=fi.module.loc(u.node),
                       construct=model.norm(model.enclosing(
                           u.node, ast.stmt) or u.node)[:160])
    rep.floor('lazy-parameter call sites examined', n, 40)
    return n


def check_r08c(repo, rep, uni):
    mod = repo.module(UT)
    fi = mod.func('convert_output_data')
    params = fi.params()
    if len(params) < 2:
        raise AnalysisError('convert_output_data lost its limiter parameter')
    obj, limit = params[0], params[1]
    n = 0
    for node in ast.walk(fi.node):
        it = None
        if isinstance(node, (ast.For, ast.AsyncFor)):
            it = node.iter
        elif isinstance(node, ast.comprehension):
            it = node.iter
        if it is None:
            continue
        n += 1
        ok = isinstance(it, ast.Call) and isinstance(it.func, ast.Name) and \
            it.func.id == limit
        if not ok and isinstance(it, ast.Name):
            # a local bound once to limit_func(...)
            vals = [s.value for s in model.walk_shallow(fi.node)
                    if isinstance(s, ast.Assign) and any(
                        isinstance(t, ast.Name) and t.id == it.id
                        for t in s.targets)]
            ok = bool(vals) and all(
                isinstance(v, ast.Call) and isinstance(v.func, ast.Name) and
                v.func.id == limit for v in vals)
        rep.ob('R08c', '%s/iteration-source' % fi.key, ok,
               'the finaliser iterates %s directly instead of through the '
               'limiter `%s(...)`: a result level with more than '
               'limitIterators elements (or an endless generator) is '
               'materialised' % (model.norm(it), limit),
               loc=mod.loc(it), construct=model.norm(it))
    rep.floor('finaliser iteration sources', n, 2)
    # every element / key / value drawn from a level is converted
    # recursively -- that recursion is what applies the limiter (and the
    # plain-data conversion) at every depth
    rec_names = {fi.name} | {p for p in params if p == 'rec'}
    # local one-line wrappers `def conv(x): return rec(x, limit, ...)`
    for n2 in ast.walk(fi.node):
        lam = name = None
        if isinstance(n2, ast.FunctionDef) and n2 is not fi.node:
            b = model.strip_docstring(n2.body)
            if len(b) == 1 and isinstance(b[0], ast.Return):
                lam, name, ret = n2, n2.name, b[0].value
        elif isinstance(n2, ast.Assign) and isinstance(
                n2.value, ast.Lambda) and isinstance(
                n2.targets[0], ast.Name):
            lam, name, ret = n2.value, n2.targets[0].id, n2.value.body
        if lam is None or not lam.args.args:
            continue
        p0 = lam.args.args[0].arg
        if isinstance(ret, ast.Call) and isinstance(
                ret.func, ast.Name) and ret.func.id in rec_names and \
                len(ret.args) >= 2 and isinstance(
                ret.args[0], ast.Name) and ret.args[0].id == p0 and \
                isinstance(ret.args[1], ast.Name) and \
                ret.args[1].id == limit:
            rec_names = rec_names | {name}

    def wrapped(name_node):
        p = getattr(name_node, '_parent', None)
        return isinstance(p, ast.Call) and isinstance(
            p.func, ast.Name) and p.func.id in rec_names and p.args and \
            p.args[0] is name_node
    for node in ast.walk(fi.node):
        tgt = body = None
        if isinstance(node, (ast.For, ast.AsyncFor)):
            tgt, body = node.target, node.body
        elif isinstance(node, (ast.GeneratorExp, ast.ListComp, ast.SetComp,
                               ast.DictComp)):
            tgt = node.generators[0].target
            body = [node.elt] if not isinstance(node, ast.DictComp) else [
                node.key, node.value]
        if tgt is None:
            continue
        if not isinstance(node, (ast.For, ast.AsyncFor)):
            # only comprehensions whose elements become the result level:
            # a pure test such as any(pred(t) for t in ...) builds nothing
            par = getattr(node, '_parent', None)
            if isinstance(par, ast.Call) and isinstance(
                    par.func, ast.Name) and par.func.id in (
                        'any', 'all', 'sum', 'len', 'min', 'max'):
                continue
        names = [x.id for x in ast.walk(tgt) if isinstance(x, ast.Name)]
        for nm in names:
            uses = [x for b in body for x in ast.walk(b)
                    if isinstance(x, ast.Name) and x.id == nm and
                    isinstance(x.ctx, ast.Load)]
            ok = bool(uses) and all(wrapped(u) for u in uses)
            rep.ob('R08c', '%s/recursion[%s]' % (fi.key, nm), ok,
                   'the finaliser uses `%s` (an element / key / value of '
                   'the level being converted) without passing it through '
                   'the recursive conversion: collections nested at that '
                   'position are neither limited nor converted' % nm,
                   loc=mod.loc(node), construct=model.norm(node).split(
                       '\n')[0][:120])
    for call in model.calls_in(fi.node):
        if isinstance(call.func, ast.Name) and call.func.id not in \
                rec_names and call.func.id != limit and call.args and \
                isinstance(call.args[0], ast.Call) and isinstance(
                    call.args[0].func, ast.Name) and \
                call.args[0].func.id == limit:
            rep.ob('R08c', '%s/recursion[direct-construction]' % fi.key,
                   False,
                   '%s builds the result level straight from the limiter '
                   'output: its elements are not converted recursively' %
                   model.norm(call), loc=mod.loc(call),
                   construct=model.norm(call))
    # recursion passes the same limiter on
    for call in model.calls_in(fi.node):
        if isinstance(call.func, ast.Name) and call.func.id in (
                'rec', fi.name) and len(call.args) >= 2:
            a = call.args[1]
            rep.ob('R08c', '%s/recursion-keeps-limiter' % fi.key,
                   isinstance(a, ast.Name) and a.id == limit,
                   'recursive conversion is not given the limiter',
                   loc=mod.loc(call), construct=model.norm(call))
    # the registered #finalize hands the #iter delegate over, and #iter's
    # parameter is limiting
    fin = [o for o in uni.reg.overloads if o.ctx == 'finalizer']
    it = [o for o in fin if o.name == '#iter']
    fz = [o for o in fin if o.name == '#finalize']
    ok = bool(it) and all(any(p.type.limiting for p in o.params)
                          for o in it)
    rep.ob('R08c', 'yaql:_setup_context/#iter-is-limiting', ok,
           'the #iter function must declare its parameter '
           'yaqltypes.Iterable() (the limiter of the finaliser)')
    ok = False
    why = 'no #finalize registered'
    for o in fz:
        deleg = [p for p in o.params if p.type.hidden and
                 (p.type.cls or '').endswith('.Delegate') and p.type.args and
                 isinstance(p.type.args[0], ast.Constant) and
                 p.type.args[0].value == '#iter']
        if not deleg:
            why = '#finalize has no Delegate(\'#iter\') parameter'
            continue
        for call in model.calls_in(o.func.node):
            d = repo.resolve(o.func.module, call.func,
                             model.scope_locals(o.func))
            if d == UT + '.convert_output_data' and len(call.args) >= 2 and \
                    isinstance(call.args[1], ast.Name) and \
                    call.args[1].id == deleg[0].name:
                ok = True
        if not ok:
            why = '#finalize does not pass its #iter delegate to ' \
                  'convert_output_data'
    rep.ob('R08c', 'yaql:_setup_context/#finalize-passes-limiter', ok, why)
    # the host interface does the same
    yi = repo.module('yaql.yaql_interface')
    for q, f in yi.functions.items():
        for call in model.calls_in(f.node, shallow=True):
            d = repo.resolve(yi, call.func, model.scope_locals(f))
            if d == UT + '.convert_output_data':
                a = call.args[1] if len(call.args) > 1 else None
                ok = False
                if a is not None:
                    # the limiter expression, locals and one-expression
                    # helpers looked through: <context>('#iter', <engine>)
                    v = norm.inline_simple_calls(
                        repo, yi, norm.subst_locals(f.node, a,
                                                    only_pure=False))
                    ok = isinstance(v, ast.Call) and bool(v.args) and \
                        isinstance(v.args[0], ast.Constant) and \
                        v.args[0].value == '#iter'
                rep.ob('R08c', '%s/limiter' % f.key, ok,
                       'YaqlInterface must finalise through the #iter '
                       'limiter', loc=yi.loc(call),
                       construct=model.norm(call))


def _result_returns(repo, mod, fi, depth=0):
    """[(return node, ok, why)] for every return of a value in fi: the value
    passed through utils.limit_memory_usage on the way, in fi itself or in
    a module-level helper whose result is returned as it is."""
    g = cfgmod.CFG(fi.node)
    out = []
    for r in [n for n in g.nodes if n.kind == 'stmt' and isinstance(
            n.ast, ast.Return) and n.ast.value is not None]:
        v = r.ast.value
        if isinstance(v, ast.Call) and isinstance(v.func, ast.Name) and \
                depth < 3:
            h = mod.functions.get(v.func.id)
            if h is not None and h.parent_func is None:
                sub = _result_returns(repo, mod, h, depth + 1)
                ok = bool(sub) and all(o for _, o, _ in sub)
                out.append((r.ast, ok, 'hands the result of %s on, which '
                            '%s' % (h.name, 'checks it' if ok else
                                    'does not apply the quota on every '
                                    'path')))
                continue
        if not isinstance(v, ast.Name):
            calls = [c for c in model.calls_in(r.ast)]
            out.append((r.ast, not calls,
                        'returns %s without applying the memory quota to '
                        'the result' % model.norm(v)))
            continue
        name = v.id
        quota_nodes = []
        for node in g.nodes:
            for c in cfgmod.node_calls(node):
                d = repo.resolve(mod, c.func, model.scope_locals(fi))
                if d == UT + '.limit_memory_usage' and name in \
                        model.names_loaded(c):
                    quota_nodes.append(node)
        ok = any(g.dominates(q, r) for q in quota_nodes)
        out.append((r.ast, ok,
                    'can return `%s` on a path that does not pass through '
                    'utils.limit_memory_usage(engine, (1, %s))' % (
                        name, name)))
    return out


def check_r08d(repo, rep):
    mod = repo.module('yaql.language.runner')
    fi = mod.func('call')
    res = _result_returns(repo, mod, fi)
    for node, ok, why in res:
        rep.ob('R08d', '%s/return[%s]' % (fi.key, model.norm(
            node.value)[:30]), ok,
            'runner.call %s: a value larger than yaql.memoryQuota is '
            'handed to the caller' % why, loc=mod.loc(node),
            construct=model.norm(node))
    rep.floor('runner.call result returns', len(res), 1)


def _folds_through_convert(m, f):
    """f is a lambda / local def whose result is a `.convert(...)` call."""
    body = None
    if isinstance(f, ast.Lambda):
        body = [f.body]
    elif isinstance(f, ast.Name):
        for x in ast.walk(m.node):
            if isinstance(x, ast.FunctionDef) and x.name == f.id and \
                    x is not m.node:
                body = [r.value for r in model.walk_shallow(x)
                        if isinstance(r, ast.Return)]
    if not body:
        return False
    return all(isinstance(b, ast.Call) and isinstance(
        b.func, ast.Attribute) and b.func.attr == 'convert' for b in body)


def check_r08e(repo, rep):
    """Every non-hidden converter applies the argument quota (reaches
    SmartType.convert) before handing a value on."""
    base = repo.cls(YT + ':SmartType')
    bconv = base.methods.get('convert')
    if bconv is None:
        raise AnalysisError('anchor vanished: SmartType.convert')
    ok = any(repo.resolve(bconv.module, c.func) == UT + '.limit_memory_usage'
             for c in model.calls_in(bconv.node))
    g = cfgmod.CFG(bconv.node)
    dom_ok = False
    for node in g.nodes:
        for c in cfgmod.node_calls(node):
            if repo.resolve(bconv.module, c.func) == \
                    UT + '.limit_memory_usage':
                for r in g.nodes:
                    if isinstance(r.ast, ast.Return):
                        dom_ok = g.dominates(node, r)
    rep.ob('R08e', bconv.key, ok and dom_ok,
           'SmartType.convert must apply utils.limit_memory_usage to the '
           'argument before returning it', loc=bconv.module.loc(bconv.node))
    n = 0
    for ci in repo.subclasses(YT + '.SmartType'):
        if ci is base or repo.is_subclass(ci, YT + '.HiddenParameterType'):
            continue
        m = ci.methods.get('convert')
        if m is None:
            continue
        n += 1
        g = cfgmod.CFG(m.node)
        conv_nodes = []
        for node in g.nodes:
            for c in cfgmod.node_calls(node):
                if isinstance(c.func, ast.Attribute) and \
                        c.func.attr == 'convert':
                    conv_nodes.append(node)
                elif model.norm(c.func) in ('functools.reduce', 'reduce',
                                            'map') and c.args and \
                        _folds_through_convert(m, c.args[0]):
                    # value threaded through every member's convert()
                    conv_nodes.append(node)
        bad = []
        for r in g.nodes:
            if r.kind == 'stmt' and isinstance(r.ast, ast.Return):
                v = r.ast.value
                if v is None or (isinstance(v, ast.Constant) and
                                 v.value is None):
                    continue
                if r in conv_nodes:
                    continue
                if any(g.dominates(cn, r) for cn in conv_nodes):
                    continue
                # `for t in self.types: value = t.convert(...)`: the loop
                # header dominates the return
                in_loop = False
                for cn in conv_nodes:
                    loop = model.enclosing(cn.ast, (ast.For,))
                    while loop is not None:
                        hn = g.node_of(loop)
                        if hn is not None and hn.kind == 'for' and \
                                g.dominates(hn, r):
                            in_loop = True
                        loop = model.enclosing(loop, (ast.For,))
                if not in_loop:
                    bad.append(r)
        site = m.key
        if bad and site in R08E_EXCEPTIONS:
            # only returns guarded by `isinstance(value, datetime.datetime)`
            def guarded(r):
                # the value is known to be a datetime where it is returned
                # (if/else, early-exit and negated spellings alike)
                return norm.literal_polarity(
                    r.ast, m.node, lambda e: isinstance(e, ast.Call) and
                    isinstance(e.func, ast.Name) and
                    e.func.id == 'isinstance' and len(e.args) == 2 and
                    repo.resolve(m.module, e.args[1]) ==
                    'datetime.datetime') is True
            bad = [b for b in bad if not guarded(b)]
            if not bad:
                rep.ob('R08e', site, True, 'reviewed exception: ' +
                       R08E_EXCEPTIONS[site])
                continue
        rep.ob('R08e', site, not bad,
               'converter returns %s on a path that never reaches '
               'SmartType.convert (argument quota not applied)' % (
                   [model.norm(b.ast) for b in bad]),
               loc=m.module.loc(bad[0].ast) if bad else m.module.loc(m.node))
    rep.floor('smart-type converters examined', n, 10)


def _checked_repetition(repo, fi, params):
    """(has multiplications, [(mult node, dominated by a quota estimate that
    mentions both operands)])"""
    g = cfgmod.CFG(fi.node)
    mults = [x for x in model.walk_shallow(fi.node)
             if isinstance(x, ast.BinOp) and isinstance(x.op, ast.Mult)
             and len(model.names_loaded(x) & set(params)) >= 2 and
             not any(isinstance(q, ast.Call) and any(
                 y is x for y in ast.walk(q)) and (repo.resolve(
                     fi.module, q.func, model.scope_locals(fi)) or ''
             ).endswith('limit_memory_usage')
                 for q in model.calls_in(fi.node, shallow=True))]
    out = []
    for mnode in mults:
        ops = model.names_loaded(mnode) & set(params)
        cn = g.node_of(mnode)
        quota = []
        for node in g.nodes:
            for c in cfgmod.node_calls(node):
                d = repo.resolve(fi.module, c.func, model.scope_locals(fi))
                if d == UT + '.limit_memory_usage' and \
                        ops <= model.names_loaded(c):
                    quota.append(node)
        out.append((mnode, cn is not None and any(
            q is not cn and g.dominates(q, cn) for q in quota)))
    return out


def check_r08f(repo, rep, uni):
    """Repetition operators check the quota before allocating."""
    n = 0
    done = set()
    for ov in uni.reg.by_name('#operator_*'):
        fi = ov.func
        if fi.key in done:
            continue
        done.add(fi.key)
        params = [p.name for p in ov.params if not p.type.hidden]
        g = cfgmod.CFG(fi.node)
        # kinds: a sequence/string operand times an integer
        seqish = [p for p in ov.params if not p.type.hidden and (
            (p.type.cls or '').endswith(('.Sequence', '.String')) or
            any(t in ('builtins.str', 'builtins.list', 'builtins.tuple',
                      'collections.abc.Sequence')
                for t in p.type.python_types))]
        if not seqish:
            continue
        mults = [x for x in model.walk_shallow(fi.node)
                 if isinstance(x, ast.BinOp) and isinstance(x.op, ast.Mult)
                 and len(model.names_loaded(x) & set(params)) >= 2]
        delegated = []
        for c in model.calls_in(fi.node, shallow=True):
            d = repo.resolve(fi.module, c.func, model.scope_locals(fi))
            t = repo.lookup(d) if d else None
            if isinstance(t, model.FuncInfo) and t.key in uni.payload_ov \
                    and any(o.name == '#operator_*'
                            for o in uni.payload_ov[t.key]):
                delegated.append(t)
            elif isinstance(t, model.FuncInfo) and \
                    t.key not in uni.payload_ov:
                # a private helper that does the checked repetition
                res = _checked_repetition(repo, t, t.params())
                if res and all(okm for m2, okm in res):
                    delegated.append(t)
        n += 1
        site = fi.key
        if not mults and delegated:
            rep.ob('R08f', site, True, 'delegates to %s' % delegated[0].key)
            continue
        if not mults:
            rep.ob('R08f', site, False, 'sequence repetition overload '
                   'neither multiplies nor delegates to a checked overload',
                   loc=fi.module.loc(fi.node))
            continue
        for mnode in mults:
            ops = model.names_loaded(mnode) & set(params)
            cn = g.node_of(mnode)
            quota = []
            for node in g.nodes:
                for c in cfgmod.node_calls(node):
                    d = repo.resolve(fi.module, c.func,
                                     model.scope_locals(fi))
                    if d == UT + '.limit_memory_usage' and \
                            ops <= model.names_loaded(c):
                        quota.append(node)
            ok = cn is not None and any(
                q is not cn and g.dominates(q, cn) for q in quota)
            rep.ob('R08f', site, ok,
                   '`%s` allocates before (or without) a '
                   'utils.limit_memory_usage estimate that mentions both '
                   'operands: a huge repetition is built and only then '
                   'refused' % model.norm(mnode),
                   loc=fi.module.loc(mnode), construct=model.norm(mnode))
    rep.floor('sequence repetition overloads', n, 4)


def check_r08g(repo, rep):
    yt = repo.module(YT)
    ut = repo.module(UT)
    conv = yt.func('Iterable.convert')
    # every return of a non-null value is utils.limit_iterable(<converted>)
    rets = [r for r in model.walk_shallow(conv.node)
            if isinstance(r, ast.Return)]
    ok = bool(rets)
    for r in rets:
        v = r.value
        leaves = []

        def flat(e):
            if isinstance(e, ast.IfExp):
                flat(e.body)
                flat(e.orelse)
            else:
                leaves.append(e)
        flat(v)
        for leaf in leaves:
            if isinstance(leaf, ast.Constant) and leaf.value is None:
                continue
            if isinstance(leaf, ast.Call) and repo.resolve(
                    yt, leaf.func, model.scope_locals(conv)) == \
                    UT + '.limit_iterable':
                continue
            ok = False
    rep.ob('R08g', conv.key, ok,
           'Iterable.convert must return utils.limit_iterable(value, engine) '
           'for every non-null value: this is what applies '
           'yaql.limitIterators to every declared collection parameter',
           loc=yt.loc(conv.node))
    lim = ut.func('limit_iterable')
    subject = lim.params()[0]

    def too_large(r, f):
        return r.exc is not None and (repo.resolve(
            ut, r.exc.func if isinstance(r.exc, ast.Call) else r.exc,
            model.scope_locals(f)) or '').endswith(
            'CollectionTooLargeException')
    # the counting wrappers limit_iterable returns (nested or module-level
    # generator functions)
    wrappers = []
    for r in model.walk_shallow(lim.node):
        if isinstance(r, ast.Return) and isinstance(
                r.value, ast.Call) and isinstance(r.value.func, ast.Name):
            f = ut.functions.get(lim.qualname + '.' + r.value.func.id) or \
                ut.functions.get(r.value.func.id)
            if f is not None and consume.is_generator(f.node):
                wrappers.append(f)
    gen_ok = bool(wrappers)
    for f in wrappers:
        g = cfgmod.CFG(f.node)
        fine = False
        for loop in [n for n in model.walk_shallow(f.node)
                     if isinstance(n, ast.For)]:
            raises = [n for s2 in loop.body for n in model.walk_shallow(s2)
                      if isinstance(n, ast.Raise) and too_large(n, f)]
            yields = [n for s2 in loop.body for n in model.walk_shallow(s2)
                      if isinstance(n, (ast.Yield, ast.YieldFrom))]
            for y in yields:
                yn = g.node_of(y)
                # the test that guards the raise is evaluated before the
                # element is handed out
                for r in raises:
                    i = model.enclosing(r, ast.If)
                    tn = g.node_of(i.test) if i is not None else None
                    if tn is not None and yn is not None and \
                            g.dominates(tn, yn) and tn is not yn:
                        fine = True
        gen_ok = gen_ok and fine
    rep.ob('R08g', lim.key + '/iterator-branch', gen_ok,
           'limit_iterable\'s counting generator must raise '
           'CollectionTooLargeException from inside its loop, before '
           'yielding the element over the limit', loc=ut.loc(lim.node))
    rep.ob('R08g', lim.key + '/returns-the-wrapper', bool(wrappers),
           'limit_iterable must return the counting wrapper for iterators',
           loc=ut.loc(lim.node))
    # a sized collection is handed back only after its length was tested
    def mentions_len(e):
        return any(isinstance(x, ast.Call) and isinstance(
            x.func, ast.Name) and x.func.id == 'len' and x.args and
            isinstance(x.args[0], ast.Name) and x.args[0].id == subject
            for x in ast.walk(e))
    bare = [r for r in model.walk_shallow(lim.node)
            if isinstance(r, ast.Return) and isinstance(
                r.value, ast.Name) and r.value.id == subject]
    refusals = [r for r in model.walk_shallow(lim.node)
                if isinstance(r, ast.Raise) and too_large(r, lim) and any(
                    mentions_len(e) for e, p in norm.guards(r, lim.node))]
    sized_ok = bool(bare) and bool(refusals) and all(
        any(mentions_len(e) for e, p in norm.guards(r, lim.node))
        for r in bare)
    rep.ob('R08g', lim.key + '/sized-branch', sized_ok,
           'limit_iterable must refuse an oversized sized collection '
           'before returning it', loc=ut.loc(lim.node))


def _quota_by_evaluation(repo, ut, fi):
    """limit_memory_usage applied abstractly to samples whose estimated
    sizes are given: it raises exactly when the running total of count x
    size exceeds the quota, measures every sample when it does not raise,
    and does nothing for a quota <= 0.  None when the function is outside
    the evaluator's fragment."""
    from sa import absint
    if not fi.node.args.vararg or len(fi.params()) != 1:
        return None
    scen = [  # (quota, [(count, size)...], raises?)
        (25, [(1, 10), (1, 10), (1, 10)], True),
        (30, [(1, 10), (1, 10), (1, 10)], False),
        (25, [(1, 0), (1, 0), (1, 40)], True),
        (25, [(1, 40), (1, 0), (1, 0)], True),
        (25, [(1, 0), (1, 40), (1, 0)], True),
        (25, [(3, 10)], True),
        (35, [(3, 10)], False),
        (25, [(1, 10), (2, 10)], True),
        (0, [(1, 100)], False),
        (-1, [(1, 100)], False),
        (1, [], False),
    ]
    for quota, samples, raises in scen:
        # (a question about the kind of a sample -- isinstance(sample, int)
        # -- is answered no in one run and yes in the other: no kind of
        # value may go unmeasured)
        for as_engine, kind_answer in ((False, False), (True, False),
                                       (False, True)):
            vals = [absint.Sym('value%d' % i) for i in range(len(samples))]
            size = {v.name: sz for v, (c, sz) in zip(vals, samples)}
            measured = []

            def oracle(callee, args, kwargs):
                if callee.endswith('getsizeof') and args:
                    measured.append(args[0])
                    if isinstance(args[0], absint.Sym) and \
                            args[0].name in size:
                        return (size[args[0].name],)
                    return (0,)
                if callee == '.get' and len(args) >= 2 and \
                        args[1] == 'yaql.memoryQuota':
                    return (quota,)
                return None

            def inst(value, cls_expr):
                names = [model.norm(x).rsplit('.', 1)[-1] for x in (
                    cls_expr.elts if isinstance(cls_expr, ast.Tuple)
                    else [cls_expr])]
                if isinstance(value, bool):
                    return 'bool' in names or 'int' in names
                if isinstance(value, int):
                    return 'int' in names
                if any(value is v for v in vals):
                    return kind_answer
                return False
            first = absint.Obj('engine', options=absint.Sym('options')) \
                if as_engine else quota
            args = {0: first}
            for i, ((c, sz), v) in enumerate(zip(samples, vals)):
                args[i + 1] = (c, v)
            try:
                out = absint.Interp(repo, ut, oracle, inst).run(
                    fi.node, args)
            except (absint.Unsupported, RecursionError):
                return None
            except absint._Raise:
                out = ('raise', None)
            what = 'quota %d (%s), samples count x size %s%s' % (
                quota, 'from the engine' if as_engine else 'given',
                samples, ' of a kind the function asks about'
                if kind_answer else '')
            if raises and out[0] != 'raise':
                return False, 'with %s the running total exceeds the ' \
                    'quota but no error is raised' % what
            if not raises and out[0] == 'raise':
                return False, 'with %s the total stays within the quota ' \
                    'but an error is raised' % what
            if not raises and quota > 0 and len(
                    {id(m) for m in measured}) < len(samples):
                return False, 'with %s only %d of %d samples are ' \
                    'estimated' % (what, len(measured), len(samples))
    return True, ''


def check_quota_measures_everything(repo, rep):
    """R08h: utils.limit_memory_usage measures every sample it is given:
    inside its loop over the samples neither the size estimate nor the
    quota comparison is skipped for some kinds of value."""
    ut = repo.module(UT)
    fi = ut.func('limit_memory_usage')
    loops = [n for n in model.walk_shallow(fi.node)
             if isinstance(n, (ast.For, ast.While))]
    sized = [c for c in model.calls_in(fi.node) if model.norm(
        c.func) in ('sys.getsizeof', 'getsizeof')]
    ok = bool(loops) and bool(sized)
    why = 'no loop over the samples with a sys.getsizeof estimate'
    for c in sized:
        lp = model.enclosing(c, (ast.For, ast.While))
        if lp is None:
            continue
        inner = norm.guards(c, lp)
        if inner:
            ok = False
            why = 'the size estimate is skipped unless `%s`%s' % (
                model.norm(inner[0][0]), '' if inner[0][1] else
                ' is false')
    raises = [r for r in model.walk_shallow(fi.node)
              if isinstance(r, ast.Raise)]
    for r in raises:
        lp = model.enclosing(r, (ast.For, ast.While))
        if lp is None:
            continue
        inner = [g for g in norm.guards(r, lp)]
        if len(inner) != 1 or not isinstance(inner[0][0], ast.Compare):
            ok = False
            why = 'the quota error depends on more than the comparison ' \
                  'with the quota (%s)' % '; '.join(
                      model.norm(e) for e, p in inner)
    verdict = _quota_by_evaluation(repo, ut, fi)
    if verdict is not None:
        ok, why = verdict
    rep.ob('R08h', fi.key + '/measures-every-sample', ok,
           'limit_memory_usage must estimate and compare every sample: %s '
           '-- values of that kind are never charged against '
           'yaql.memoryQuota' % why, loc=ut.loc(fi.node))


def check_elements_are_not_drained(repo, rep, uni, scope=None):
    """R08i: only *parameters* declared Iterable / Iterator / Sequence are
    wrapped by the limiter; what is found inside them (an element that is
    itself a lazy host iterator) is not.  Reading such an element through an
    eager consumer (tuple(t), list(t), sorted(t), set(t) ...) is therefore
    unbounded: the library reads elements lazily (iter/next/yield from) or
    through a declared parameter / the to_list delegate."""
    n = 0
    if scope is None:
        scope = [fi for fi, role in uni.evaluation_time()
                 if fi.module.name.startswith('yaql.standard_library')]
    for fi in scope:
        env = None
        for c in model.calls_in(fi.node, shallow=True):
            d = repo.resolve(fi.module, c.func, model.scope_locals(fi))
            if d not in consume.EAGER or consume.EAGER[d] == () or \
                    not c.args:
                continue
            idxs = consume.EAGER[d]
            idxs = range(len(c.args)) if idxs is None else idxs
            for i in idxs:
                if i >= len(c.args) or not isinstance(
                        c.args[i], ast.Name):
                    continue
                a = c.args[i]
                env = env or uni.env(fi)
                v = env.ev(a)
                if not v.tags or not all(t[0] in ('derived', 'const')
                                         for t in v.tags) or not any(
                        t[0] == 'derived' for t in v.tags):
                    continue
                # an element of a collection parameter: the loop variable
                # of a loop over it / a subscript of it
                if not _bound_as_element(fi, a.id):
                    continue
                n += 1
                ok = norm.literal_polarity(
                    c, fi.node, lambda e: _sized_test(e, a.id)) is True
                rep.ob('R08i', '%s/%s(%s)' % (fi.key, d.rsplit('.', 1)[-1],
                                              a.id), ok,
                       '`%s` reads a whole element of a collection argument '
                       'at once; elements are not wrapped by the iterator '
                       'limit (only declared parameters are), so a lazy '
                       'host iterator found inside the data is drained '
                       'without any bound' % model.norm(c),
                       loc=fi.module.loc(c), construct=model.norm(c))
    return n


GROWERS = ('append', 'add', 'extend', 'update', 'setdefault', 'insert',
           'appendleft', 'extendleft')


def _grows_own_state(m):
    """Does the method add to a container held on self?"""
    slf = m.params()[0] if m.params() else None
    for x in ast.walk(m.node):
        b = None
        if isinstance(x, ast.Call) and isinstance(
                x.func, ast.Attribute) and x.func.attr in GROWERS:
            b = x.func.value
        elif isinstance(x, ast.Assign):
            for t in x.targets:
                if isinstance(t, ast.Subscript):
                    b = t.value
        if isinstance(b, ast.Attribute) and isinstance(
                b.value, ast.Name) and b.value.id == slf:
            return True
    return False


def check_accumulating_loops(repo, rep, uni):
    """R08j: with only yaql.memoryQuota set a collection argument is not
    bounded in length; a loop over it that grows a local container is bounded
    only if the quota is applied to that container *inside* the loop.  A
    single check after the loop (or on a wrapper object whose sys.getsizeof
    does not grow with its content) comes too late on a long or endless
    source."""
    n = 0
    seen = set()
    for o in uni.reg.overloads:
        fi = o.func
        if fi.key in seen:
            continue
        seen.add(fi.key)
        sources = {p.name for p in o.params if p.type.limiting}
        if not sources:
            continue
        env = None
        for loop in [x for x in model.walk_shallow(fi.node)
                     if isinstance(x, ast.For)]:
            if not (model.names_loaded(loop.iter) & sources):
                continue
            grown = {}
            for x in ast.walk(loop):
                b = None
                if isinstance(x, ast.Call) and isinstance(
                        x.func, ast.Attribute) and x.func.attr in GROWERS:
                    b = x.func.value
                    while isinstance(b, (ast.Attribute, ast.Subscript,
                                         ast.Call)):
                        b = b.func if isinstance(b, ast.Call) else b.value
                elif isinstance(x, ast.Assign):
                    for t in x.targets:
                        if isinstance(t, ast.Subscript):
                            b = t.value
                if isinstance(b, ast.Name) and b.id not in sources:
                    grown.setdefault(b.id, x)
                # builder.put(k, v): a method of a repository class that
                # grows a container the object holds
                if isinstance(x, ast.Call) and isinstance(
                        x.func, ast.Attribute) and isinstance(
                        x.func.value, ast.Name) and \
                        x.func.attr not in GROWERS and \
                        x.func.value.id not in sources:
                    ci = _repo_class_of_local(repo, fi, x.func.value.id)
                    m = ci.methods.get(x.func.attr) if ci is not None \
                        else None
                    if m is not None and _grows_own_state(m):
                        grown.setdefault(x.func.value.id, x)
            shrunk = set()
            for x in ast.walk(loop):
                if isinstance(x, ast.Call) and isinstance(
                        x.func, ast.Attribute) and x.func.attr in (
                        'pop', 'popleft', 'popitem', 'remove', 'clear',
                        'discard') and isinstance(x.func.value, ast.Name):
                    shrunk.add(x.func.value.id)
                elif isinstance(x, ast.Delete):
                    for t in x.targets:
                        if isinstance(t, ast.Subscript) and isinstance(
                                t.value, ast.Name):
                            shrunk.add(t.value.id)
            for name, at in sorted(grown.items()):
                if name in shrunk:
                    continue      # a window / work list, not accumulation
                env = env or uni.env(fi)
                v = env.ev(ast.Name(id=name, ctx=ast.Load()))
                if not any(t[0] == 'fresh' for t in v.tags):
                    continue      # a context, the source itself, ...
                n += 1
                measured = [c for c in ast.walk(loop)
                            if isinstance(c, ast.Call) and (repo.resolve(
                                fi.module, c.func,
                                model.scope_locals(fi)) or '').endswith(
                                'limit_memory_usage') and
                            name in model.names_loaded(c)]
                if not measured:
                    # an object of a class of the repository whose growing
                    # method applies the quota itself
                    ci = _repo_class_of_local(repo, fi, name)
                    meth = at.func.attr if isinstance(
                        at, ast.Call) and isinstance(
                        at.func, ast.Attribute) else None
                    m = ci.methods.get(meth) if ci is not None and meth \
                        else None
                    if m is not None and any(
                            (repo.resolve(m.module, c.func,
                                          model.scope_locals(m)) or ''
                             ).endswith('limit_memory_usage')
                            for c in model.calls_in(m.node)):
                        measured = [at]
                rep.ob('R08j', '%s/%s' % (fi.key, name), bool(measured),
                       '%s grows `%s` once per element of a collection '
                       'argument without applying utils.limit_memory_usage '
                       'to it inside the loop: under yaql.memoryQuota alone '
                       'a long or endless source makes it grow without '
                       'bound' % (fi.qualname, name),
                       loc=fi.module.loc(loop),
                       construct=model.norm(at).split('\n')[0][:100])
    rep.floor('accumulating loops over collection arguments', n, 3)
    return n


def _repo_class_of_local(repo, fi, name):
    for st in ast.walk(fi.node):
        if isinstance(st, ast.Assign) and any(
                isinstance(t, ast.Name) and t.id == name
                for t in st.targets):
            v = st.value
            cands = [v]
            if isinstance(v, ast.IfExp):
                cands = [v.body, v.orelse]
            for c in cands:
                if isinstance(c, ast.Call):
                    d = repo.resolve(fi.module, c.func,
                                     model.scope_locals(fi))
                    tgt = repo.lookup(d) if d else None
                    if isinstance(tgt, model.ClassInfo):
                        return tgt
    return None


def _bound_as_element(fi, name):
    for x in model.walk_shallow(fi.node):
        if isinstance(x, (ast.For, ast.comprehension)) and any(
                isinstance(t, ast.Name) and t.id == name
                for t in ast.walk(x.target)):
            return True
    return False


def _sized_test(e, name):
    """isinstance(name, <sized type>) / is_sequence(name): the element is a
    materialised container."""
    if isinstance(e, ast.Call) and e.args and isinstance(
            e.args[0], ast.Name) and e.args[0].id == name:
        f = model.norm(e.func)
        if f.endswith('is_sequence') or f == 'isinstance' and any(
                k in model.norm(e.args[1]) for k in (
                    'Sequence', 'list', 'tuple', 'str', 'Mapping', 'dict',
                    'Set', 'set')):
            return True
    return None


def run(repo, rep):
    rep.rule('R08j', 'ACCUMULATING-LOOPS-MEASURE-INSIDE: a loop over a '
             'collection argument that grows a local container applies the '
             'memory quota to it inside the loop')
    rep.rule('R08i', 'ELEMENTS-ARE-NOT-DRAINED: no eager consumer is applied '
             'to an element of a collection argument (elements are not '
             'limit-wrapped)')
    rep.rule('R08a', 'LIMITED-CONSUMPTION: a parameter whose declared type '
             'admits a one-shot iterator but is not limiting is never '
             'consumed by the body')
    rep.rule('R08b', 'LAMBDA-RESULTS: a value returned by a user lambda '
             'that is consumed eagerly goes through utils.limit_iterable')
    rep.rule('R08c', 'FINALISER-LIMITS-EVERY-LEVEL: every iteration source '
             'of convert_output_data is the limiter; #finalize passes the '
             '#iter delegate, whose parameter is limiting')
    rep.rule('R08d', 'RESULT-QUOTA: limit_memory_usage dominates every '
             'return of a result in runner.call')
    rep.rule('R08e', 'ARGUMENT-QUOTA: every non-hidden converter reaches '
             'SmartType.convert before returning a value')
    rep.rule('R08f', 'PRE-ALLOCATION: in sequence/string repetition '
             'overloads a quota estimate over both operands dominates the '
             'multiplication')
    rep.rule('R08g', 'LIMITER-IS-THE-LIMITER: Iterable.convert returns '
             'limit_iterable(...); limit_iterable raises inside its loop / '
             'before returning a sized collection')
    rep.trusted += ['arithmetic of the bounds (<= vs <, sys.getsizeof '
                    'estimates) is not decided']
    rep.explanation = (
        'Per registered overload the declared smart type of every parameter '
        'is compared with how the body uses the value: only parameters '
        'declared yaqltypes.Iterable()/Iterator() (whose convert applies '
        'limit_iterable) may be iterated. The limiter plumbing itself '
        '(finaliser, runner.call quota, converter quota, pre-allocation '
        'estimates) is checked by dominance on the statement CFG.')
    uni = unimod.Universe(repo)
    cons = consume.Consumption(repo, uni)
    nparams, nlim = check_r08a(repo, rep, uni, cons)
    nl = check_r08b(repo, rep, uni, cons)
    check_r08c(repo, rep, uni)
    check_r08d(repo, rep)
    check_r08e(repo, rep)
    check_r08f(repo, rep, uni)
    check_r08g(repo, rep)
    rep.rule('R08h', 'QUOTA-MEASURES-EVERYTHING: limit_memory_usage sizes '
             'and compares every sample; no kind of value is exempt')
    check_quota_measures_everything(repo, rep)
    check_accumulating_loops(repo, rep, uni)
    ni = check_elements_are_not_drained(repo, rep, uni)
    # positive control (the rule has no instance on today's tree)
    from sa.rules import c09
    from sa import report as repmod
    fm = c09.load_fixture(repo, 'c08_fixture.py')
    repo.modules[fm.name] = fm
    try:
        tmp = repmod.Report('C08-fixture', 'quick')
        check_elements_are_not_drained(
            repo, tmp, uni, [f for f in fm.functions.values()
                             if f.parent_func is None])
        flagged = {o['site'].split(':')[-1].split('/')[0]
                   for o in tmp.obligations if o['verdict'] != 'ok'}
    finally:
        del repo.modules[fm.name]
    rep.ob('R08i', 'fixtures/c08_fixture.py/positive-control',
           flagged == {'bad_drains_element', 'bad_sorts_element'},
           'positive control: expected the two bad_* functions flagged and '
           'the ok_* ones silent; flagged %s' % sorted(flagged))
    rep.ob('R08i', 'standard-library', True, '%d eager reads of elements, all of sized containers' % ni, nontrivial=True)
    rep.count(overloads=len(uni.reg.overloads), limiting_parameters=nlim,
              nonlimiting_iterator_admitting_parameters=nparams,
              lazy_call_sites=nl)
    rep.floor('registered overloads', len(uni.reg.overloads), 280)
