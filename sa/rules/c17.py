"""C17 -- context trees resolve variables and functions layer by layer
(interface-discipline clauses across the three context classes)."""
import ast

from sa import cfg as cfgmod
from sa import effects
from sa import minieval
from sa import model
from sa import norm
from sa.model import AnalysisError

TITLE = 'normalisation, own-layer, ask_parent gating, exclusivity, merge'

CTX = 'yaql.language.contexts'
CLASSES = ('Context', 'MultiContext', 'LinkedContext')
PARENT_ATTRS = {'parent', '_parent_context'}


def tri(expr, env):
    """Three-valued evaluation (True / False / None=unknown) of a test with
    some names fixed."""
    if isinstance(expr, ast.Name):
        return env.get(expr.id)
    if isinstance(expr, ast.Constant):
        return bool(expr.value)
    if isinstance(expr, ast.UnaryOp) and isinstance(expr.op, ast.Not):
        v = tri(expr.operand, env)
        return None if v is None else not v
    if isinstance(expr, ast.BoolOp):
        vals = [tri(v, env) for v in expr.values]
        if isinstance(expr.op, ast.And):
            if any(v is False for v in vals):
                return False
            return True if all(v is True for v in vals) else None
        if any(v is True for v in vals):
            return True
        return False if all(v is False for v in vals) else None
    return None


def reachable_with(g, env):
    """CFG nodes reachable from entry when the names in env are fixed."""
    seen = {g.entry.id}
    stack = [g.entry]
    while stack:
        n = stack.pop()
        for s, lab in n.succ:
            if n.kind == 'test':
                v = tri(n.ast, env)
                if v is True and lab == 'false':
                    continue
                if v is False and lab == 'true':
                    continue
            if s.id not in seen:
                seen.add(s.id)
                stack.append(s)
    return seen


def uses_parent(node):
    for n in ast.walk(node):
        if isinstance(n, ast.Attribute) and n.attr in PARENT_ATTRS:
            return n
    return None


def parent_derived_names(fi):
    """Locals assigned from <x>.parent (e.g. ctx = self.parent; ctx =
    ctx.parent)."""
    names = set()
    for _ in range(3):
        for s in model.walk_shallow(fi.node):
            if isinstance(s, ast.Assign) and isinstance(
                    s.targets[0], ast.Name):
                v = s.value
                if uses_parent(v) is not None or (
                        model.names_loaded(v) & names):
                    names.add(s.targets[0].id)
    return names


def check_normalise(repo, rep, mod):
    ci = mod.cls('Context')
    norm = ci.methods.get('_normalize_name')
    if norm is None:
        raise AnalysisError('anchor vanished: Context._normalize_name')
    from sa import absint
    keys = {}
    for lit in ('', '$', '$1', 'x', '$x'):
        try:
            keys[lit] = minieval.run_function(norm.node, {
                norm.params()[-1]: lit})
        except minieval.Unsupported:
            # module-level tables, helpers: the full evaluator
            try:
                out = absint.Interp(repo, norm.module).run(
                    norm.node, {norm.params()[-1]: lit})
            except (absint.Unsupported, absint._Raise) as e:
                raise AnalysisError('cannot interpret _normalize_name: %s'
                                    % e)
            if out[0] != 'return' or not isinstance(out[1], str):
                raise AnalysisError('cannot interpret _normalize_name: %r'
                                    % (out,))
            keys[lit] = out[1]
    rep.ob('R17a', norm.key + '/one-variable', keys[''] == keys['$'] ==
           keys['$1'] and keys['x'] == keys['$x'] and keys['x'] != keys['$'],
           '`$`, `$1` and the empty name must normalise to one key and '
           '`x`/`$x` to another; got %s' % keys, loc=mod.loc(norm.node))
    n = 0
    for name, m in ci.methods.items():
        g = None
        for node in model.walk_shallow(m.node):
            key = None
            if isinstance(node, ast.Subscript) and model.norm(
                    node.value) == 'self._data':
                key = node.slice
            elif isinstance(node, ast.Compare) and len(node.ops) == 1 and \
                    isinstance(node.ops[0], (ast.In, ast.NotIn)) and \
                    model.norm(node.comparators[0]) == 'self._data':
                key = node.left
            elif isinstance(node, ast.Call) and isinstance(
                    node.func, ast.Attribute) and model.norm(
                    node.func.value) == 'self._data' and node.func.attr in (
                    'pop', 'get', 'setdefault', '__getitem__',
                    '__contains__', '__delitem__') and node.args:
                key = node.args[0]
            if key is None:
                continue
            n += 1
            ok = _is_normalised(m, key)
            rep.ob('R17a', '%s/data-access' % m.key, ok,
                   'Context._data is accessed with the key `%s`, which is '
                   'not the result of _normalize_name: `$`, `$1` and the '
                   'empty name (or `x` and `$x`) become different '
                   'variables for this operation' % model.norm(key),
                   loc=mod.loc(node), construct=model.norm(node))
    rep.floor('Context._data access sites', n, 5)


def _is_normalised(m, key):
    if isinstance(key, ast.Call) and isinstance(key.func, ast.Attribute) \
            and key.func.attr == '_normalize_name':
        return True
    if isinstance(key, ast.Name):
        g = cfgmod.CFG(m.node)
        use = g.node_of(key)
        if use is None:
            return False
        defs = cfgmod.reaching_defs(g, use, key.id)
        if not defs:
            return False
        for d in defs:
            if d is g.entry:
                return False
            a = d.ast
            if not (isinstance(a, ast.Assign) and isinstance(
                    a.value, ast.Call) and isinstance(
                    a.value.func, ast.Attribute) and
                    a.value.func.attr == '_normalize_name'):
                return False
        return True
    return False


def check_own_layer(repo, rep, mod):
    for cname in CLASSES:
        ci = mod.cls(cname)
        for meth in ('__contains__', 'keys'):
            m = ci.methods.get(meth)
            if m is None:
                rep.ob('R17b', '%s:%s.%s' % (CTX, cname, meth), False,
                       '%s.%s is no longer defined by the class' % (
                           cname, meth))
                continue
            bad = uses_parent(m.node)
            calls_up = [c for c in model.calls_in(m.node)
                        if isinstance(c.func, ast.Attribute) and
                        c.func.attr in ('get_data', 'collect_functions')
                        and not any(k.arg == 'ask_parent' and isinstance(
                            k.value, ast.Constant) and k.value.value is
                            False for k in c.keywords) and not (
                            len(c.args) >= 3 and isinstance(
                                c.args[2], ast.Constant) and
                            c.args[2].value is False)]
            rep.ob('R17b', m.key, bad is None and not calls_up,
                   'membership and key listing must reflect the context\'s '
                   'own layer only; %s.%s reaches the parent chain (%s)' % (
                       cname, meth, model.norm(bad) if bad is not None
                       else (model.norm(calls_up[0]) if calls_up else '')),
                   loc=mod.loc(bad if bad is not None else (
                       calls_up[0] if calls_up else m.node)))


def check_get_data(repo, rep, mod):
    base = mod.cls('ContextBase')
    gi = base.methods.get('__getitem__')
    rets = [r for r in model.walk_shallow(gi.node)
            if isinstance(r, ast.Return)]
    ok = len(rets) == 1 and isinstance(rets[0].value, ast.Call) and \
        model.norm(rets[0].value.func) == 'self.get_data' and \
        len(rets[0].value.args) == 1 and not rets[0].value.keywords
    rep.ob('R17c', gi.key, ok,
           'context[name] must be get_data(name) with the default default '
           '(null) and ask_parent on', loc=mod.loc(gi.node))
    for cname in CLASSES:
        ci = mod.cls(cname)
        m = ci.methods.get('get_data')
        if m is None:
            raise AnalysisError('anchor vanished: %s.get_data' % cname)
        # the walk may have been moved into a helper get_data ends with
        m = norm.inline_tail_calls(repo, m)
        a = m.node.args
        names = [x.arg for x in a.args]
        defaults = dict(zip(names[len(names) - len(a.defaults):],
                            a.defaults))
        sig_ok = 'default' in defaults and isinstance(
            defaults['default'], ast.Constant) and \
            defaults['default'].value is None and 'ask_parent' in defaults \
            and isinstance(defaults['ask_parent'], ast.Constant) and \
            defaults['ask_parent'].value is True
        rep.ob('R17c', m.key + '/signature', sig_ok,
               'get_data(name, default=None, ask_parent=True) expected',
               loc=mod.loc(m.node))
        g = cfgmod.CFG(m.node)
        pnames = parent_derived_names(m)
        parent_calls = []
        for nd in g.nodes:
            for c in cfgmod.node_calls(nd):
                f = c.func
                if isinstance(f, ast.Attribute) and (
                        uses_parent(f.value) is not None or (
                            isinstance(f.value, ast.Name) and
                            f.value.id in pnames)):
                    parent_calls.append((nd, c))
                    continue
                # the parent handed to a helper that does the walk
                for a in list(c.args) + [k.value for k in c.keywords]:
                    if uses_parent(a) is not None or (
                            isinstance(a, ast.Name) and a.id in pnames):
                        d = repo.resolve(mod, f, model.scope_locals(m))
                        if isinstance(repo.lookup(d) if d else None,
                                      model.FuncInfo):
                            parent_calls.append((nd, c))
                            break
        rep.ob('R17c', m.key + '/walks-parents', bool(parent_calls),
               '%s.get_data never consults the parent chain' % cname,
               loc=mod.loc(m.node))
        off = reachable_with(g, {'ask_parent': False})
        for nd, c in parent_calls:
            rep.ob('R17c', m.key + '/ask-parent-gates', nd.id not in off,
                   '%s.get_data consults the parent chain (%s) even when '
                   'ask_parent is false' % (cname, model.norm(c)),
                   loc=mod.loc(c), construct=model.norm(c))
        # the own layer is consulted before any parent
        own = [nd for nd in g.nodes if nd.ast is not None and any(
            isinstance(x, ast.Attribute) and x.attr in (
                '_data', '_context_list', 'linked_context')
            for e in cfgmod.header_expr(nd) for x in ast.walk(e))]
        for nd, c in parent_calls:
            ok = any(g.dominates(o, nd) and o is not nd for o in own)
            rep.ob('R17c', m.key + '/own-layer-first', ok,
                   '%s.get_data reaches the parent chain without having '
                   'looked at its own layer first' % cname, loc=mod.loc(c))
        # what is returned when nothing is found
        on = reachable_with(g, {'ask_parent': True})
        rets = [nd for nd in g.nodes if isinstance(nd.ast, ast.Return)]
        fall = [r for r in rets if isinstance(r.ast.value, ast.Name) and
                r.ast.value.id == 'default']
        weird = [r for r in rets if r.ast.value is None or isinstance(
            r.ast.value, ast.Constant)]
        rep.ob('R17c', m.key + '/missing-is-default', bool(fall) and
               not weird,
               'the value of a variable no layer defines must be the '
               '`default` parameter (null)', loc=mod.loc(m.node))


def _walk_step(body, cursor, excl, assume):
    """Abstractly run one iteration of the layer walk under the assumption
    `excl == assume`: the set of possible values of the cursor afterwards
    ('same', 'parent', 'none', 'other') or 'exit' (break / return)."""
    def truth(test):
        if isinstance(test, ast.Name) and test.id == excl:
            return assume
        if isinstance(test, ast.UnaryOp) and isinstance(test.op, ast.Not):
            t = truth(test.operand)
            return None if t is None else not t
        if isinstance(test, ast.Compare) and len(test.ops) == 1 and \
                isinstance(test.left, ast.Name) and test.left.id == excl \
                and isinstance(test.comparators[0], ast.Constant) and \
                isinstance(test.comparators[0].value, bool):
            v = test.comparators[0].value
            if isinstance(test.ops[0], (ast.Is, ast.Eq)):
                return assume == v
            if isinstance(test.ops[0], (ast.IsNot, ast.NotEq)):
                return assume != v
        return None

    def value(e, cur):
        if isinstance(e, ast.Constant) and e.value is None:
            return {'none'}
        if isinstance(e, ast.Name) and e.id == cursor:
            return cur
        if isinstance(e, ast.Attribute) and e.attr == 'parent' and \
                isinstance(e.value, ast.Name) and e.value.id == cursor:
            return {'parent'} if cur == {'same'} else {'other'}
        if isinstance(e, ast.IfExp):
            t = truth(e.test)
            if t is True:
                return value(e.body, cur)
            if t is False:
                return value(e.orelse, cur)
            return value(e.body, cur) | value(e.orelse, cur)
        if isinstance(e, ast.BoolOp) and len(e.values) == 2:
            # `not excl and p.parent or None` style is too clever: other
            return {'other'}
        return {'other'}

    def block(stmts, cur):
        """-> (cursor values on fall-through, set of exits)"""
        out = set()
        for st in stmts:
            if cur is None:
                break
            if isinstance(st, (ast.Break, ast.Return, ast.Raise)):
                out.add('exit')
                cur = None
                break
            if isinstance(st, ast.Continue):
                out |= cur
                cur = None
                break
            if isinstance(st, ast.Assign) and any(
                    isinstance(t, ast.Name) and t.id == cursor
                    for t in st.targets):
                cur = value(st.value, cur)
                continue
            if isinstance(st, ast.If):
                t = truth(st.test)
                res = []
                if t is not False:
                    res.append(block(st.body, set(cur)))
                if t is not True:
                    res.append(block(st.orelse, set(cur)))
                nxt = set()
                alive = False
                for c2, o2 in res:
                    out |= o2
                    if c2 is not None:
                        nxt |= c2
                        alive = True
                cur = nxt if alive else None
                continue
            if isinstance(st, (ast.For, ast.While, ast.Try, ast.With)):
                if any(isinstance(x, ast.Assign) and any(
                        isinstance(t, ast.Name) and t.id == cursor
                        for t in x.targets) for x in ast.walk(st)):
                    cur = {'other'}
        return cur, out
    cur, out = block(body, {'same'})
    return (cur or set()) | out


def check_collect(repo, rep, mod):
    base = mod.cls('ContextBase')
    m = base.methods.get('collect_functions')
    if m is None:
        raise AnalysisError('anchor vanished: ContextBase.collect_functions')
    _check_walker(repo, rep, mod, m)
    # a subclass that brings its own collect_functions replaces the walk:
    # it is held to the same obligations (layer by layer from itself
    # outward, one query per layer, stop at an exclusive layer)
    for ci in mod.classes.values():
        if ci is base:
            continue
        m2 = ci.methods.get('collect_functions')
        if m2 is not None:
            _check_walker(repo, rep, mod, m2)
    # Context.get_functions reports exclusivity of the name it looked up
    _check_get_functions(repo, rep, mod)


def _keeps_truthy_in_order(m):
    """`return [x for x in <walk> if x]` / list(filter(None, <walk>))."""
    rets = [r.value for r in model.walk_shallow(m.node)
            if isinstance(r, ast.Return) and r.value is not None]
    if len(rets) != 1:
        return False
    v = rets[0]
    if isinstance(v, ast.ListComp) and len(v.generators) == 1:
        g = v.generators[0]
        return isinstance(g.target, ast.Name) and isinstance(
            v.elt, ast.Name) and v.elt.id == g.target.id and len(
            g.ifs) == 1 and isinstance(g.ifs[0], ast.Name) and \
            g.ifs[0].id == g.target.id
    if isinstance(v, ast.Call) and model.norm(v.func) == 'list' and \
            v.args and isinstance(v.args[0], ast.Call) and model.norm(
                v.args[0].func) == 'filter' and isinstance(
                v.args[0].args[0], ast.Constant) and \
            v.args[0].args[0].value is None:
        return True
    return False


def _walk_by_evaluation(repo, mod, m):
    """collect_functions applied abstractly to a chain of three layers
    (each with or without overloads of the name, exclusive or not): the
    layers are asked from the context outward, each once, none beyond the
    first exclusive one, and the non-empty answers come back in that order.
    None when the method is outside the evaluator's fragment."""
    import itertools
    from sa import absint
    ps = m.params()
    if len(ps) < 2:
        return None
    for nonempty in itertools.product((True, False), repeat=3):
        for excl in itertools.product((False, True), repeat=3):
            asked = []
            layers = [absint.Obj('overloads-of-layer-%d' % i, __items__=[
                absint.Sym('overload-%d' % i)] if nonempty[i] else [])
                for i in range(3)]
            for i in range(3):
                if not nonempty[i]:
                    layers[i] = []

            how = []
            filtered = []
            seen_by_filter = []
            holder = [None]

            def oracle(callee, args, kwargs):
                if callee.startswith('get_functions#'):
                    i = int(callee[-1])
                    asked.append(i)
                    how.append((list(args), dict(kwargs)))
                    given = dict(zip(ps[1:4], args))
                    given.update(kwargs)
                    passed = given.get(ps[2]) if len(ps) > 2 else None
                    if passed is not None and pred is not None:
                        # the layer applies the filter while it is asked
                        fd = absint.Sym('a-definition-of-layer-%d' % i)
                        holder[0].invoke(passed, [fd], {})
                        filtered.append(i)
                    elif (passed is None) != (pred is None):
                        filtered.append('filter lost or invented')
                    return ((layers[i], excl[i]),)
                if callee == 'the-predicate':
                    seen_by_filter.append(
                        (args[1] if len(args) > 1 else None))
                    return (True,)
                if callee.startswith('convert#'):
                    return (absint.Sym('name-in-the-convention-of-layer-' +
                                       callee[-1]),)
                return None
            chain = [None, None, None]
            parent = None
            for i in (2, 1, 0):
                conv = absint.Obj(
                    'convention-%d' % i,
                    convert_function_name=absint.Sym('convert#%d' % i),
                    convert_parameter_name=absint.Sym('convert#%d' % i))
                chain[i] = absint.Obj(
                    'layer-%d' % i, parent=parent, convention=conv,
                    _convention=conv,
                    get_functions=absint.Sym('get_functions#%d' % i))
                parent = chain[i]
            flag = nonempty[0] != excl[2]      # both values get their turn
            pred = absint.Obj('predicate', __call__=absint.Sym(
                'the-predicate')) if nonempty[1] != excl[0] else None
            args = {ps[0]: chain[0], ps[1]: 'name'}
            if len(ps) > 3:
                args[ps[2]], args[ps[3]] = pred, flag
            it = absint.Interp(repo, mod, oracle)
            holder[0] = it
            try:
                out = it.run(m.node, args)
                if out[0] != 'return':
                    return None
                got = [it.force(x) for x in it.iterate(out[1])]
            except (absint.Unsupported, absint._Raise, RecursionError,
                    TypeError) as e:
                import os
                if os.environ.get('VERIF_DEBUG'):
                    print('walk not interpretable:', repr(e))
                return None
            stop = next((i for i in range(3) if excl[i]), 2)
            want_asked = list(range(stop + 1))
            want = [layers[i] for i in want_asked if nonempty[i]]
            what = 'layers (nearest first) %s' % ', '.join(
                '%s%s' % ('with overloads' if nonempty[i] else 'empty',
                          ' exclusive' if excl[i] else '')
                for i in range(3))
            if len(ps) > 3:
                for a, k in how:
                    given = dict(zip(ps[1:4], a))
                    given.update(k)
                    if given.get(ps[1]) != 'name' or \
                            given.get(ps[3], False) is not flag:
                        return False, 'a layer is asked with (%s) instead ' \
                            'of the name and use_convention flag the walk ' \
                            'was given (\'name\', %r): each layer spells ' \
                            'the name in its own convention' % (', '.join(
                                '%s=%r' % kv for kv in sorted(
                                    given.items())), flag)
                if 'filter lost or invented' in filtered:
                    return False, 'the caller\'s filter is not handed to ' \
                        'the layers as given'
                if pred is not None and any(
                        c is not chain[i] for c, i in zip(
                            seen_by_filter, filtered)):
                    return False, 'the filter of layer i is told another ' \
                        'layer than the one that is asked'
            if asked != want_asked:
                return False, 'with %s the layers are asked in the order ' \
                    '%s, expected %s (outward, each once, none beyond an ' \
                    'exclusive layer)' % (what, asked, want_asked)
            if len(got) != len(want) or any(
                    a is not b for a, b in zip(got, want)):
                return False, 'with %s the collected layers are %r, ' \
                    'expected %r' % (what, got, want)
    return True, ''


def _check_walker(repo, rep, mod, m):
    verdict = _walk_by_evaluation(repo, mod, m)
    if verdict is not None:
        rep.ob('R17d', m.key + '/exclusive-stops', verdict[0],
               'the walk must go from the context outward, ask each layer '
               'once and stop at an exclusive layer: ' + verdict[1],
               loc=mod.loc(m.node))
        rep.ob('R17d', m.key + '/layers-in-walk-order', verdict[0],
               'non-empty layers must be collected in walk order (nearest '
               'first): ' + verdict[1], loc=mod.loc(m.node))
        return
    loops = [n for n in model.walk_shallow(m.node)
             if isinstance(n, ast.While)]
    walker = m
    via_generator = False
    if not loops and m.cls is not None:
        # the walk may live in a generator method that this one filters
        for c in model.calls_in(m.node):
            if isinstance(c.func, ast.Attribute) and isinstance(
                    c.func.value, ast.Name) and c.func.value.id == \
                    m.params()[0]:
                h = repo.find_method(m.cls, c.func.attr)
                if h is not None and any(
                        isinstance(n, ast.While)
                        for n in model.walk_shallow(h.node)) and any(
                        isinstance(n, ast.Yield)
                        for n in model.walk_shallow(h.node)):
                    walker = h
                    via_generator = True
                    loops = [n for n in model.walk_shallow(h.node)
                             if isinstance(n, ast.While)]
                    break
    ok = len(loops) == 1
    why = 'expected one walk loop (from the context outward, one ' \
          'get_functions per layer)'
    if ok:
        lp = loops[0]
        cursor = None
        for c in ast.walk(lp.test):
            if isinstance(c, ast.Name):
                cursor = c.id
        gets = [c for s in lp.body for c in model.calls_in(s)
                if isinstance(c.func, ast.Attribute) and
                c.func.attr == 'get_functions']
        ok = cursor is not None and len(gets) == 1 and model.norm(
            gets[0].func.value) == cursor
        why = 'each layer must be queried exactly once per step'
        excl = None
        layer = None
        for s in lp.body:
            if isinstance(s, ast.Assign) and isinstance(
                    s.targets[0], ast.Tuple) and s.value is gets[0] if gets \
                    else False:
                names = [x.id for x in s.targets[0].elts
                         if isinstance(x, ast.Name)]
                if len(names) == 2:
                    layer, excl = names
        if ok:
            why = 'the walk must move to .parent exactly when the layer ' \
                  'did not register the name exclusively, and stop when ' \
                  'it did'
            on_excl = _walk_step(lp.body, cursor, excl, True)
            on_open = _walk_step(lp.body, cursor, excl, False)
            ok = excl is not None and on_excl <= {'none', 'exit'} and \
                on_open == {'parent'}
            if not ok:
                why += ' (exclusive layer -> %s, other layer -> %s)' % (
                    sorted(on_excl), sorted(on_open))
        rep.ob('R17d', m.key + '/exclusive-stops', ok, why,
               loc=mod.loc(lp))
        app = [c for s in lp.body for c in model.calls_in(s)
               if isinstance(c.func, ast.Attribute) and
               c.func.attr == 'append']
        if via_generator:
            # the walker yields every layer in walk order; the method
            # keeps the non-empty ones, in that order
            ys = [y for s in lp.body for y in model.walk_shallow(s)
                  if isinstance(y, ast.Yield)]
            ok2 = len(ys) == 1 and layer is not None and \
                ys[0].value is not None and model.norm(
                    ys[0].value) == layer and _keeps_truthy_in_order(m)
        else:
            ok2 = len(app) == 1 and layer is not None and model.norm(
                app[0].args[0]) == layer
            guard = model.enclosing(app[0], ast.If) if app else None
            ok2 = ok2 and guard is not None and model.norm(
                guard.test) == layer
        rep.ob('R17d', m.key + '/layers-in-walk-order', ok2,
               'non-empty layers must be appended in walk order (nearest '
               'first)', loc=mod.loc(lp))
    else:
        rep.ob('R17d', m.key + '/exclusive-stops', False, why,
               loc=mod.loc(m.node))


def _check_get_functions(repo, rep, mod):
    c = mod.cls('Context').methods['get_functions']
    rets = [r for r in model.walk_shallow(c.node)
            if isinstance(r, ast.Return)]
    ok = len(rets) == 1 and isinstance(rets[0].value, ast.Tuple) and \
        len(rets[0].value.elts) == 2 and '_exclusive_funcs' in model.norm(
            rets[0].value.elts[1]) and ' in ' in model.norm(
            rets[0].value.elts[1])
    rep.ob('R17d', c.key + '/reports-exclusivity', ok,
           'Context.get_functions must return (overloads, name in '
           'self._exclusive_funcs)', loc=mod.loc(c.node))
    if ok:
        # exclusivity is a property of the layer and the name only: it
        # must not depend on which overloads survived the caller's
        # predicate (call kind)
        e = rets[0].value.elts[1]
        local = model.local_names_of(c.node) - {c.params()[1]}
        dep = set()
        for nm in model.names_loaded(e):
            if nm in ('self', c.params()[1]):
                continue
            # a local: is it computed from the predicate / the overloads?
            if nm in local:
                dep.add(nm)
        filtered = {t.id for s2 in model.walk_shallow(c.node)
                    if isinstance(s2, ast.Assign) and any(
                        'predicate' in model.norm(s2.value) or
                        'filter' in model.norm(s2.value)
                        for _ in [0]) for t in s2.targets
                    if isinstance(t, ast.Name)}
        bad = dep & filtered
        rep.ob('R17d', c.key + '/exclusivity-independent-of-predicate',
               not bad,
               'whether a layer stops the walk must depend only on the '
               'name having been registered exclusively in it; the flag '
               'depends on %s (the overloads that passed the caller\'s '
               'predicate): a layer that registered the name exclusively '
               'no longer hides outer layers for other call kinds' %
               sorted(bad), loc=mod.loc(e), construct=model.norm(e))
        # ... and it is asked about the very name the overloads are looked
        # up under (after trailing-underscore / convention resolution)
        excl_key = None
        if isinstance(e, ast.Compare) and len(e.ops) == 1 and isinstance(
                e.ops[0], ast.In):
            excl_key = e.left
        look_keys = []
        for x in ast.walk(c.node):
            if isinstance(x, ast.Call) and isinstance(
                    x.func, ast.Attribute) and x.func.attr == 'get' and \
                    '_functions' in model.norm(x.func.value) and x.args:
                look_keys.append(x.args[0])
            elif isinstance(x, ast.Subscript) and '_functions' in \
                    model.norm(x.value) and isinstance(x.ctx, ast.Load):
                look_keys.append(x.slice)
        if excl_key is not None and look_keys:
            k1 = model.norm(norm.subst_locals(c.node, excl_key,
                                              only_pure=False))
            ks = {model.norm(norm.subst_locals(c.node, k, only_pure=False))
                  for k in look_keys}
            rep.ob('R17d', c.key + '/exclusivity-under-the-same-name',
                   ks == {k1},
                   'the overloads are looked up under `%s` but the '
                   'exclusive flag under `%s`: for a spelling that the '
                   'layer resolves to another name (trailing underscore, '
                   'naming convention) an exclusive registration no longer '
                   'stops the walk' % (sorted(ks)[0], k1),
                   loc=mod.loc(e), construct=model.norm(e))


SHRINKERS = ('discard', 'remove', 'pop', 'clear', 'popitem',
             'difference_update', 'intersection_update',
             'symmetric_difference_update')


def check_registration_only_adds(repo, rep, mod):
    """R17j: register_function adds one definition to the layer's table and
    nothing else: whatever was registered in the layer before is still
    there afterwards (overloads of one name accumulate; only
    delete_function removes).  A registration that drops or replaces earlier
    overloads makes what a layer contributes depend on what else was
    registered, and `delete` of the new one does not bring the old one
    back."""
    n = 0
    for ci in mod.classes.values():
        m = ci.methods.get('register_function')
        if m is None:
            continue
        slf = m.params()[0]
        tables = {a.attr for a in ast.walk(m.node)
                  if isinstance(a, ast.Attribute) and isinstance(
                      a.value, ast.Name) and a.value.id == slf and
                  'func' in a.attr}
        if not tables:
            continue
        n += 1

        def from_table(e):
            e = norm.subst_locals(m.node, e, only_pure=False)
            return any(isinstance(x, ast.Attribute) and isinstance(
                x.value, ast.Name) and x.value.id == slf and
                x.attr in tables for x in ast.walk(e))
        bad = []
        for x in ast.walk(m.node):
            if isinstance(x, ast.Call) and isinstance(
                    x.func, ast.Attribute) and x.func.attr in SHRINKERS \
                    and from_table(x.func.value):
                bad.append(x)
            elif isinstance(x, ast.Delete) and any(
                    isinstance(t, ast.Subscript) and from_table(t.value)
                    for t in x.targets):
                bad.append(x)
            elif isinstance(x, ast.Assign) and any(
                    isinstance(t, ast.Subscript) and from_table(t.value)
                    for t in x.targets) and not from_table(x.value) and \
                    not isinstance(x.value, ast.Constant):
                bad.append(x)     # table[name] = {spec}: replaces the set
            elif isinstance(x, ast.AugAssign) and isinstance(
                    x.op, (ast.Sub, ast.BitAnd, ast.BitXor)) and \
                    from_table(x.target):
                bad.append(x)
        rep.ob('R17j', m.key + '/only-adds', not bad,
               '%s.register_function must only add the new definition to '
               'the layer; `%s` removes or replaces definitions registered '
               'earlier' % (ci.node.name, model.norm(bad[0]).split(
                   '\n')[0][:90] if bad else ''),
               loc=mod.loc(bad[0] if bad else m.node),
               construct=model.norm(bad[0])[:120] if bad else '')
    rep.floor('register_function implementations with a table', n, 1)


def check_writes(repo, rep, mod):
    want = {'Context': ('self._data', 'self._functions',
                        'self._exclusive_funcs'),
            'MultiContext': ('self._context_list',),
            'LinkedContext': ('self.linked_context',)}
    for cname in CLASSES:
        ci = mod.cls(cname)
        for meth in ('__setitem__', '__delitem__', 'register_function',
                     'delete_function'):
            m = ci.methods.get(meth)
            if m is None:
                continue
            bad = uses_parent(m.node)
            touched = set()
            for w in effects.writes_in(m.node):
                touched.add(model.norm(norm.subst_locals(m.node, w.target)))
            for c in model.calls_in(m.node):
                if isinstance(c.func, ast.Attribute) and c.func.attr in (
                        'register_function', 'delete_function'):
                    touched.add(model.norm(c.func.value))
            own = any(t.startswith(w) or w in t for t in touched
                      for w in want[cname]) or any(
                model.names_loaded(ast.parse(t, mode='eval')) & {'context'}
                for t in touched if t)
            rep.ob('R17e', m.key, bad is None and (own or not touched),
                   '%s.%s must write into the context\'s own layer (%s); '
                   'it touches %s%s' % (cname, meth, ' / '.join(
                       want[cname]), sorted(touched),
                       ' and reaches the parent chain' if bad is not None
                       else ''), loc=mod.loc(m.node))
    mc = mod.cls('MultiContext')
    ms = mc.methods.get('__setitem__')
    init = mc.methods['__init__']
    attr = _attr_from_param(init, init.params()[1]) or '_context_list'
    first = 'self.%s[0]' % attr
    stores = [w for w in effects.writes_in(ms.node)
              if w.kind in ('subscript', 'aug-subscript')]
    def tgt(w):
        return model.norm(norm.subst_locals(ms.node, w.target))
    others = [w for w in stores if tgt(w) != first]
    ok = any(tgt(w) == first for w in stores) and not others
    rep.ob('R17e', ms.key + '/first-member', ok,
           'a multi-context stores variables into its first member, always '
           '(`%s[name] = value`); it %s' % (
               first, 'also stores into `%s`: an assignment can then '
               'change a member that other contexts share while the first '
               'member -- what `name in mc.first` and compositions over it '
               'see -- stays unset' % model.norm(others[0].target)
               if others else 'does not'),
           loc=mod.loc(others[0].node if others else ms.node),
           construct=model.norm(others[0].node) if others else '')


def check_store_on_all_paths(repo, rep, mod):
    """Every normal path through __setitem__ stores the value into the own
    layer: a binding (also to null) always shadows outer layers."""
    for cname in CLASSES:
        m = mod.cls(cname).methods.get('__setitem__')
        if m is None:
            continue
        g = cfgmod.CFG(m.node)
        val = m.params()[-1]
        stores = []
        for nd in g.nodes:
            a = nd.ast
            if nd.kind == 'stmt' and isinstance(a, ast.Assign) and \
                    isinstance(a.targets[0], ast.Subscript) and \
                    isinstance(a.value, ast.Name) and a.value.id == val:
                stores.append(nd)
        skip = g.reaches_exit_without(g.entry, stores)
        rep.ob('R17e', m.key + '/stores-on-every-path',
               bool(stores) and not skip,
               '%s.__setitem__ has a path that does not store the value: '
               'an assignment (e.g. of null) then fails to shadow a binding '
               'of the same name in an outer layer' % cname,
               loc=mod.loc(m.node))


def check_reads_are_pure(repo, rep, mod):
    """Lookups never write: what a read returns depends on the layers, not
    on which reads happened before."""
    reads = ('get_data', '__getitem__', '__contains__', 'keys',
             'get_functions', 'collect_functions', 'parent', 'convention',
             '__call__')
    n = 0
    for cname in ('ContextBase',) + CLASSES:
        ci = mod.cls(cname)
        for meth in reads:
            m = ci.methods.get(meth)
            if m is None:
                continue
            n += 1
            ws = [w for w in effects.writes_in(m.node)
                  if w.kind != 'aug-name' and (
                      w.root == 'self' or (w.root is None and 'self' in
                                           model.norm(w.target)))]
            rep.ob('R17g', m.key, not ws,
                   '%s.%s is a lookup but writes to the context (%s): '
                   'later lookups can return what an earlier one cached '
                   'instead of the value of the nearest layer that defines '
                   'the name' % (cname, meth, [model.norm(w.node)[:60]
                                               for w in ws]),
                   loc=mod.loc(ws[0].node if ws else m.node))
    rep.floor('context lookup methods', n, 15)


def _attr_from_param(init, pname):
    """self.<attr> = <pname> in __init__ -> attr"""
    for st in model.walk_shallow(init.node):
        if isinstance(st, ast.Assign) and isinstance(
                st.value, ast.Name) and st.value.id == pname:
            for t in st.targets:
                if isinstance(t, ast.Attribute) and isinstance(
                        t.value, ast.Name) and t.value.id == 'self':
                    return t.attr
    return None


def _mentions_self_attr(e, attr):
    return any(isinstance(x, ast.Attribute) and x.attr == attr and
               isinstance(x.value, ast.Name) and x.value.id == 'self'
               for x in ast.walk(e))


def _member_iterations(fnode, attr):
    """Loops / comprehensions / map-filter calls that range over all
    members (self.<attr>)."""
    out = []
    for n in ast.walk(fnode):
        if isinstance(n, ast.For) and _mentions_self_attr(n.iter, attr):
            out.append(n)
        elif isinstance(n, ast.comprehension) and _mentions_self_attr(
                n.iter, attr):
            out.append(n)
        elif isinstance(n, ast.Call) and model.norm(n.func) in (
                'map', 'filter', 'any', 'all', 'itertools.chain',
                'itertools.chain.from_iterable') and any(
                _mentions_self_attr(a, attr) and not isinstance(
                    a, (ast.GeneratorExp, ast.ListComp, ast.Lambda))
                for a in n.args):
            out.append(n)
    return out


def check_marker_for_not_bound(repo, rep, mod):
    """R17i: when a context asks another layer for a variable, "that layer
    does not bind it" must be told apart from every value the variable can
    have -- null included, and the caller's own default included: the
    probing default handed to the inner get_data() is a private marker
    constant (utils.NO_VALUE), and it is that marker the answer is compared
    with.  Probing with None or with the caller's `default` makes a layer
    that binds the variable to null (or to the default) invisible, so an
    outer binding shows through an inner one."""
    n = 0
    cands = [(ci, m) for ci in mod.classes.values()
             for m in [ci.methods.get('get_data')] if m is not None]
    # ... and helpers the walk was moved into
    for f in mod.functions.values():
        if f.name != 'get_data' and f.parent_func is None and any(
                isinstance(c.func, ast.Attribute) and
                c.func.attr == 'get_data' for c in model.calls_in(f.node)):
            cands.append((f.cls, f))
    for ci, m in cands:
        m2 = norm.inline_tail_calls(repo, m) if ci is not None else m
        ps = set(m2.params())
        for c in model.calls_in(m2.node):
            if not (isinstance(c.func, ast.Attribute) and
                    c.func.attr == 'get_data'):
                continue
            if ci is not None and isinstance(c.func.value, ast.Name) and \
                    c.func.value.id == m2.params()[0]:
                continue
            par = getattr(c, '_parent', None)
            # a probe: its answer is tested before it is used
            tested = None
            nm = None
            if isinstance(par, ast.Assign) and len(par.targets) == 1 and \
                    isinstance(par.targets[0], ast.Name):
                nm = par.targets[0].id
                for x in ast.walk(m2.node):
                    if isinstance(x, ast.Compare) and isinstance(
                            x.left, ast.Name) and x.left.id == nm and \
                            len(x.ops) == 1 and isinstance(
                                x.ops[0], (ast.Is, ast.IsNot, ast.Eq,
                                           ast.NotEq)):
                        tested = x
            if tested is None:
                continue      # `return parent.get_data(name, default)`
            n += 1
            kw = {k.arg: k.value for k in c.keywords}
            probe = c.args[1] if len(c.args) > 1 else kw.get('default')
            marker = tested.comparators[0]

            def is_marker(e):
                if e is None:
                    return False
                if isinstance(e, ast.Constant):
                    return False
                if isinstance(e, ast.Name) and e.id in ps:
                    return False
                d = repo.resolve(mod, e, model.scope_locals(m))
                return bool(d) and d.rsplit('.', 1)[-1].isupper()
            ok = is_marker(probe) and is_marker(marker) and \
                model.norm(probe) == model.norm(marker)
            rep.ob('R17i', '%s/probe[%s]' % (m.key, model.norm(
                c.func.value)), ok,
                '%s.get_data probes another layer with the default `%s` '
                'and compares the answer with `%s`: "not bound there" must '
                'be a private marker (utils.NO_VALUE) on both sides, '
                'otherwise a layer that binds the variable to null / to the '
                'caller\'s default is skipped and an outer binding shows '
                'through' % (ci.node.name if ci is not None else m.name, model.norm(probe) if probe
                             is not None else 'None (implicit)',
                             model.norm(marker)),
                loc=mod.loc(c), construct=model.norm(par).split('\n')[0])
    rep.floor('layer probes in get_data', n, 2)


def check_child_of_self(repo, rep, mod):
    """R17h: create_child_context() returns a context constructed *on the
    context itself*: its parent chain starts with the object it was asked
    of, so everything visible there (own layer, parents, linked / merged
    members) is visible in the child and later writes to it are seen."""
    n = 0
    done = set()
    for ci in mod.classes.values():
        # the implementation each context class ends up with (its own or
        # an inherited one)
        m = repo.find_method(ci, 'create_child_context')
        if m is None:
            continue
        if m.key in done:
            n += 1
            continue
        done.add(m.key)
        ci = m.cls
        selfn = m.params()[0]
        rets = [r for r in model.walk_shallow(m.node)
                if isinstance(r, ast.Return)]
        if not rets and ci.node.name == 'ContextBase' and any(
                isinstance(x, ast.Raise) for x in ast.walk(m.node)):
            continue
        n += 1
        bad = []
        for r in rets:
            v = norm.subst_locals(m.node, r.value, only_pure=False) \
                if r.value is not None else None
            ok = isinstance(v, ast.Call) and (
                (v.args and isinstance(v.args[0], ast.Name) and
                 v.args[0].id == selfn) or any(
                    isinstance(k.value, ast.Name) and k.value.id == selfn
                    for k in v.keywords)) and not (
                isinstance(v.func, ast.Attribute) and
                v.func.attr == 'create_child_context')
            if not ok:
                bad.append(r)
        rep.ob('R17h', m.key, bool(rets) and not bad,
               '%s.create_child_context must return a context built on the '
               'context itself (Cls(self)); `%s` gives the child another '
               'parent chain, so names and functions visible in this '
               'context are not visible in its child' % (
                   ci.node.name, model.norm(bad[0]) if bad else 'no return'),
               loc=mod.loc(bad[0] if bad else m.node),
               construct=model.norm(bad[0]) if bad else '')
    rep.floor('create_child_context implementations', n, 3)


def _multi_parent_by_evaluation(repo, mod, ci, init, plist, attr):
    """Construct a multi-context abstractly from 1..3 members, each with or
    without a parent, and look at the parent it ends up with: none when no
    member has one, the parent itself when one has, and a multi-context of
    all the parents, in member order, when several have.  None when the
    constructor is outside the evaluator's fragment (the caller then falls
    back to the shape of the code)."""
    import itertools
    from sa import absint
    slf_name = init.params()[0]
    for k in (1, 2, 3):
        for pattern in itertools.product((False, True), repeat=k):
            conv = absint.Sym('convention')
            parents = [absint.Obj('P%d' % i, parent=None, convention=conv)
                       if has else None for i, has in enumerate(pattern)]
            members = tuple(absint.Obj('M%d' % i, parent=p, convention=conv)
                            for i, p in enumerate(parents))
            slf = absint.Obj('self', __class__=ci)
            it = absint.Interp(repo, mod)
            try:
                out = it.run(init.node, {slf_name: slf, plist: members})
                if out[0] != 'return':
                    return False
                got = it.ev(ast.parse('%s.parent' % slf_name,
                                      mode='eval').body, {slf_name: slf})
                want = [p for p in parents if p is not None]
                if not want:
                    ok = got is None
                elif len(want) == 1:
                    ok = got is want[0]
                else:
                    ok = isinstance(got, absint.Obj) and got.attrs.get(
                        '__class__') is ci
                    if ok:
                        inner = got.attrs.get(attr)
                        ok = isinstance(inner, (tuple, list)) and len(
                            inner) == len(want) and all(
                            a is b for a, b in zip(inner, want))
                if not ok:
                    return False
            except (absint.Unsupported, absint._Raise, RecursionError):
                return None
    return True


def _linked_chain_by_evaluation(repo, mod, lc):
    """LinkedContext(host, linked) constructed abstractly for linked chains
    of one to three layers, with every way in which an ancestor of the
    linked context can be the very object that is the host or one of its
    ancestors: walking .parent from the result must show the linked layers
    one by one, nearest first, and then the host -- whatever is shared.
    None when the constructor is outside the evaluator's fragment."""
    from sa import absint
    for depth in (1, 2, 3):
        for share in [None] + [(i, j) for i in range(1, depth)
                               for j in range(2)]:
            conv = absint.Sym('convention')
            hosts = [None, None]
            hosts[1] = absint.Obj('host-parent', parent=None,
                                  convention=conv)
            hosts[0] = absint.Obj('host', parent=hosts[1], convention=conv)
            linked = [None] * depth
            parent = None
            for i in range(depth - 1, -1, -1):
                if share is not None and share[0] == i:
                    linked[i] = hosts[share[1]]
                    # what is above a shared layer is the host's chain
                else:
                    linked[i] = absint.Obj('linked-%d' % i, parent=parent,
                                           convention=conv)
                parent = linked[i]
            # layers of the linked chain from the linked context outward
            want = []
            cur = linked[0]
            while cur is not None:
                want.append(cur)
                cur = cur.attrs.get('parent')
            it = absint.Interp(repo, mod)
            try:
                res = it.invoke(('global', lc.dotted),
                                [hosts[0], linked[0]], {})
                got = []
                cur = res
                steps = 0
                while isinstance(cur, absint.Obj) and cur.attrs.get(
                        '__class__') is lc and steps < 10:
                    got.append(it.ev(ast.parse('x.linked_context',
                                               mode='eval').body,
                                     {'x': cur}))
                    cur = it.ev(ast.parse('x.parent', mode='eval').body,
                                {'x': cur})
                    steps += 1
            except (absint.Unsupported, absint._Raise, RecursionError,
                    TypeError):
                return None
            what = 'a linked chain of %d layer(s)%s' % (
                depth, '' if share is None else
                ' whose layer %d is the host%s' % (
                    share[0], '' if share[1] == 0 else '\'s parent'))
            if len(got) != len(want) or any(
                    a is not b for a, b in zip(got, want)):
                return False, 'for %s the result shows the layers %r ' \
                    'before the host chain, expected %r' % (what, got, want)
            if cur is not hosts[0]:
                return False, 'for %s the linked layers are followed by ' \
                    '%r, not by the host' % (what, cur)
    return True, ''


def check_multi(repo, rep, mod):
    ci = mod.cls('MultiContext')
    init = ci.methods['__init__']
    plist = init.params()[1] if len(init.params()) > 1 else None
    attr = _attr_from_param(init, plist) if plist else None
    if attr is None:
        raise AnalysisError('anchor vanished: the member list attribute of '
                            'MultiContext')
    gf = ci.methods['get_functions']
    its = _member_iterations(gf.node, attr)
    ok = bool(its)
    why = 'does not range over all members'
    if ok:
        early = [x for it in its if isinstance(it, ast.For)
                 for st in it.body for x in ast.walk(st)
                 if isinstance(x, (ast.Return, ast.Break))]
        asks = [c for c in model.calls_in(gf.node)
                if isinstance(c.func, ast.Attribute) and
                c.func.attr == 'get_functions']
        merges = [c for c in model.calls_in(gf.node)
                  if isinstance(c.func, ast.Attribute) and
                  c.func.attr in ('update', 'union', 'add', 'extend')] + [
            x for x in ast.walk(gf.node) if isinstance(x, ast.AugAssign)
            and isinstance(x.op, ast.BitOr)] + [
            x for x in ast.walk(gf.node)
            if isinstance(x, (ast.SetComp,))] + [
            c for c in model.calls_in(gf.node)
            if model.norm(c.func) in ('itertools.chain',
                                      'itertools.chain.from_iterable')]
        ors = [x for x in ast.walk(gf.node)
               if (isinstance(x, ast.Assign) and isinstance(
                   x.value, ast.Constant) and x.value.value is True) or
               (isinstance(x, ast.BoolOp) and isinstance(x.op, ast.Or)) or
               (isinstance(x, ast.AugAssign) and isinstance(
                   x.op, ast.BitOr)) or
               (isinstance(x, ast.Call) and model.norm(x.func) == 'any')]
        if early:
            ok, why = False, 'leaves the loop over the members early ' \
                '(%s)' % model.norm(early[0])
        elif not asks:
            ok, why = False, 'does not ask the members'
        elif not merges:
            ok, why = False, 'does not merge the members\' overloads'
        elif not ors:
            ok, why = False, 'does not OR the members\' exclusivity'
    rep.ob('R17f', gf.key, ok,
           'MultiContext.get_functions must union the overloads of ALL '
           'members and OR their exclusivity; it %s' % why,
           loc=mod.loc(gf.node))
    for meth, what in (('get_data', 'look into every member, in order'),
                       ('__contains__', 'consider every member'),
                       ('keys', 'consider every member'),
                       ('delete_function', 'consider every member')):
        m = ci.methods.get(meth)
        if m is None:
            raise AnalysisError('anchor vanished: MultiContext.' + meth)
        its = _member_iterations(m.node, attr)
        ok = bool(its)
        if meth == 'get_data' and ok:
            # in order: the iteration ranges over the list itself
            it = its[0]
            src = it.iter if isinstance(it, (ast.For, ast.comprehension)) \
                else None
            ok = src is None or (isinstance(src, ast.Attribute) and
                                 src.attr == attr)
        rep.ob('R17f', m.key, ok, 'MultiContext.%s must %s' % (meth, what),
               loc=mod.loc(m.node))
    # __init__: the parent is built from the parents of ALL members
    names = {plist}
    for st in model.walk_shallow(init.node):
        if isinstance(st, ast.Assign) and isinstance(
                st.targets[0], ast.Name) and any(
                isinstance(x, ast.Name) and x.id in names
                for x in ast.walk(st.value)):
            names.add(st.targets[0].id)
    all_parents = False
    for n in ast.walk(init.node):
        src = None
        body = None
        if isinstance(n, (ast.GeneratorExp, ast.ListComp, ast.SetComp)):
            src, body = n.generators[0].iter, n
        elif isinstance(n, ast.Call) and model.norm(n.func) in (
                'map', 'filter') and len(n.args) == 2:
            src, body = n.args[1], n.args[0]
        if src is None:
            continue
        if isinstance(src, ast.Name) and src.id == plist and any(
                isinstance(x, ast.Attribute) and x.attr == 'parent'
                for x in ast.walk(body)):
            all_parents = True
    own = [c for c in model.calls_in(init.node)
           if isinstance(c.func, ast.Name) and c.func.id == ci.node.name]
    verdict = _multi_parent_by_evaluation(repo, mod, ci, init, plist, attr)
    if verdict is not None:
        all_parents, own = verdict, [True]
    rep.ob('R17f', init.key, all_parents and bool(own),
           'the parent of a multi-context is built from the parents of '
           'ALL members (a MultiContext of parents when there are '
           'several)', loc=mod.loc(init.node))
    # LinkedContext: proxy to the linked context, own parent chain rebuilt
    lc = mod.cls('LinkedContext')
    verdict = _linked_chain_by_evaluation(repo, mod, lc)
    if verdict is not None:
        rep.ob('R17f', lc.key + '/linked-layers-then-host', verdict[0],
               'a linked context shows every layer of the linked chain, '
               'nearest first, and then the host chain: ' + verdict[1] +
               ' -- a layer both chains share is otherwise seen after the '
               'host\'s own layers instead of before them',
               loc=mod.loc(lc.node))
    init = lc.methods['__init__']
    ps = init.params()
    p_parent, p_linked = ps[1], ps[2]
    lattr = _attr_from_param(init, p_linked)
    if lattr is None:
        raise AnalysisError('anchor vanished: the linked-context attribute '
                            'of LinkedContext')
    ok = False
    for c in model.calls_in(init.node):
        if isinstance(c.func, ast.Name) and c.func.id == lc.node.name:
            has_parent = any(isinstance(a, ast.Name) and a.id == p_parent
                             for a in c.args)
            has_anc = any(isinstance(a, ast.Attribute) and
                          a.attr == 'parent' and isinstance(
                              a.value, ast.Name) and a.value.id == p_linked
                          for a in c.args)
            pol = norm.literal_polarity(
                c, init.node, lambda e: isinstance(e, ast.Attribute) and
                e.attr == 'parent' and isinstance(e.value, ast.Name) and
                e.value.id == p_linked)
            if has_parent and has_anc and pol is True:
                ok = True
    rep.ob('R17f', init.key, ok,
           'a linked context\'s parent chain must be the linked context\'s '
           'ancestors (wrapped, when it has any) followed by the given '
           'parent', loc=mod.loc(init.node))
    for meth in ('get_functions', 'keys', '__contains__'):
        m = lc.methods.get(meth)
        if m is None:
            raise AnalysisError('anchor vanished: LinkedContext.' + meth)
        rep.ob('R17f', m.key, _mentions_self_attr(m.node, lattr),
               'LinkedContext.%s must proxy to the linked context' % meth,
               loc=mod.loc(m.node))


def run(repo, rep):
    rep.rule('R17a', 'NORMALISE-EVERYWHERE: every access to Context._data '
             'uses a key produced by _normalize_name, which maps `$`, `$1` '
             'and the empty name to one key')
    rep.rule('R17b', 'OWN-LAYER-ONLY: __contains__ and keys never reach '
             'the parent chain')
    rep.rule('R17c', 'ASK-PARENT-GATES: in get_data the parent chain is '
             'unreachable when ask_parent is false, the own layer is '
             'consulted first, the fall-through value is `default` (None)')
    rep.rule('R17d', 'EXCLUSIVE-STOPS: collect_functions queries each '
             'layer once, moves to .parent only when the layer was not '
             'exclusive, appends non-empty layers in walk order')
    rep.rule('R17e', 'WRITES-GO-TO-THE-OWN-LAYER')
    rep.rule('R17f', 'MULTI IS A MERGE / LINKED IS A PROXY')
    rep.rule('R17i', 'NOT-BOUND-IS-A-MARKER: a layer is probed with, and its '
             'answer compared with, a private marker constant -- never None '
             'or the caller\'s default')
    rep.rule('R17h', 'CHILD-OF-SELF: create_child_context() of every '
             'context class returns a context constructed on the context '
             'itself')
    rep.rule('R17g', 'LOOKUPS-ARE-PURE: get_data, __contains__, keys, '
             'get_functions, collect_functions never write to the context')
    rep.explanation = (
        'Necessary interface-discipline clauses of the three context '
        'classes, decided on their ASTs/CFGs (key normalisation by def-use, '
        'ask_parent gating by pruning the CFG with ask_parent fixed to '
        'false, layer walk shape). Equivalence with a flattened-layers '
        'model over operation histories is not decided.')
    mod = repo.module(CTX)
    check_normalise(repo, rep, mod)
    check_own_layer(repo, rep, mod)
    check_get_data(repo, rep, mod)
    check_collect(repo, rep, mod)
    check_writes(repo, rep, mod)
    rep.rule('R17j', 'REGISTRATION-ONLY-ADDS: register_function removes or '
             'replaces nothing that was registered in the layer before')
    check_registration_only_adds(repo, rep, mod)
    check_store_on_all_paths(repo, rep, mod)
    check_reads_are_pure(repo, rep, mod)
    check_multi(repo, rep, mod)
    check_child_of_self(repo, rep, mod)
    check_marker_for_not_bound(repo, rep, mod)
    rep.count(context_classes=len(CLASSES))
