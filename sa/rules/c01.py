"""C01 -- a shared engine parses every text as if it were alone.

Sufficient structural condition: no mutable location is shared between two
parses of one engine.
"""
import ast
import os

from sa import cfg as cfgmod
from sa import effects
from sa import model
from sa.model import AnalysisError

TITLE = 'no shared mutable state on the parse path'

FRESH_LEXER_CALLS = {'clone'}          # <lexer>.clone()
FRESH_LEXER_FUNCS = {'ply.lex.lex'}    # lex.lex(...)
LOCK_TYPES = {'threading.Lock', 'threading.RLock', '_thread.allocate_lock'}


# ---------------------------------------------------------------------------
def parse_path_functions(repo):
    """(FuncInfo, role) for every function that runs inside a parse call.
    role: token | grammar | helper | engine | init"""
    out = []
    lexm = repo.module('yaql.language.lexer')
    parm = repo.module('yaql.language.parser')
    facm = repo.module('yaql.language.factory')
    for q, fi in lexm.functions.items():
        if fi.name == '__init__':
            continue
        if fi.is_method:
            if fi.name.startswith('t_'):
                out.append((fi, 'token'))
            continue
        out.append((fi, 'helper'))
    for q, fi in parm.functions.items():
        if fi.name.startswith('p_'):
            out.append((fi, 'grammar'))
        elif fi.parent_func is not None and fi.parent_func.name.startswith(
                'p_'):
            out.append((fi, 'helper'))
    eng = facm.classes.get('YaqlEngine')
    if eng is None:
        raise AnalysisError('anchor vanished: factory.YaqlEngine')
    for name, fi in eng.methods.items():
        if name == '__init__':
            continue
        out.append((fi, 'engine'))
    # helpers and constructors reached from those by direct repo calls
    seen = {fi.key for fi, _ in out}
    work = [fi for fi, _ in out]
    depth = {fi.key: 0 for fi in work}
    while work:
        fi = work.pop()
        if depth[fi.key] >= 3:
            continue
        for call in model.calls_in(fi.node, shallow=True):
            d = repo.resolve(fi.module, call.func, model.scope_locals(fi))
            tgt = repo.lookup(d) if d else None
            cands = []
            f = call.func
            if tgt is None and isinstance(f, ast.Attribute) and isinstance(
                    f.value, ast.Name) and f.value.id in (
                        'self', 'this', 'cls') and fi.cls is not None:
                # a method of the same rules object
                m = repo.find_method(fi.cls, f.attr)
                if m is not None:
                    cands.append((m, 'helper'))
            if isinstance(tgt, model.FuncInfo):
                cands.append((tgt, 'helper'))
            elif isinstance(tgt, model.ClassInfo):
                for c in repo.mro(tgt):
                    if isinstance(c, model.ClassInfo) and \
                            '__init__' in c.methods:
                        cands.append((c.methods['__init__'], 'init'))
            for t, role in cands:
                if t.key in seen:
                    continue
                if t.module.name.startswith('yaql.standard_library') or \
                        t.module.name == 'yaql':
                    continue
                seen.add(t.key)
                depth[t.key] = depth[fi.key] + 1
                out.append((t, role))
                work.append(t)
    return out


def per_call_params(fi, role):
    a = fi.node.args
    pos = [x.arg for x in a.posonlyargs + a.args]
    if role in ('token', 'grammar'):
        # ply calls f(t) / f(p); anything before it is the bound rules object
        return set(pos[-1:])
    if role == 'init':
        return set(pos)      # `self` is the object under construction
    shared = set()
    if fi.is_method and not any(
            isinstance(d, ast.Name) and d.id == 'staticmethod'
            for d in fi.node.decorator_list):
        shared = set(pos[:1])
    names = set(pos) - shared
    if a.vararg:
        names.add(a.vararg.arg)
    if a.kwarg:
        names.add(a.kwarg.arg)
    names.update(x.arg for x in a.kwonlyargs)
    return names


def classify_local(fi, name, percall, depth=0):
    """fresh | percall | shared:<why> for a local name, from its
    assignments (flow-insensitive, conservative)."""
    if depth > 4:
        return 'shared:alias-depth'
    verdict = None
    for n in model.walk_shallow(fi.node):
        vals = []
        if isinstance(n, ast.Assign):
            for t in n.targets:
                for tt in effects._flatten_target(t):
                    if isinstance(tt, ast.Name) and tt.id == name:
                        vals.append(n.value)
        elif isinstance(n, (ast.For, ast.comprehension)):
            for tt in effects._flatten_target(n.target):
                if isinstance(tt, ast.Name) and tt.id == name:
                    vals.append(n.iter)
        elif isinstance(n, ast.withitem) and n.optional_vars is not None:
            for tt in effects._flatten_target(n.optional_vars):
                if isinstance(tt, ast.Name) and tt.id == name:
                    vals.append(n.context_expr)
        for v in vals:
            r = origin_of(fi, v, percall, depth + 1)
            if r.startswith('shared'):
                return r
            if verdict is None or r == 'percall':
                verdict = r
    return verdict or 'fresh'


def origin_of(fi, expr, percall, depth=0):
    if isinstance(expr, (ast.Constant, ast.List, ast.Dict, ast.Set,
                         ast.Tuple, ast.ListComp, ast.DictComp, ast.SetComp,
                         ast.GeneratorExp, ast.JoinedStr, ast.BinOp,
                         ast.Compare, ast.BoolOp, ast.UnaryOp, ast.Lambda)):
        return 'fresh'
    if isinstance(expr, ast.IfExp):
        a = origin_of(fi, expr.body, percall, depth)
        b = origin_of(fi, expr.orelse, percall, depth)
        for r in (a, b):
            if r.startswith('shared'):
                return r
        return 'percall' if 'percall' in (a, b) else 'fresh'
    if isinstance(expr, ast.Call):
        # the result of a call is a new value unless it is an accessor on a
        # shared object (x.get(k), x.setdefault(k, ...))
        f = expr.func
        if isinstance(f, ast.Attribute) and f.attr in (
                'get', 'setdefault', '__getitem__', 'pop'):
            return origin_of(fi, f.value, percall, depth)
        return 'fresh'
    root, chain = effects.root_of(expr)
    if root is None:
        return 'fresh'
    if root in percall:
        return 'percall'
    local = model.local_names_of(fi.node)
    if root in local:
        a = fi.node.args
        params = {x.arg for x in a.posonlyargs + a.args + a.kwonlyargs}
        if root in params:
            return 'shared:parameter %s (the bound rules/engine object)' % \
                root
        return classify_local(fi, root, percall, depth)
    # closure variable of an enclosing function, or module global
    f = fi.parent_func
    while f is not None:
        if root in model.local_names_of(f.node):
            return 'shared:closure variable %s of %s' % (root, f.qualname)
        f = f.parent_func
    if root in fi.module.toplevel or root in fi.module.imports:
        return 'shared:module global %s' % root
    return 'fresh'


def check_stateless(repo, rep):
    funcs = parse_path_functions(repo)
    n_tok = sum(1 for f, r in funcs if r == 'token')
    n_gram = sum(1 for f, r in funcs if r == 'grammar')
    rep.floor('token actions on the parse path', n_tok, 8)
    rep.floor('grammar actions on the parse path', n_gram, 16)
    rep.count(parse_path_functions=len(funcs), token_actions=n_tok,
              grammar_actions=n_gram)
    for fi, role in funcs:
        percall = per_call_params(fi, role)
        ws = effects.writes_in(fi.node)
        site = fi.key
        if not ws:
            rep.ob('R01b', site, True, 'no store at all', nontrivial=False)
            continue
        for w in ws:
            construct = model.norm(w.node)
            if w.kind in ('global', 'nonlocal'):
                rep.ob('R01b', site, False,
                       '%s rebinding of %s on the parse path' % (
                           w.kind, model.norm(w.target)),
                       loc=fi.module.loc(w.node), construct=construct)
                continue
            if w.kind == 'aug-name':
                continue
            if w.root is None:
                o = origin_of(fi, w.target, percall)
            elif w.root in percall:
                o = 'percall'
            else:
                o = origin_of(fi, ast.Name(id=w.root, ctx=ast.Load()),
                              percall)
            ok = not o.startswith('shared')
            detail = 'store into %s object' % o
            if not ok and w.kind == 'subscript' and isinstance(
                    w.key, ast.Name) and w.key.id in percall and \
                    role == 'engine':
                # memo keyed by the whole input text: cannot make one text's
                # parse depend on another's
                ok = True
                detail = 'text-keyed memo (benign idiom)'
            rep.ob('R01b', site, ok,
                   '%s: %s' % (w.kind, detail) if ok else
                   '%s on the parse path writes to state that outlives the '
                   'call (%s); a later or concurrent parse can observe it'
                   % (w.kind, o),
                   loc=fi.module.loc(w.node), construct=construct)


# ---------------------------------------------------------------------------
def class_attr_origins(repo, ci):
    """attribute name -> list of value expressions assigned to self.<attr>
    anywhere in the class (with the method they occur in)."""
    out = {}
    for name, m in ci.methods.items():
        for n in ast.walk(m.node):
            if isinstance(n, ast.Assign):
                for t in n.targets:
                    if isinstance(t, ast.Attribute) and isinstance(
                            t.value, ast.Name) and t.value.id == 'self':
                        out.setdefault(t.attr, []).append((m, n.value))
    return out


def resolve_property(repo, ci, attr):
    """self.<attr> where attr is a @property returning self.<x> -> x"""
    m = ci.methods.get(attr)
    if m is None:
        return attr
    for st in model.strip_docstring(m.node.body):
        if isinstance(st, ast.Return) and isinstance(
                st.value, ast.Attribute) and isinstance(
                st.value.value, ast.Name) and st.value.value.id == 'self':
            return st.value.attr
    return attr


def lexer_arg_fresh(repo, fi, expr, depth=0):
    """Is the lexer handed to parse() created inside this call?"""
    if isinstance(expr, ast.Call):
        f = expr.func
        if isinstance(f, ast.Attribute) and f.attr in FRESH_LEXER_CALLS and \
                not expr.args:
            return True, 'fresh: %s' % model.norm(expr)
        d = repo.resolve(fi.module, f, model.scope_locals(fi))
        if d in FRESH_LEXER_FUNCS:
            return True, 'fresh: %s' % model.norm(expr)
        if d == 'copy.copy' or d == 'copy.deepcopy':
            return True, 'fresh copy'
        return False, 'result of %s is not known to be a fresh lexer' % \
            model.norm(f)
    if isinstance(expr, ast.Name) and depth < 3:
        if expr.id in {x.arg for x in fi.node.args.args}:
            return False, 'parameter %s' % expr.id
        vals = []
        for n in model.walk_shallow(fi.node):
            if isinstance(n, ast.Assign):
                for t in n.targets:
                    if isinstance(t, ast.Name) and t.id == expr.id:
                        vals.append(n.value)
        if not vals:
            return False, 'name %s has no local definition' % expr.id
        for v in vals:
            ok, why = lexer_arg_fresh(repo, fi, v, depth + 1)
            if not ok:
                return False, why
        return True, 'local bound to a fresh lexer'
    if isinstance(expr, ast.Attribute):
        # thread-local storage: <self.attr>.<x> where self.attr =
        # threading.local()
        base = expr.value
        if isinstance(base, ast.Attribute) and isinstance(
                base.value, ast.Name) and base.value.id == 'self' and \
                fi.cls is not None:
            for m, v in class_attr_origins(repo, fi.cls).get(base.attr, []):
                if isinstance(v, ast.Call) and repo.resolve(
                        m.module, v.func) == 'threading.local':
                    return True, 'thread-local slot'
        return False, 'attribute %s lives as long as the engine' % \
            model.norm(expr)
    return False, 'expression %s' % model.norm(expr)


def under_lock(repo, fi, call):
    n = call
    while n is not None and n is not fi.node:
        p = getattr(n, '_parent', None)
        if isinstance(p, ast.With):
            for item in p.items:
                ce = item.context_expr
                if isinstance(ce, ast.Attribute) and isinstance(
                        ce.value, ast.Name) and ce.value.id == 'self' and \
                        fi.cls is not None:
                    for m, v in class_attr_origins(repo, fi.cls).get(
                            ce.attr, []):
                        if m.name == '__init__' and any(
                                isinstance(x, ast.Call) and repo.resolve(
                                    m.module, x.func) in LOCK_TYPES
                                for x in ast.walk(v)):
                            return True
        n = p
    return False


def lock_attr_of(fi, call):
    n = call
    while n is not None and n is not fi.node:
        p = getattr(n, '_parent', None)
        if isinstance(p, ast.With):
            for item in p.items:
                ce = item.context_expr
                if isinstance(ce, ast.Attribute) and isinstance(
                        ce.value, ast.Name) and ce.value.id == 'self':
                    return ce.attr
        n = p
    return None


def lexer_sharing_constructions(repo, fi, lock_attr=None):
    """Constructor calls of fi's class, in methods of that class, that pass
    one of the instance's own attributes on (e.g. copy() handing
    self._lexer to the new engine): [(method, call)]."""
    out = []
    if fi.cls is None:
        return out
    for name, m in fi.cls.methods.items():
        if name == '__init__':
            continue
        for c in model.calls_in(m.node):
            d = repo.resolve(m.module, c.func, model.scope_locals(m))
            tgt = repo.lookup(d) if d else None
            if tgt is not fi.cls and not (
                    isinstance(c.func, ast.Call) and model.norm(
                        c.func.func) == 'type'):
                continue
            passed = [a.attr for a in list(c.args) + [
                k.value for k in c.keywords]
                if isinstance(a, ast.Attribute) and isinstance(
                    a.value, ast.Name) and a.value.id == 'self']
            if any('lex' in x.lower() for x in passed) and not (
                    lock_attr is not None and lock_attr in passed):
                out.append((m, c))
    return out


def parse_sites(repo):
    """Calls <obj>.parse(...) on a ply parser: the receiver is not a module
    (dateutil.parser.parse etc. resolve to a dotted module function)."""
    out = []
    for fi in repo.all_functions():
        if not (fi.module.name.startswith('yaql.language') or
                fi.module.name in ('yaql', 'yaql.yaql_interface',
                                   'yaql.legacy')):
            continue      # e.g. string.Formatter().parse in the library
        for call in model.calls_in(fi.node, shallow=True):
            f = call.func
            if not (isinstance(f, ast.Attribute) and f.attr == 'parse'):
                continue
            d = repo.resolve(fi.module, f, model.scope_locals(fi))
            if d is not None:
                continue   # module-level function of another library
            out.append((fi, call))
    return out


def check_lexer_per_call(repo, rep):
    sites = parse_sites(repo)
    rep.floor('ply parse() call sites', len(sites), 1)
    rep.count(parse_sites=len(sites))
    for fi, call in sites:
        site = fi.key + '/parse-call'
        kw = {k.arg: k.value for k in call.keywords}
        lexer = kw.get('lexer')
        if lexer is None and len(call.args) > 1:
            lexer = call.args[1]
        if lexer is None:
            rep.ob('R01a', site, False,
                   'parse() without lexer=: ply falls back to the module '
                   'global lex.lexer shared by every engine',
                   loc=fi.module.loc(call), construct=model.norm(call))
            continue
        if under_lock(repo, fi, call):
            # a per-instance lock serialises only the parses of that
            # instance: it is enough only if no other instance is ever
            # built around the same lexer object
            sharers = lexer_sharing_constructions(
                repo, fi, lock_attr_of(fi, call))
            rep.ob('R01a', site, not sharers,
                   'parse serialised by an engine lock' if not sharers else
                   'the parse runs under a lock created per engine '
                   'instance, but %s builds another engine around the same '
                   'lexer object (`%s`) with a lock of its own: parses on '
                   'the two engines are not serialised and share one '
                   'cursor' % (sharers[0][0].qualname,
                               model.norm(sharers[0][1])),
                   loc=fi.module.loc(call), construct=model.norm(call))
            continue
        # follow a @property to the backing attribute for the message
        ok, why = lexer_arg_fresh(repo, fi, lexer)
        rep.ob('R01a', site, ok,
               why if ok else
               'the lexer passed to ply is %s: ply\'s Lexer.input()/token() '
               'keep the cursor (lexdata, lexpos) on that object, so two '
               'parse calls on one engine share one cursor; pass '
               '<lexer>.clone(), a thread-local lexer, or hold a lock' % why,
               loc=fi.module.loc(call), construct=model.norm(call))


# ---------------------------------------------------------------------------
def check_error_hook(repo, rep):
    parm = repo.module('yaql.language.parser')
    fi = parm.functions.get('Parser.p_error')
    if fi is None:
        raise AnalysisError('anchor vanished: Parser.p_error')
    g = cfgmod.CFG(fi.node)
    rep.ob('R01c', fi.key, not g.can_return_normally(),
           'p_error can return: ply then enters error recovery, which reads '
           'parser attributes (errorok, symstack) another parse may have '
           'written', loc=parm.loc(fi.node))


def ply_parser_parse_state():
    """Attributes that ply's LRParser.parse* methods (re)assign on the one
    parser object shared by all parses of an engine -- derived from ply's
    source."""
    try:
        import ply.yacc as yaccmod
        with open(yaccmod.__file__) as f:
            tree = ast.parse(f.read())
    except Exception:
        return set()
    out = set()
    for n in ast.walk(tree):
        if isinstance(n, ast.ClassDef) and n.name == 'LRParser':
            for m in n.body:
                if isinstance(m, ast.FunctionDef) and m.name.startswith(
                        'parse'):
                    for w in effects.writes_in(m):
                        if w.root == 'self' and w.kind in ('attr',
                                                           'aug-attr'):
                            out.add(w.method)
    return out


def check_parser_state_reads(repo, rep):
    """R01e: parse-path code never reads the per-parse state ply keeps on
    the shared LRParser object (symstack, statestack, state, errorok,
    token): during a concurrent parse it holds another text's data."""
    attrs = ply_parser_parse_state() - {'token'}
    rep.extra_cov['ply_parser_per_parse_attributes'] = sorted(attrs)
    rep.ob('R01e', 'ply.yacc:LRParser/per-parse-attributes', len(attrs) >= 3,
           'could not derive the per-parse attributes of ply\'s LRParser',
           nontrivial=True)
    n = 0
    for fi, role in parse_path_functions(repo):
        for node in model.walk_shallow(fi.node):
            name = None
            if isinstance(node, ast.Attribute) and isinstance(
                    node.ctx, ast.Load) and node.attr in attrs:
                name = node.attr
            elif isinstance(node, ast.Call) and isinstance(
                    node.func, ast.Name) and node.func.id == 'getattr' and \
                    len(node.args) >= 2 and isinstance(
                        node.args[1], ast.Constant) and \
                    node.args[1].value in attrs:
                name = node.args[1].value
            if name is None:
                continue
            n += 1
            rep.ob('R01e', fi.key + '/reads[%s]' % name, False,
                   'parse-path code reads `%s`, which ply re-assigns on the '
                   'one LRParser object of the engine at the start of every '
                   'parse(): while another thread parses on the same engine '
                   'it holds that other text\'s stack, so this parse\'s '
                   'result (tree or error) depends on the other text' % (
                       model.norm(node)), loc=fi.module.loc(node),
                   construct=model.norm(node))
    if not n:
        rep.ob('R01e', 'parse-path/no-read-of-parser-state', True,
               'no read of %s on the parse path' % sorted(attrs))


def ply_parser_mutators():
    """Methods of ply's LRParser other than parse* that (re)assign
    attributes of the parser object -- derived from ply's source."""
    try:
        import ply.yacc as yaccmod
        with open(yaccmod.__file__) as f:
            tree = ast.parse(f.read())
    except Exception:
        return {}
    out = {}
    for n in ast.walk(tree):
        if isinstance(n, ast.ClassDef) and n.name == 'LRParser':
            for m in n.body:
                if isinstance(m, ast.FunctionDef) and \
                        not m.name.startswith(('parse', '__')):
                    ws = sorted({str(w.method or w.kind)
                                 for w in effects.writes_in(m)
                                 if w.root == 'self'})
                    if ws:
                        out[m.name] = ws
    return out


def check_parser_only_parses(repo, rep):
    """R01i: the one LRParser of an engine is shared by all its parses, and
    ply re-binds its stacks at the start of each; any other method of it
    that stores into the parser (restart, errok, set_defaulted_states ...)
    called from library code on the parse path resets or edits the state of
    whichever parse started last -- another thread's."""
    mut = ply_parser_mutators()
    rep.extra_cov['ply_parser_mutating_methods'] = mut
    rep.ob('R01i', 'ply.yacc:LRParser/mutating-methods', 'restart' in mut,
           'could not derive the state-changing methods of ply\'s LRParser',
           nontrivial=True)
    n = 0
    scope = {fi.key: fi for fi, role in parse_path_functions(repo)}
    for fi, call in parse_sites(repo):
        scope.setdefault(fi.key, fi)
    for fi in scope.values():
        for c in model.calls_in(fi.node, shallow=True):
            f = c.func
            if not (isinstance(f, ast.Attribute) and f.attr in mut):
                continue
            if repo.resolve(fi.module, f, model.scope_locals(fi)):
                continue
            n += 1
            rep.ob('R01i', '%s/%s()' % (fi.key, f.attr), False,
                   '`%s` on the parse path: ply\'s %s() stores into the '
                   'parser object (%s) that all parses of the engine share; '
                   'a parse running in another thread loses its stacks and '
                   'returns a wrong tree or fails' % (
                       model.norm(c), f.attr, ', '.join(mut[f.attr])),
                   loc=fi.module.loc(c), construct=model.norm(c))
    if not n:
        rep.ob('R01i', 'parse-path/parser-only-parses', True,
               'no call of %s on the parse path' % sorted(mut))


def ply_facts(rep):
    """Facts about ply derived from its source (recorded, and the premise
    'a ply lexer is parse-mutable' is checked)."""
    try:
        import ply.lex as lexmod
        path = lexmod.__file__
        with open(path) as f:
            tree = ast.parse(f.read())
    except Exception as e:
        rep.note('ply source not readable: %r' % (e,))
        return
    written = {}
    for n in ast.walk(tree):
        if isinstance(n, ast.ClassDef) and n.name == 'Lexer':
            for m in n.body:
                if isinstance(m, ast.FunctionDef) and m.name in (
                        'input', 'token', 'skip'):
                    for w in effects.writes_in(m):
                        if w.root == 'self' and w.kind in ('attr',
                                                           'aug-attr'):
                            written.setdefault(m.name, set()).add(w.method)
    mutable = bool(written.get('input')) and bool(written.get('token'))
    rep.ob('R01a', 'ply.lex:Lexer/parse-mutable-premise', mutable,
           'ply Lexer.input/token no longer store the cursor on self; the '
           'premise of R01a must be re-derived', nontrivial=True)
    rep.extra_cov['ply_lexer_self_writes'] = {
        k: sorted(v) for k, v in written.items()}


def check_clone_shared_ply_state(repo, rep):
    """R01h.  ply's Lexer.clone() is copy.copy(): the per-call lexer shares
    with the engine's base lexer every container that clone() does not
    re-bind.  The methods of ply's Lexer that *mutate* such a container
    (derived from ply/lex.py on every run: today push_state / pop_state,
    which append to / pop from `lexstatestack`) therefore make one parse
    visible to a concurrent one: the parse path must not call them."""
    try:
        import ply.lex as lexmod
        with open(lexmod.__file__) as f:
            tree = ast.parse(f.read())
    except Exception as e:
        raise AnalysisError('ply source not readable: %r' % (e,))
    lx = [n for n in ast.walk(tree)
          if isinstance(n, ast.ClassDef) and n.name == 'Lexer']
    if not lx:
        raise AnalysisError('anchor vanished: ply.lex.Lexer')
    methods = {m.name: m for m in lx[0].body
               if isinstance(m, ast.FunctionDef)}
    clone = methods.get('clone')
    if clone is None:
        raise AnalysisError('anchor vanished: ply.lex.Lexer.clone')
    rebound = {t.attr for n in ast.walk(clone)
               if isinstance(n, ast.Assign) for t in n.targets
               if isinstance(t, ast.Attribute)}
    sharing = {}
    for name, m in methods.items():
        if name in ('__init__', 'clone'):
            continue
        for w in effects.writes_in(m):
            if w.root == 'self' and w.kind in (
                    'mutcall', 'subscript', 'del-subscript') and w.chain:
                attr = w.chain[0][1:]
                if attr not in rebound:
                    sharing.setdefault(name, set()).add(attr)
    rep.extra_cov['ply_lexer_methods_mutating_clone_shared_state'] = {
        k: sorted(v) for k, v in sharing.items()}
    if not sharing:
        rep.note('ply Lexer has no method that mutates state shared by '
                 'clones')
    n = 0
    for modname in ENGINE_MODULES:
        mod = repo.module(modname)
        for c in ast.walk(mod.tree):
            if isinstance(c, ast.Call) and isinstance(
                    c.func, ast.Attribute) and c.func.attr in sharing:
                n += 1
                rep.ob('R01h', '%s/%s' % (modname, c.func.attr), False,
                       '`%s`: ply Lexer.%s() mutates %s, a container every '
                       'clone() of the engine\'s lexer shares (clone is a '
                       'shallow copy): two parses on one engine push and '
                       'pop each other\'s lexer states' % (
                           model.norm(c), c.func.attr,
                           sorted(sharing[c.func.attr])),
                       loc=mod.loc(c), construct=model.norm(c))
    rep.ob('R01h', 'parse-path', True,
           'no call of %s in the lexer / parser / factory' % sorted(sharing),
           nontrivial=True)


def check_eval_globals(repo, rep):
    init = repo.module('yaql')
    n = 0
    for q, fi in init.functions.items():
        ws = [w for w in effects.writes_in(fi.node)]
        gl = set()
        for x in model.walk_shallow(fi.node):
            if isinstance(x, ast.Global):
                gl.update(x.names)
        if not gl:
            continue
        params = set(fi.params())
        for w in ws:
            if w.kind == 'global':
                n += 1
                dep = model.names_loaded(w.value) & params if w.value \
                    is not None else set()
                rep.ob('R01d', '%s/global[%s]' % (fi.key,
                                                  model.norm(w.target)),
                       not dep,
                       'module global assigned a value that depends on '
                       'per-call parameter(s) %s' % sorted(dep),
                       loc=init.loc(w.node), construct=model.norm(w.node))
            elif w.root in gl or (w.root in init.toplevel and
                                  w.root not in model.local_names_of(
                                      fi.node) - gl):
                n += 1
                ok = w.kind == 'subscript' and isinstance(
                    w.key, ast.Name) and w.key.id in params
                rep.ob('R01d', '%s/global-container[%s]' % (
                    fi.key, w.root), ok,
                    'write into module-level container %s that is not a '
                    'memo keyed by the whole input text' % w.root,
                    loc=init.loc(w.node), construct=model.norm(w.node))
    rep.count(eval_global_writes=n)


MUTABLE_MAKERS = ('set', 'dict', 'list', 'defaultdict', 'OrderedDict',
                  'deque', 'Counter', 'bytearray')
ENGINE_MODULES = ('yaql.language.lexer', 'yaql.language.parser',
                  'yaql.language.factory')


def _mutable_value(v):
    if isinstance(v, (ast.List, ast.Dict, ast.Set, ast.ListComp,
                      ast.DictComp, ast.SetComp)):
        return True
    if isinstance(v, ast.Call):
        f = v.func
        last = f.id if isinstance(f, ast.Name) else f.attr if isinstance(
            f, ast.Attribute) else None
        return last in MUTABLE_MAKERS
    return False


def check_engine_state_is_per_engine(repo, rep):
    """R01f.  What a lexer / parser / factory / engine object remembers must
    live on the instance.  A container bound in the class body (or at module
    level) is one object for every engine of the process: filling it from a
    method makes the parse of one engine depend on which other engines were
    ever built."""
    n = 0
    for modname in ENGINE_MODULES:
        mod = repo.module(modname)
        module_level = {}
        for st in mod.tree.body:
            if isinstance(st, ast.Assign) and _mutable_value(st.value):
                for t in st.targets:
                    if isinstance(t, ast.Name):
                        module_level[t.id] = st
        for ci in mod.classes.values():
            class_level = {}
            for st in ci.node.body:
                if isinstance(st, ast.Assign) and _mutable_value(st.value):
                    for t in st.targets:
                        if isinstance(t, ast.Name):
                            class_level[t.id] = st
                elif isinstance(st, ast.AnnAssign) and st.value is not None \
                        and _mutable_value(st.value) and isinstance(
                            st.target, ast.Name):
                    class_level[st.target.id] = st
            instance_bound = set(class_attr_origins(repo, ci))
            for m in ci.methods.values():
                ps = m.params()
                selfn = ps[0] if ps else None
                locs = model.scope_locals(m)
                for w in effects.writes_in(m.node):
                    if w.kind in ('attr', 'global', 'nonlocal', 'aug-name',
                                  'del-attr'):
                        if not (w.kind == 'attr' and isinstance(
                                w.target, ast.Attribute) and isinstance(
                                w.target.value, ast.Name) and
                                w.target.value.id in ('cls', ci.node.name)):
                            continue
                    n += 1
                    bad = None
                    if w.root == selfn and w.chain:
                        first = w.chain[0][1:] if w.chain[0].startswith(
                            '.') else None
                        if first in class_level and \
                                first not in instance_bound:
                            bad = 'the class-level container %s.%s' % (
                                ci.node.name, first)
                    elif w.root in ('cls', ci.node.name, 'type') or (
                            isinstance(w.target, ast.Attribute) and
                            isinstance(w.target.value, ast.Call) and
                            model.norm(w.target.value.func) == 'type'):
                        bad = 'the class object %s' % ci.node.name
                    elif w.root in module_level and w.root not in locs:
                        bad = 'the module-level container %s' % w.root
                    rep.ob('R01f', '%s/%s' % (m.key, model.norm(
                        w.target)[:40]), bad is None,
                        '%s writes into %s, which every engine of the '
                        'process shares: what one engine lexes / parses '
                        'then depends on which other engines were built, '
                        'not only on its own operator table' % (
                            m.qualname, bad), loc=mod.loc(w.node),
                        construct=model.norm(w.node))
    rep.floor('stores in lexer / parser / factory methods', n, 10)
    return n


def _shared_after_clone(ci):
    """Mutable attributes of `ci` that a clone() made with copy.copy(self)
    still shares with the original."""
    cl = ci.methods.get('clone')
    if cl is None:
        return None
    selfn = cl.params()[0]
    shallow = None
    for st in model.walk_shallow(cl.node):
        if isinstance(st, ast.Assign) and isinstance(
                st.value, ast.Call) and model.norm(st.value.func) in (
                'copy.copy', 'copy') and st.value.args and model.norm(
                st.value.args[0]) == selfn and isinstance(
                st.targets[0], ast.Name):
            shallow = st.targets[0].id
        elif isinstance(st, ast.Return) and isinstance(
                st.value, ast.Call) and model.norm(st.value.func) in (
                'copy.copy', 'copy') and st.value.args and model.norm(
                st.value.args[0]) == selfn:
            shallow = ''
    if shallow is None:
        return []     # built by a constructor / deepcopy: own state
    mutable = set()
    init = ci.methods.get('__init__')
    for m in ci.methods.values():
        ps = m.params()
        sn = ps[0] if ps else None
        if m is init:
            for st in model.walk_shallow(m.node):
                if isinstance(st, ast.Assign) and _mutable_value(st.value):
                    for t in st.targets:
                        if isinstance(t, ast.Attribute) and isinstance(
                                t.value, ast.Name) and t.value.id == sn:
                            mutable.add(t.attr)
        for w in effects.writes_in(m.node):
            if w.root == sn and w.chain and w.kind in (
                    'mutcall', 'subscript', 'del-subscript', 'aug') and \
                    w.chain[0].startswith('.'):
                if len(w.chain) > 1 or w.kind == 'mutcall':
                    mutable.add(w.chain[0][1:])
    rebound = set()
    if shallow:
        for st in model.walk_shallow(cl.node):
            if isinstance(st, ast.Assign):
                for t in st.targets:
                    if isinstance(t, ast.Attribute) and isinstance(
                            t.value, ast.Name) and t.value.id == shallow:
                        rebound.add(t.attr)
    return sorted(mutable - rebound)


def check_clone_is_independent(repo, rep):
    """R01g: R01a accepts `lexer.clone()` as a per-call object.  For ply's
    own Lexer that is a documented fact; for a class of this repository
    that stands in for the lexer it has to be shown: a clone made with
    copy.copy(self) shares every mutable attribute it does not re-bind, and
    two parses then read and write one buffer."""
    n = 0
    for modname in ENGINE_MODULES:
        mod = repo.module(modname)
        for ci in mod.classes.values():
            left = _shared_after_clone(ci)
            if left is None:
                continue
            n += 1
            rep.ob('R01g', ci.key + '.clone', not left,
                   '%s.clone() copies the object shallowly and does not '
                   're-bind %s: every per-parse clone shares that '
                   'container with the engine\'s base object, so '
                   'concurrent parses read each other\'s tokens' % (
                       ci.node.name, left), loc=mod.loc(
                       ci.methods['clone'].node))
    from sa.rules import c09
    fm = c09.load_fixture(repo, 'c01_fixture.py')
    got = {ci.node.name: _shared_after_clone(ci)
           for ci in fm.classes.values()}
    rep.ob('R01g', 'fixtures/c01_fixture.py/positive-control',
           got == {'BadSharedBuffer': ['_ahead'], 'OkRebinds': [],
                   'OkConstructs': []},
           'positive control: expected BadSharedBuffer to share _ahead and '
           'the two Ok* classes nothing; got %s' % got)
    rep.count(repo_classes_with_clone=n)


def run(repo, rep):
    rep.rule('R01i', 'PARSER-ONLY-PARSES: library code calls no method of '
             'the shared ply parser that stores into it, other than parse()')
    rep.rule('R01h', 'NO-CLONE-SHARED-PLY-STATE: the parse path calls no '
             'method of the ply lexer that mutates a container shared by its '
             'clones (push_state / pop_state)')
    rep.rule('R01g', 'CLONE-IS-INDEPENDENT: clone() of a repository class '
             'on the parse path shares no mutable attribute with the '
             'original')
    rep.rule('R01f', 'ENGINE-STATE-IS-PER-ENGINE: methods of the lexer, '
             'parser, factory and engine classes store into the instance, '
             'never into a container bound in the class body or at module '
             'level (shared by every engine of the process)')
    rep.rule('R01a', 'LEXER-PER-CALL: the lexer handed to ply parse() is '
             'created inside the call (clone()/lex.lex()), thread-local, or '
             'the call is serialised by an engine lock')
    rep.rule('R01b', 'ACTIONS-STATELESS: token/grammar actions, escape '
             'decoding, engine call and node constructors store only into '
             'per-call objects (token t, production p, the node under '
             'construction, locals); text-keyed memo is the one benign idiom')
    rep.rule('R01c', 'ERRORFUNC-RAISES: p_error raises on every path, so '
             'ply never enters error recovery')
    rep.rule('R01e', 'NO-READ-OF-PARSER-STATE: parse-path code never reads '
             'symstack/statestack/state/errorok of the shared ply parser')
    rep.rule('R01d', 'yaql.eval caches: globals are lazily initialised '
             'with call-independent values or are text-keyed memos')
    rep.trusted += ['ply 3.11: LRParser.parseopt_notrack keeps its stacks in '
                    'locals on the non-error path; Lexer.clone() shares only '
                    'immutable tables']
    rep.explanation = (
        'Effect analysis of every function that runs inside '
        'YaqlEngine.__call__ (token actions, grammar actions incl. the '
        'generated p_binary/p_unary, escape decoding, node constructors) plus '
        'the hand-off of the lexer object to ply: if nothing that outlives a '
        'call is written and the cursor object is per call, a parse is a '
        'function of its text and the operator table for every history and '
        'schedule.')
    ply_facts(rep)
    check_lexer_per_call(repo, rep)
    check_stateless(repo, rep)
    check_error_hook(repo, rep)
    check_parser_state_reads(repo, rep)
    check_parser_only_parses(repo, rep)
    check_eval_globals(repo, rep)
    check_engine_state_is_per_engine(repo, rep)
    check_clone_is_independent(repo, rep)
    check_clone_shared_ply_state(repo, rep)
    from sa.rules import c18
    rep.rule('R18g', 'see C18: no library code sets an interpreter-wide '
             'setting (a parse that lifts a process limit and restores it '
             'is seen by every concurrent parse)')
    c18.check_no_process_global_setters(repo, rep, 'R18g')
    rep.rule('R18h', 'see C18: no function that outlives the call that made '
             'it captures a one-shot iterator')
    c18.check_no_captured_iterators(repo, rep, 'R18h', (
        'yaql.language.parser', 'yaql.language.lexer',
        'yaql.language.factory'))
