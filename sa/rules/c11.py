"""C11 -- arguments are evaluated once, in order; lazy ones only on
demand."""
import ast
import re

from sa import cfg as cfgmod
from sa import consume
from sa import model
from sa import norm
from sa import universe as unimod
from sa.model import AnalysisError

TITLE = 'one evaluation sweep; matching never evaluates; lazy on demand'

RUNNER = 'yaql.language.runner'
CTXISH = {'context', 'new_context', 'context2', 'data_context', 'ctx'}
LAZY_NAME_RE = re.compile(
    r'(^|_)(predicate|selector|producer|aggregator|condition|merger|'
    r'repl)$')
R11C_NAME_EXCEPTIONS = {
    ('yaql.standard_library.regex:replace', 'repl'):
        'replacement *string*; the lambda form is replaceBy',
    ('yaql.standard_library.regex:replace_string', 'repl'):
        'replacement *string*; the lambda form is replaceBy',
}
RICH_CMP = {'__lt__', '__gt__', '__le__', '__ge__', '__eq__', '__ne__',
            '__cmp__'}
MATCHING = [
    ('yaql.language.specs', 'FunctionDefinition.map_args'),
    ('yaql.language.runner', '_is_specialization_of'),
    ('yaql.language.runner', 'translate_args'),
]


METHOD_NAMES = set()


def is_eval_site(call):
    """X(receiver, context, engine): evaluation of a (possibly) Expression
    value."""
    if len(call.args) != 3 or call.keywords:
        return False
    f = call.func
    if isinstance(f, ast.Attribute) and (f.attr in (
            'check', 'convert', '_call', 'get_delegate', 'map_args',
            'collect_functions') or f.attr in METHOD_NAMES):
        # a method of a class of the repository, not the call of a value
        # that may be an Expression
        return False
    c, e = call.args[1], call.args[2]
    if not (isinstance(c, ast.Name) and c.id in CTXISH):
        return False
    if isinstance(e, ast.Name) and e.id in ('engine', '__engine'):
        return True
    if isinstance(e, ast.Attribute) and e.attr == 'engine':
        return True
    return False


def eval_sites(repo, uni):
    out = []
    for fi, role in uni.evaluation_time():
        for call in model.calls_in(fi.node, shallow=True):
            if is_eval_site(call):
                if isinstance(call.func, ast.Call) or (isinstance(
                        call.func, ast.Attribute) and isinstance(
                        call.func.value, ast.Call) and isinstance(
                        call.func.value.func, ast.Name) and
                        call.func.value.func.id == 'super'):
                    continue
                out.append((fi, call))
        # lambdas defined in the function
        for n in model.walk_shallow(fi.node):
            if isinstance(n, ast.Lambda):
                for call in [c for c in ast.walk(n.body)
                             if isinstance(c, ast.Call)]:
                    if is_eval_site(call):
                        out.append((fi, call))
    return out


def enclosing_loops(node, top):
    loops = []
    n = node
    while n is not None and n is not top:
        p = getattr(n, '_parent', None)
        if isinstance(p, (ast.For, ast.While)) and n is not getattr(
                p, 'iter', None):
            loops.append(p)
        if isinstance(p, ast.comprehension):
            pass
        if isinstance(p, (ast.ListComp, ast.SetComp, ast.DictComp,
                          ast.GeneratorExp)):
            loops.append(p)
        n = p
    return loops


def loop_source_names(loop):
    if isinstance(loop, ast.For):
        return model.names_loaded(loop.iter)
    if isinstance(loop, ast.While):
        return model.names_loaded(loop.test)
    names = set()
    for g in loop.generators:
        names |= model.names_loaded(g.iter)
    return names


def check_r11a(repo, rep):
    mod = repo.module(RUNNER)
    fi = mod.func('choose_overload')
    params = fi.params()
    # names that hold candidate collections
    cand_names = {'candidates', 'candidates2', 'level', 'new_level'}
    cand_names |= {p for p in params if 'candidate' in p}
    # lambdas / nested defs that contain an evaluation site
    evaluators = {}
    direct = []
    for n in model.walk_shallow(fi.node):
        if isinstance(n, ast.Assign) and isinstance(n.value, ast.Lambda):
            sites = [c for c in ast.walk(n.value.body)
                     if isinstance(c, ast.Call) and is_eval_site(c)]
            if sites and isinstance(n.targets[0], ast.Name):
                evaluators[n.targets[0].id] = (n.value, sites)
    for q, f2 in mod.functions.items():
        if f2.parent_func is fi:
            sites = [c for c in model.calls_in(f2.node) if is_eval_site(c)]
            if sites:
                evaluators[f2.name] = (f2.node, sites)
    for c in model.calls_in(fi.node, shallow=True):
        if is_eval_site(c) and not any(
                c in s for lam, s in evaluators.values()):
            direct.append(c)
    nsites = sum(len(s) for lam, s in evaluators.values()) + len(direct)
    rep.ob('R11a', fi.key + '/has-evaluation-site', nsites >= 1,
           'choose_overload no longer contains the argument evaluation '
           'site; the sweep moved (re-anchor the rule)')
    # every application of an evaluator: not inside a loop over candidates
    applications = []
    for c in model.calls_in(fi.node, shallow=True):
        if isinstance(c.func, ast.Name) and c.func.id in evaluators:
            applications.append(c)
    for c in direct:
        applications.append(c)
    pos_sweeps = 0
    kw_sweeps = 0
    pos_stmt = kw_stmt = None
    for c in applications:
        loops = enclosing_loops(c, fi.node)
        srcs = set()
        for lp in loops:
            srcs |= loop_source_names(lp)
        bad = srcs & cand_names
        rep.ob('R11a', fi.key + '/sweep-outside-candidate-loops', not bad,
               'argument evaluation `%s` is nested in a loop over %s: '
               'eager arguments would be evaluated once per candidate '
               'overload instead of exactly once' % (model.norm(c),
                                                     sorted(bad)),
               loc=mod.loc(c), construct=model.norm(c))
        if 'args' in srcs:
            pos_sweeps += 1
            pos_stmt = model.enclosing(c, ast.stmt)
            while pos_stmt is not None and model.enclosing(
                    pos_stmt, (ast.For, ast.While)) is not None and \
                    model.enclosing_function(pos_stmt) is fi.node:
                pos_stmt = model.enclosing(pos_stmt, (ast.For, ast.While))
        if 'kwargs' in srcs:
            kw_sweeps += 1
            kw_stmt = model.enclosing(c, ast.stmt)
            while kw_stmt is not None and model.enclosing(
                    kw_stmt, (ast.For, ast.While)) is not None and \
                    model.enclosing_function(kw_stmt) is fi.node:
                kw_stmt = model.enclosing(kw_stmt, (ast.For, ast.While))
        if not loops:
            rep.ob('R11a', fi.key + '/sweep-is-a-traversal', False,
                   'argument evaluation `%s` is not part of a traversal of '
                   'the argument list' % model.norm(c), loc=mod.loc(c))
    rep.ob('R11a', fi.key + '/one-positional-sweep', pos_sweeps == 1,
           'expected exactly one traversal of the positional arguments '
           'that evaluates them, found %d' % pos_sweeps,
           loc=mod.loc(fi.node))
    rep.ob('R11a', fi.key + '/one-keyword-sweep', kw_sweeps == 1,
           'expected exactly one traversal of the keyword arguments that '
           'evaluates them, found %d' % kw_sweeps, loc=mod.loc(fi.node))
    # positional arguments before keyword arguments (the written order of
    # a call: keywords follow positionals)
    if pos_stmt is not None and kw_stmt is not None:
        g = cfgmod.CFG(fi.node)
        a, b = g.node_of(pos_stmt), g.node_of(kw_stmt)
        ok = a is not None and b is not None and a is not b and \
            g.dominates(a, b)
        rep.ob('R11a', fi.key + '/positional-before-keyword', ok,
               'the sweep over the positional arguments must run before '
               'the sweep over the keyword arguments (arguments are '
               'evaluated in the order they are written); here `%s` does '
               'not precede `%s`' % (
                   model.norm(pos_stmt).split('\n')[0][:60],
                   model.norm(kw_stmt).split('\n')[0][:60]),
               loc=mod.loc(kw_stmt))
    # in index order: the positional sweep enumerates `args` directly
    for c in applications:
        for lp in enclosing_loops(c, fi.node):
            if 'args' in loop_source_names(lp):
                it = lp.generators[0].iter if not isinstance(
                    lp, (ast.For, ast.While)) else lp.iter
                txt = model.norm(it)
                ok = txt in ('enumerate(args)', 'args',
                             'range(len(args))')
                rep.ob('R11a', fi.key + '/left-to-right', ok,
                       'positional arguments must be evaluated in index '
                       'order; the sweep iterates %s' % txt,
                       loc=mod.loc(it), construct=txt)
    # guarded by "not lazy"
    for name, (lam, sites) in evaluators.items():
        a = lam.args
        first = (a.posonlyargs + a.args)[0].arg if (
            a.posonlyargs + a.args) else None
        for s in sites:
            pol = norm.literal_polarity(
                s, lam, lambda e: isinstance(e, ast.Compare) and
                len(e.ops) == 1 and isinstance(e.ops[0], ast.In) and
                isinstance(e.left, ast.Name) and e.left.id == first and
                isinstance(e.comparators[0], ast.Name))
            rep.ob('R11a', fi.key + '/lazy-arguments-skipped',
                   pol is False,
                   'the evaluation site must be reached only when "%s not '
                   'in <the lazy set>" holds; %s' % (
                       first, 'it is reached when the index IS in the set'
                       if pol is True else 'no such condition guards it'),
                   loc=mod.loc(s), construct=model.norm(s))
    return nsites


def lazy_agreement_vars(fi):
    """(agreed, per_candidate): the two names compared with != / == in
    choose_overload; the agreed one is initialised to None outside the
    candidate loops."""
    none_init = set()
    for st in model.strip_docstring(fi.node.body):
        if isinstance(st, ast.Assign) and isinstance(
                st.value, ast.Constant) and st.value.value is None:
            for t in st.targets:
                if isinstance(t, ast.Name):
                    none_init.add(t.id)
    for n in model.walk_shallow(fi.node):
        if isinstance(n, ast.Compare) and len(n.ops) == 1 and isinstance(
                n.ops[0], (ast.NotEq, ast.Eq)) and isinstance(
                n.left, ast.Name) and isinstance(
                n.comparators[0], ast.Name):
            a, b = n.left.id, n.comparators[0].id
            if a in none_init and b not in none_init:
                return a, b
            if b in none_init and a not in none_init:
                return b, a
    return None, None


def _keyed_iteration(it):
    """Does iterating `it` yield (key, value) pairs whose first component
    is the argument's index / keyword?  enumerate(x), x.items(), list()/
    tuple() of those, and concatenations of those."""
    if isinstance(it, ast.Call) and isinstance(it.func, ast.Name) and \
            it.func.id in ('list', 'tuple') and len(it.args) == 1:
        return _keyed_iteration(it.args[0])
    if isinstance(it, ast.BinOp) and isinstance(it.op, ast.Add):
        return _keyed_iteration(it.left) and _keyed_iteration(it.right)
    if isinstance(it, ast.Call) and isinstance(it.func, ast.Name) and \
            it.func.id == 'enumerate':
        return True
    if isinstance(it, ast.Call) and isinstance(it.func, ast.Attribute) and \
            it.func.attr == 'items':
        return True
    if isinstance(it, ast.Call) and model.norm(it.func) in (
            'itertools.chain',) and it.args:
        return all(_keyed_iteration(a) for a in it.args)
    return False


def check_lazy_keys(repo, rep):
    """R11f: the per-candidate set of lazy argument positions is keyed
    exactly like the arguments the evaluation sweep walks: the index of a
    positional argument and the *call's* keyword (the key of the keyword
    mapping) -- not a property of the parameter such as its python name or
    alias, which differs for aliased parameters and for arguments absorbed
    by **kwargs."""
    mod = repo.module(RUNNER)
    fi = mod.func('choose_overload')
    # the per-candidate set is the one compared with the agreed set
    agreed, lazy_var = lazy_agreement_vars(fi)
    if lazy_var is None:
        rep.ob('R11f', fi.key + '/lazy-set', False,
               'cannot find the comparison of the candidates\' lazy '
               'argument sets in choose_overload', loc=mod.loc(fi.node))
        return
    builder = fi
    for n in model.walk_shallow(fi.node):
        if isinstance(n, ast.Assign) and any(
                isinstance(t, ast.Name) and t.id == lazy_var
                for t in n.targets) and isinstance(n.value, ast.Call):
            d = repo.resolve(mod, n.value.func, model.scope_locals(fi))
            t = repo.lookup(d) if d else None
            if isinstance(t, model.FuncInfo):
                builder = t
                rets = [r.value for r in model.walk_shallow(t.node)
                        if isinstance(r, ast.Return)]
                if rets and isinstance(rets[0], ast.Name):
                    lazy_var = rets[0].id
    # element expressions added to the set, with the loop that binds them
    elems = []
    for n in ast.walk(builder.node):
        if isinstance(n, ast.Call) and isinstance(n.func, ast.Attribute) \
                and isinstance(n.func.value, ast.Name) and \
                n.func.value.id == lazy_var:
            if n.func.attr == 'add' and n.args:
                elems.append((n.args[0], model.enclosing(n, ast.For)))
            elif n.func.attr == 'update' and n.args and isinstance(
                    n.args[0], (ast.GeneratorExp, ast.ListComp,
                                ast.SetComp)):
                elems.append((n.args[0].elt, n.args[0].generators[0]))
        if isinstance(n, ast.Assign) and any(
                isinstance(t, ast.Name) and t.id == lazy_var
                for t in n.targets):
            v = n.value
            if isinstance(v, ast.Call) and isinstance(
                    v.func, ast.Name) and v.func.id == 'set' and v.args \
                    and isinstance(v.args[0], (ast.GeneratorExp,
                                               ast.ListComp)):
                elems.append((v.args[0].elt, v.args[0].generators[0]))
            elif isinstance(v, ast.SetComp):
                elems.append((v.elt, v.generators[0]))
    rep.ob('R11f', builder.key + '/lazy-set-built', bool(elems),
           'cannot find where the lazy argument set is filled',
           loc=builder.module.loc(builder.node))
    for elt, loop in elems:
        it = loop.iter if loop is not None else None
        tgt = loop.target if loop is not None else None
        ok = False
        why = 'is not the loop key'
        if isinstance(elt, ast.Name) and it is not None:
            first = None
            if isinstance(tgt, ast.Tuple) and tgt.elts and isinstance(
                    tgt.elts[0], ast.Name):
                first = tgt.elts[0].id
            keyed = _keyed_iteration(it)
            keys_only = isinstance(tgt, ast.Name) and isinstance(
                it, ast.Call) and isinstance(it.func, ast.Attribute) and \
                it.func.attr == 'keys' and tgt.id == elt.id
            ok = (keyed and first == elt.id) or keys_only
        rep.ob('R11f', builder.key + '/lazy-key[%s]' % model.norm(elt), ok,
               'the lazy-argument set records `%s` (%s) for an argument of '
               '`%s`; the evaluation sweep looks arguments up by their '
               'index / by the keyword used in the call, so a lazy '
               'argument whose parameter name or alias differs from that '
               'key (aliased parameters, **kwargs) is evaluated eagerly' % (
                   model.norm(elt), why, model.norm(it) if it is not None
                   else '?'),
               loc=builder.module.loc(elt), construct=model.norm(elt))


def check_r11b(repo, rep, uni):
    """No evaluation site is reachable from the matching code."""
    targets = []
    for m, q in MATCHING:
        targets.append(repo.module(m).func(q))
    yt = repo.module('yaql.language.yaqltypes')
    for ci in yt.classes.values():
        if 'check' in ci.methods:
            targets.append(ci.methods['check'])
    gd = repo.module('yaql.language.specs').func(
        'FunctionDefinition.get_delegate')
    n = 0
    seen = set()

    def scan(fi, root, depth, skip_nested=()):
        nonlocal n
        if fi.key in seen or depth > 3:
            return
        seen.add(fi.key)
        nodes = []
        for st in fi.node.body:
            for x in model.walk_shallow(st):
                nodes.append(x)
        for c in [x for x in nodes if isinstance(x, ast.Call)]:
            if is_eval_site(c):
                rep.ob('R11b', root.key, False,
                       'argument matching reaches an expression evaluation '
                       '(%s in %s): arguments would be evaluated while '
                       'overloads are still being compared, once per '
                       'candidate' % (model.norm(c), fi.key),
                       loc=fi.module.loc(c), construct=model.norm(c))
            d = repo.resolve(fi.module, c.func, model.scope_locals(fi))
            t = repo.lookup(d) if d else None
            if isinstance(t, model.FuncInfo) and not \
                    t.module.name.startswith('yaql.standard_library'):
                scan(t, root, depth + 1)
    for t in targets:
        seen.clear()
        before = len(rep.violations)
        scan(t, t, 0)
        n += 1
        if len(rep.violations) == before:
            rep.ob('R11b', t.key, True, 'no evaluation site reachable')
    # get_delegate: outside the returned thunks
    thunks = {f.name for q, f in gd.module.functions.items()
              if f.parent_func is gd or (f.parent_func is not None and
                                         f.parent_func.parent_func is gd)}
    bad = [c for c in model.calls_in(gd.node, shallow=True)
           if is_eval_site(c)]
    rep.ob('R11b', gd.key + '/outside-thunks', not bad,
           'get_delegate evaluates an argument while building the '
           'delegate: %s' % [model.norm(b) for b in bad],
           loc=gd.module.loc(gd.node))
    return n + 1


def check_r11c(repo, rep, uni):
    reg = uni.reg
    n = 0

    def need_lazy(name, pnames, ctx=('default', 'fallback')):
        nonlocal n
        ovs = [o for o in reg.by_name(name) if o.ctx in ctx]
        if not ovs:
            raise AnalysisError('anchor vanished: no overload of %s' % name)
        for o in ovs:
            for pn in pnames:
                p = o.params[pn] if isinstance(pn, int) else o.param(pn)
                if isinstance(pn, int):
                    vis = [x for x in o.params if not x.type.hidden]
                    p = vis[pn] if pn < len(vis) else None
                if p is None:
                    continue
                n += 1
                rep.ob('R11c', '%s/%s' % (o.func.key, p.name), p.type.lazy,
                       'operand `%s` of %s is declared %s: it is evaluated '
                       'before the function runs, so the operand the '
                       'function does not select is evaluated anyway' % (
                           p.name, name, p.type.text),
                       loc=o.func.module.loc(o.func.node),
                       construct=p.type.text)
    need_lazy('#operator_and', [0, 1])
    need_lazy('#operator_or', [0, 1])
    need_lazy('#operator_?.', [1])
    for nm in ('switch', 'selectCase', 'coalesce', 'selectAllCases',
               'examine'):
        need_lazy(nm, [0], ctx=('default',))
    need_lazy('switchCase', [1], ctx=('default',))
    # every predicate / selector-like parameter is lazy
    seen = set()
    for o in reg.overloads:
        for p in o.params:
            if p.type.hidden:
                continue
            if LAZY_NAME_RE.search(p.name):
                k = (o.func.key, p.name)
                if k in seen:
                    continue
                seen.add(k)
                n += 1
                if k in R11C_NAME_EXCEPTIONS:
                    rep.ob('R11c', '%s/%s' % k, True, 'reviewed: ' +
                           R11C_NAME_EXCEPTIONS[k])
                    continue
                rep.ob('R11c', '%s/%s' % k, p.type.lazy,
                       'per-element callback `%s` of %s is declared %s, '
                       'not a lazy (Lambda) type' % (p.name, o.name,
                                                     p.type.text),
                       loc=o.func.module.loc(o.func.node))
    rep.floor('lazy-declaration obligations', n, 40)


def lazy_call_nodes(uni, fi, names):
    """Calls of the given lazy parameter names (or elements of lazy
    varargs bound to loop variables)."""
    out = []
    for c in model.calls_in(fi.node, shallow=True):
        f = c.func
        if isinstance(f, ast.Name) and f.id in names:
            out.append((f.id, c))
        elif isinstance(f, ast.Attribute) and isinstance(
                f.value, ast.Name) and f.value.id in names:
            out.append((f.value.id + '.' + f.attr, c))
        elif isinstance(f, ast.Subscript) and isinstance(
                f.value, ast.Name) and f.value.id in names:
            out.append((f.value.id + '[]', c))
    return out


def max_calls_per_path(fi, call_nodes):
    """Maximum number of times the given call nodes execute on one path
    (loops unrolled twice count the loop body twice)."""
    g = cfgmod.CFG(fi.node)
    per_node = {}
    for c in call_nodes:
        cn = g.node_of(c)
        if cn is not None:
            per_node[cn.id] = per_node.get(cn.id, 0) + 1
    best = 0
    for path in g.paths(max_visits=2, limit=3000):
        cnt = 0
        for nd in path:
            cnt += per_node.get(nd.id, 0)
        best = max(best, cnt)
    return best


def boolop_short_circuit(fi, a, b, want):
    """b() is evaluated only on paths on which the result of a() is known
    to be truthy (want=True, `and`) / falsy (want=False, `or`) -- spelled
    as a short-circuit operator, a conditional expression, if/else or an
    early return, directly on a() or on a local bound to it."""
    calls_a = [c for c in model.calls_in(fi.node, shallow=True)
               if isinstance(c.func, ast.Name) and c.func.id == a]
    calls_b = [c for c in model.calls_in(fi.node, shallow=True)
               if isinstance(c.func, ast.Name) and c.func.id == b]
    if len(calls_a) != 1 or len(calls_b) != 1:
        return False, '%s called %d times, %s called %d times' % (
            a, len(calls_a), b, len(calls_b))
    ca, cb = calls_a[0], calls_b[0]
    bound = norm.single_assignments(fi.node)

    def is_result_of_a(e):
        if isinstance(e, ast.Call) and isinstance(e.func, ast.Name) and \
                e.func.id == a:
            return True
        if isinstance(e, ast.Name) and bound.get(e.id) is ca:
            return True
        return False
    pol = None
    for e, p in norm.guards(cb, fi.node, substitute=False):
        for at, p2 in norm.atoms(e, p):
            if is_result_of_a(at):
                pol = p2
    if pol is None:
        return False, '%s() is evaluated unconditionally: no test of the ' \
                      'result of %s() guards it' % (b, a)
    if pol != want:
        return False, '%s() is evaluated when the result of %s() is %s; ' \
                      'it must be evaluated only when it is %s' % (
                          b, a, 'truthy' if pol else 'falsy',
                          'truthy' if want else 'falsy')
    return True, ''


def boolop_by_evaluation(repo, fi, is_and):
    """The payload of `and` / `or` evaluated abstractly with its two lazy
    operands as uninterpreted thunks, for every kind of left value: the
    left operand is evaluated exactly once; the right one exactly once when
    the left value does not settle the result and not at all when it does;
    the result is the operand that settled it.  (None, why) if the body is
    outside the modelled fragment."""
    from sa import absint
    ps = fi.params()
    for lv in (True, False, 0, 1, '', 'x', None):
        calls = []
        R = absint.Sym('value-of-right')

        def oracle(callee, args, kwargs):
            if callee == 'thunk-left':
                calls.append('left')
                return (lv,)
            if callee == 'thunk-right':
                calls.append('right')
                return (R,)
            return None
        it = absint.Interp(repo, fi.module, oracle)
        try:
            out = it.run(fi.node, {ps[0]: absint.Sym('thunk-left'),
                                   ps[1]: absint.Sym('thunk-right')})
        except absint.Unsupported as e:
            return None, str(e)
        settles = (not lv) if is_and else bool(lv)
        want_calls = ['left'] if settles else ['left', 'right']
        want = lv if settles else R
        if calls != want_calls:
            return False, 'with a left value of %r the operands are ' \
                'evaluated as %s, expected %s' % (lv, calls, want_calls)
        got = out[1] if out[0] == 'return' else out
        same = got is want if isinstance(want, (absint.Sym, bool,
                                                type(None))) else \
            got == want and type(got) is type(want)
        if not same:
            return False, 'with a left value of %r the result is %r, ' \
                'expected %r' % (lv, got, want)
    return True, ''


def first_hit_by_evaluation(repo, fi, kind):
    """switch / selectCase / coalesce applied abstractly to 0..3 lazy
    arguments whose values are given: the arguments are evaluated in order,
    each at most once, none after the first hit; switch evaluates exactly
    the hit's destination; the result is what the documentation says.
    (None, why) when the body is outside the evaluator's fragment."""
    import itertools
    from sa import absint
    va = fi.node.args.vararg.arg
    if kind == 'coalesce':
        values = (None, False, 0, 'value')
        hit = lambda v: v is not None
    else:
        values = (True, False, 0, 'x', None)
        hit = bool
    for k in range(0, 4):
        for vals in itertools.product(values, repeat=k):
            trace = []
            D = [absint.Sym('value-of-destination-%d' % i)
                 for i in range(k)]

            def oracle(callee, args, kwargs):
                if callee.startswith('thunk-'):
                    i = int(callee.split('-')[-1])
                    trace.append(callee)
                    if callee.startswith('thunk-destination-'):
                        return (D[i],)
                    return (vals[i],)
                return None
            if kind == 'switch':
                args = tuple(absint.Obj(
                    'mapping', source=absint.Sym('thunk-source-%d' % i),
                    destination=absint.Sym('thunk-destination-%d' % i))
                    for i in range(k))
            else:
                args = tuple(absint.Sym('thunk-source-%d' % i)
                             for i in range(k))
            it = absint.Interp(repo, fi.module, oracle)
            try:
                out = it.run(fi.node, dict(enumerate(args)))
            except absint.Unsupported as e:
                return None, str(e)
            first = next((i for i, v in enumerate(vals) if hit(v)), None)
            upto = k if first is None else first + 1
            want_trace = ['thunk-source-%d' % i for i in range(upto)]
            if kind == 'switch' and first is not None:
                want_trace.append('thunk-destination-%d' % first)
                want = D[first]
            elif kind == 'switch':
                want = None
            elif kind == 'select_case':
                want = k if first is None else first
            else:
                want = None if first is None else vals[first]
            if trace != want_trace:
                return False, 'with argument values %r the lazy arguments ' \
                    'are evaluated as %s, expected %s' % (
                        list(vals), trace, want_trace)
            got = out[1] if out[0] == 'return' else out
            same = got is want if isinstance(
                want, (absint.Sym, bool, type(None))) else (
                got == want and type(got) is type(want))
            if not same:
                return False, 'with argument values %r the result is %r, ' \
                    'expected %r' % (list(vals), got, want)
    return True, ''


def check_r11d(repo, rep, uni):
    reg = uni.reg
    bo = repo.module('yaql.standard_library.boolean')
    br = repo.module('yaql.standard_library.branching')
    sy = repo.module('yaql.standard_library.system')
    n = 0
    for q in ('and_', 'or_'):
        fi = bo.func(q)
        ps = fi.params()
        ok, why = boolop_by_evaluation(repo, fi, q == 'and_')
        if ok is None:
            ok, why = boolop_short_circuit(fi, ps[0], ps[1], q == 'and_')
        n += 1
        rep.ob('R11d', fi.key + '/short-circuit', ok,
               '`%s` must evaluate its right operand only when the left '
               'one does not decide the result: %s' % (
                   fi.name, why), loc=bo.loc(fi.node))
    # first-hit loops over lazy varargs
    for q, value_thunk in (('switch', True), ('select_case', False),
                           ('coalesce', False)):
        fi = br.func(q)
        va = fi.node.args.vararg.arg if fi.node.args.vararg else None
        if va is None:
            raise AnalysisError('%s lost its *args' % q)
        loops = [x for x in model.walk_shallow(fi.node)
                 if isinstance(x, ast.For) and va in model.names_loaded(
                     x.iter)]
        comps = [x for x in model.walk_shallow(fi.node)
                 if isinstance(x, (ast.ListComp, ast.SetComp, ast.DictComp,
                                   ast.GeneratorExp)) and any(
                     va in model.names_loaded(g.iter)
                     for g in x.generators)]
        n += 1
        site = fi.key + '/first-hit'
        ok, why = first_hit_by_evaluation(repo, fi, q)
        if ok is not None:
            rep.ob('R11d', site, ok, '%s: %s' % (q, why) if not ok else
                   'first hit decides (%s)' % q, loc=br.loc(fi.node))
            continue
        if comps:
            rep.ob('R11d', site, False,
                   '%s evaluates its lazy arguments in a sweep (%s) before '
                   'looking at any result: arguments after the first hit '
                   'are evaluated too' % (q, model.norm(comps[0])[:80]),
                   loc=br.loc(comps[0]), construct=model.norm(comps[0])[:120])
            continue
        if len(loops) != 1:
            rep.ob('R11d', site, False, '%s: expected one loop over its '
                   'lazy arguments, found %d' % (q, len(loops)),
                   loc=br.loc(fi.node))
            continue
        loop = loops[0]
        var = [t.id for t in ast.walk(loop.target)
               if isinstance(t, ast.Name)][-1]
        calls = lazy_call_nodes(uni, fi, {var})
        g = cfgmod.CFG(fi.node)
        # per iteration: each thunk at most once
        body_fn = ast.FunctionDef(name='_body', args=fi.node.args,
                                  body=loop.body, decorator_list=[],
                                  lineno=loop.lineno, col_offset=0)
        gb = cfgmod.CFG(body_fn)
        by_name = {}
        for nm, c in calls:
            by_name.setdefault(nm, []).append(c)
        ok = True
        why = ''
        for nm, cs in by_name.items():
            per = {}
            for c in cs:
                cn = gb.node_of(c)
                if cn is not None:
                    per[cn.id] = per.get(cn.id, 0) + 1
            worst = 0
            for path in gb.paths(max_visits=1, limit=500,
                                 include_raise=False):
                worst = max(worst, sum(per.get(x.id, 0) for x in path))
            if worst > 1:
                ok = False
                why = '%s() may run %d times for one argument' % (nm, worst)
        # a return inside the loop, control dependent on a thunk's result
        rets = [x for s in loop.body for x in model.walk_shallow(s)
                if isinstance(x, ast.Return)]
        guarded = False
        derived = set(_locals_from_calls(loop, calls)) | {var}
        for r in rets:
            for e, pol in norm.guards(r, loop):
                if model.names_loaded(e) & derived:
                    guarded = True
        if not rets or not guarded:
            ok = False
            why = 'no return inside the loop that depends on the result ' \
                  'of the argument just evaluated'
        if value_thunk and ok:
            # destination() only on the true edge of source()
            dests = [c for nm, c in calls if nm.endswith('.destination')]
            for dcall in dests:
                pol = norm.literal_polarity(
                    dcall, loop, lambda e: isinstance(e, ast.Call) and
                    isinstance(e.func, ast.Attribute) and
                    e.func.attr == 'source')
                if pol is not True:
                    ok = False
                    why = 'destination() is not evaluated under the test ' \
                          'of its own source()'
        rep.ob('R11d', site, ok,
               '%s: %s' % (q, why) if not ok else 'first-hit loop',
               loc=br.loc(loop))
    # switch_case: exactly one element, no loop
    fi = br.func('switch_case')
    va = fi.node.args.vararg.arg
    loops = [x for x in ast.walk(fi.node)
             if isinstance(x, (ast.For, ast.While, ast.ListComp,
                               ast.GeneratorExp, ast.SetComp, ast.DictComp))]
    calls = [c for nm, c in lazy_call_nodes(uni, fi, {va})]
    worst = max_calls_per_path(fi, calls)
    n += 1
    rep.ob('R11d', fi.key + '/indexed-single', not loops and worst <= 1,
           'switchCase must evaluate exactly the selected case: loops=%d, '
           'max evaluations on one path=%d' % (len(loops), worst),
           loc=br.loc(fi.node))
    # ?. : delegate only on the non-null path
    fi = sy.func('elvis_operator')
    g = cfgmod.CFG(fi.node)
    ov = uni.payload_ov[fi.key][0]
    deleg = [p.name for p in ov.params if p.type.hidden][0]
    recv = [p.name for p in ov.params if not p.type.hidden][0]
    dcalls = [c for c in model.calls_in(fi.node, shallow=True)
              if isinstance(c.func, ast.Name) and c.func.id == deleg]
    def null_test(e):
        """atom meaning "the receiver is null" -> True, "is not null /
        truthy" -> False, else None"""
        if isinstance(e, ast.Compare) and len(e.ops) == 1 and isinstance(
                e.left, ast.Name) and e.left.id == recv and isinstance(
                e.comparators[0], ast.Constant) and \
                e.comparators[0].value is None and isinstance(
                e.ops[0], (ast.Is, ast.Eq)):
            return True
        return None
    ok = bool(dcalls)
    for c in dcalls:
        pol = None
        for e, p in norm.literals(c, fi.node):
            if null_test(e) is True:
                pol = p
            elif isinstance(e, ast.Name) and e.id == recv:
                pol = not p          # `if receiver:` -> not null
        if pol is not False:
            ok = False
    n += 1
    rep.ob('R11d', fi.key + '/null-guard', ok,
           '`?.` must apply the member expression only on the path where '
           'the receiver is not null', loc=sy.loc(fi.node))
    # generic: eager sweeps over lazy varargs anywhere in the library
    seen = set()
    for o in reg.overloads:
        fi = o.func
        if fi.key in seen:
            continue
        seen.add(fi.key)
        for p in o.params:
            if not (p.type.lazy and p.kind == 'vararg'):
                continue
            if consume.is_generator(fi.node):
                continue     # lazily, as the result is pulled
            for x in model.walk_shallow(fi.node):
                if isinstance(x, (ast.ListComp, ast.SetComp, ast.DictComp)) \
                        and any(p.name in model.names_loaded(g.iter)
                                for g in x.generators) and any(
                        isinstance(c, ast.Call) for c in ast.walk(
                            x.elt if not isinstance(x, ast.DictComp)
                            else x.value)):
                    n += 1
                    rep.ob('R11d', fi.key + '/eager-sweep', False,
                           'all lazy arguments of %s are evaluated in one '
                           'sweep (%s)' % (o.name, model.norm(x)[:80]),
                           loc=fi.module.loc(x),
                           construct=model.norm(x)[:120])
    return n


def _locals_from_calls(loop, calls):
    names = set()
    cs = [c for nm, c in calls]
    for s in ast.walk(loop):
        if isinstance(s, ast.Assign) and any(
                s.value is c or any(c is x for x in ast.walk(s.value))
                for c in cs):
            for t in s.targets:
                if isinstance(t, ast.Name):
                    names.add(t.id)
    return names


def memoised_application(call):
    """self.<memo>.append(<call>) / self.<memo>[k] = <call> under a loop or
    test on the size / membership of the same self.<memo>."""
    p = getattr(call, '_parent', None)
    memo = None
    if isinstance(p, ast.Call) and isinstance(p.func, ast.Attribute) and \
            p.func.attr in ('append', 'add') and isinstance(
                p.func.value, ast.Attribute) and isinstance(
                p.func.value.value, ast.Name) and \
            p.func.value.value.id == 'self':
        memo = p.func.value.attr
    elif isinstance(p, ast.Assign) and isinstance(
            p.targets[0], ast.Subscript) and isinstance(
            p.targets[0].value, ast.Attribute) and isinstance(
            p.targets[0].value.value, ast.Name) and \
            p.targets[0].value.value.id == 'self':
        memo = p.targets[0].value.attr
    if memo is None:
        return False
    n = call
    while n is not None:
        q = getattr(n, '_parent', None)
        if isinstance(q, (ast.While, ast.If)) and n is not q.test:
            for a in ast.walk(q.test):
                if isinstance(a, ast.Attribute) and a.attr == memo and \
                        isinstance(a.value, ast.Name) and \
                        a.value.id == 'self':
                    return True
        if isinstance(q, ast.For) and n is not q.iter:
            # for x in todo[len(self.<memo>):..]: what is still missing
            for a in ast.walk(q.iter):
                if isinstance(a, ast.Call) and isinstance(
                        a.func, ast.Name) and a.func.id == 'len' and \
                        a.args and isinstance(
                            a.args[0], ast.Attribute) and \
                        a.args[0].attr == memo and isinstance(
                            a.args[0].value, ast.Name) and \
                        a.args[0].value.id == 'self' and isinstance(
                            getattr(a, '_parent', None), ast.Slice) and \
                        a._parent.lower is a:
                    return True
        n = q
    return False


def check_r11e(repo, rep, uni):
    """Per element: each lambda is applied at most once per path through
    the body of a hand-written loop over the source; and no stored lambda is
    applied from inside a comparison method."""
    n = 0
    seen = set()
    for o in uni.reg.overloads:
        fi = o.func
        if fi.key in seen:
            continue
        seen.add(fi.key)
        lazies = {p.name for p in o.params if p.type.lazy and
                  p.kind == 'pos'}
        sources = {p.name for p in o.params if p.type.limiting}
        if not lazies or not sources:
            continue
        for loop in [x for x in model.walk_shallow(fi.node)
                     if isinstance(x, ast.For)]:
            # what is looped over, through locals (unseen = filterfalse(..))
            loop_src = norm.subst_locals(fi.node, loop.iter,
                                         only_pure=False)
            if not (model.names_loaded(loop_src) & sources):
                continue
            if any(isinstance(x, (ast.For, ast.While))
                   for s in loop.body for x in model.walk_shallow(s)):
                continue    # nested loops (join): per pair, not per element
            body_fn = ast.FunctionDef(name='_b', args=fi.node.args,
                                      body=loop.body, decorator_list=[],
                                      lineno=loop.lineno, col_offset=0)
            gb = cfgmod.CFG(body_fn)
            for lz in sorted(lazies):
                cs = [c for s in loop.body for c in model.calls_in(s)
                      if isinstance(c.func, ast.Name) and c.func.id == lz]
                # applications made for every element before the body sees
                # it: inside a callable the loop's source is filtered or
                # mapped with (filterfalse(lambda x: key(x) in seen, src))
                pre = []
                for lam in ast.walk(loop_src):
                    if isinstance(lam, ast.Lambda):
                        pre += [c for c in ast.walk(lam.body)
                                if isinstance(c, ast.Call) and isinstance(
                                    c.func, ast.Name) and c.func.id == lz]
                if not cs:
                    continue
                per = {}
                for c in cs:
                    cn = gb.node_of(c)
                    if cn is not None:
                        per[cn.id] = per.get(cn.id, 0) + 1
                worst = 0
                for path in gb.paths(max_visits=1, limit=500):
                    worst = max(worst, sum(per.get(x.id, 0) for x in path))
                worst += len(pre)
                n += 1
                rep.ob('R11e', '%s/%s-per-element' % (fi.key, lz),
                       worst <= 1,
                       'lambda `%s` can be applied %d times to one element '
                       'on one path through the loop body' % (lz, worst),
                       loc=fi.module.loc(loop))
    # stored callables applied from comparison methods
    for ci in repo.all_classes():
        if not (set(ci.methods) & RICH_CMP):
            continue
        if not ci.module.name.startswith('yaql.standard_library'):
            continue
        reach = {}
        work = [m for name, m in ci.methods.items() if name in RICH_CMP]
        while work:
            m = work.pop()
            if m.key in reach:
                continue
            reach[m.key] = m
            for c in model.calls_in(m.node):
                if isinstance(c.func, ast.Attribute) and \
                        c.func.attr in ci.methods:
                    work.append(ci.methods[c.func.attr])
        for m in reach.values():
            for c in model.calls_in(m.node, shallow=True):
                f = c.func
                if isinstance(f, ast.Name):
                    # a local alias of an attribute (lt = outer.operator_lt)
                    f = norm.subst_locals(m.node, f, only_pure=False)
                if isinstance(f, ast.Attribute):
                    continue     # self.compare / outer.operator_lt
                d = repo.resolve(m.module, f, model.scope_locals(m))
                if d is not None:
                    continue
                n += 1
                if memoised_application(c):
                    rep.ob('R11e', '%s/call-of[%s]' % (m.key,
                                                       model.norm(f)), True,
                           'memoised on the per-element wrapper: applied at '
                           'most once per element and level',
                           loc=m.module.loc(c), construct=model.norm(c))
                    continue
                rep.ob('R11e', '%s/call-of[%s]' % (m.key, model.norm(f)),
                       False,
                       'a stored per-element callable (%s) is applied from '
                       'inside a comparison method: sorting applies it '
                       'O(n log n) times per element instead of once per '
                       'element consumed' % model.norm(f),
                       loc=m.module.loc(c), construct=model.norm(c))
    rep.floor('per-element lambda obligations', n, 8)


def check_lambda_evaluates_every_time(repo, rep):
    """R11g: the callable that Lambda.convert builds for a lazy argument
    evaluates the argument expression on *every* invocation: each of its
    normal exits is preceded by the evaluating call (no result remembered
    from an earlier invocation)."""
    yt = repo.module('yaql.language.yaqltypes')
    conv = yt.func('Lambda.convert')
    call = yt.func('Lambda._call')
    wrappers = [f for q, f in yt.functions.items() if f.parent_func is conv]
    returned = {r.value.id for r in model.walk_shallow(conv.node)
                if isinstance(r, ast.Return) and isinstance(
                    r.value, ast.Name)}
    wrappers = [f for f in wrappers if f.name in returned]
    if not wrappers:
        raise AnalysisError('anchor vanished: the callable returned by '
                            'Lambda.convert')
    for w in wrappers:
        g = cfgmod.CFG(w.node)
        evals = []
        for nd in g.nodes:
            for c in cfgmod.node_calls(nd):
                if isinstance(c.func, ast.Attribute) and \
                        c.func.attr == call.name and isinstance(
                        c.func.value, ast.Name) and \
                        c.func.value.id == 'self':
                    evals.append(nd)
                elif is_eval_site(c):
                    evals.append(nd)
        ok = bool(evals) and not g.reaches_exit_without(g.entry, evals)
        rep.ob('R11g', w.key + '/evaluates-on-every-call', ok,
               'the callable built for a Lambda parameter can return '
               'without evaluating the argument expression (a result kept '
               'from an earlier invocation, or a shortcut): a per-element '
               'lambda such as select(f()) is then evaluated fewer times '
               'than elements are consumed', loc=yt.loc(w.node))
    # and _call itself evaluates an Expression unconditionally
    g = cfgmod.CFG(call.node)
    sites = [c for c in model.calls_in(call.node, shallow=True)
             if is_eval_site(c)]
    ok = bool(sites)
    for c in sites:
        gs = [e for e, p in norm.guards(c, call.node)
              if 'isinstance' not in model.norm(e)]
        if gs:
            ok = False
    rep.ob('R11g', call.key + '/evaluates-expressions', ok,
           'Lambda._call must evaluate an Expression argument whenever it '
           'is invoked (the only test on that path may be the isinstance '
           'test on the value)', loc=yt.loc(call.node))


def _callable_attr_class_is_fed_by_partial(repo, ci):
    """functools.partial(Cls, ...) somewhere in the standard library: the
    remaining constructor arguments arrive where the partial is called."""
    for f in repo.all_functions():
        if not f.module.name.startswith('yaql.standard_library'):
            continue
        for c in model.calls_in(f.node):
            if model.norm(c.func) in ('functools.partial', 'partial') and \
                    c.args and model.norm(c.args[0]).endswith(
                        ci.node.name):
                return True
    return False


def check_stored_lambda_once_per_success(repo, rep, uni):
    """R11j: an object that stores a per-group / per-element lambda
    (GroupAggregator.aggregator) applies it at most once on every path on
    which no application failed.  (A second application after the first one
    *raised* is the documented fallback; a second application after a
    successful one runs the lambda twice for that group.)"""
    n = 0
    for ci in repo.all_classes():
        if not ci.module.name.startswith('yaql.standard_library'):
            continue
        init = ci.methods.get('__init__')
        if init is None:
            continue
        # attributes bound to a constructor parameter and called as functions
        attrs = set()
        ps = set(init.params()[1:])
        for st in model.walk_shallow(init.node):
            if isinstance(st, ast.Assign) and isinstance(
                    st.value, ast.Name) and st.value.id in ps:
                for t in st.targets:
                    if isinstance(t, ast.Attribute):
                        attrs.add(t.attr)
        called = set()
        for m in ci.methods.values():
            for c in model.calls_in(m.node):
                if isinstance(c.func, ast.Attribute) and isinstance(
                        c.func.value, ast.Name) and c.func.value.id == \
                        'self' and c.func.attr in attrs:
                    called.add(c.func.attr)
        if not called:
            continue
        # is the stored callable a lambda of a yaql call?  (instantiated with
        # a lazily declared parameter somewhere)
        lazy_fed = False
        for f in repo.all_functions():
            ov = uni.payload_ov.get(f.key) or uni.payload_ov.get(
                f.parent_func.key if f.parent_func else '', ())
            lz = {p.name for o in (ov or ()) for p in o.params
                  if p.type.lazy}
            if not lz:
                continue
            for c in model.calls_in(f.node):
                if model.norm(c.func).endswith(ci.node.name) and any(
                        isinstance(a, ast.Name) and a.id in lz
                        for a in list(c.args) + [k.value
                                                 for k in c.keywords]):
                    lazy_fed = True
        if not lazy_fed and not _callable_attr_class_is_fed_by_partial(
                repo, ci):
            continue
        # applications per method, own-method calls counted through
        direct = {}
        for name, m in ci.methods.items():
            direct[name] = m

        def count_on_normal_paths(m, depth=0):
            g = cfgmod.CFG(m.node)
            per = {}
            for nd in g.nodes:
                k = 0
                for c in cfgmod.node_calls(nd):
                    f = c.func
                    if isinstance(f, ast.Attribute) and isinstance(
                            f.value, ast.Name) and f.value.id == 'self':
                        if f.attr in called:
                            k += 1
                        elif f.attr in direct and depth < 2 and \
                                direct[f.attr] is not m:
                            k += count_on_normal_paths(direct[f.attr],
                                                       depth + 1)
                if k:
                    per[nd.id] = k
            worst = 0
            for path in g.paths(max_visits=1, limit=4000):
                # exception-free: never take an edge into a handler
                ok = True
                for a, b in zip(path, path[1:]):
                    if any(s is b and lab == 'exc' for s, lab in a.succ) \
                            and not any(s is b and lab != 'exc'
                                        for s, lab in a.succ):
                        ok = False
                        break
                if ok:
                    worst = max(worst, sum(per.get(x.id, 0) for x in path))
            return worst
        for name, m in sorted(ci.methods.items()):
            if name == '__init__':
                continue
            if not any(isinstance(c.func, ast.Attribute) and
                       c.func.attr in called | set(direct)
                       for c in model.calls_in(m.node)):
                continue
            w = count_on_normal_paths(m)
            if w == 0:
                continue
            n += 1
            rep.ob('R11j', '%s/%s' % (m.key, '+'.join(sorted(called))),
                   w <= 1,
                   '%s.%s can apply the stored lambda %d times on a path '
                   'on which no application failed: the lambda runs more '
                   'than once for one group / element' % (
                       ci.node.name, name, w), loc=ci.module.loc(m.node))
    rep.floor('methods applying a stored lambda', n, 1)


def check_no_retry_of_evaluation(repo, rep):
    """R11i: a node evaluates its operands once.  A `try` whose body
    dispatches an evaluation (super().__call__(...), self(...), a context
    dispatch) and whose handler dispatches it *again* re-runs everything the
    first attempt had already evaluated before it failed: every argument to
    the left of the failing sub-expression is evaluated twice."""
    ex = repo.module('yaql.language.expressions')
    n = 0

    def dispatches(stmts):
        out = []
        for st in stmts:
            for c in ast.walk(st):
                if not isinstance(c, ast.Call):
                    continue
                f = c.func
                if isinstance(f, ast.Attribute) and f.attr == '__call__':
                    out.append(c)
                elif isinstance(f, ast.Call):
                    out.append(c)        # context(name, engine, ...)(...)
                elif isinstance(f, ast.Name) and f.id == 'self':
                    out.append(c)
                elif isinstance(f, ast.Name) and f.id in wrapped:
                    out.append(c)        # func(*args, **kwargs) in a wrapper
        return out
    # decorators of the node methods: the function they are given is the
    # evaluation they wrap
    wrapped = set()
    for fi in ex.functions.values():
        if fi.cls is not None and fi.name in ('__call__', 'evaluate') or \
                fi.cls is not None and any(
                    isinstance(c.func, ast.Attribute) and c.func.attr ==
                    '__call__' for c in model.calls_in(fi.node)):
            for d in fi.node.decorator_list:
                dn = ex.functions.get(model.norm(d))
                if dn is not None and dn.params():
                    wrapped.add(dn.params()[0])
    for fi in ex.functions.values():
        top = fi
        while top.parent_func is not None:
            top = top.parent_func
        if not (fi.cls is not None and fi.name in ('__call__', 'evaluate')
                or any(model.norm(d) == top.name
                       for g in ex.functions.values()
                       for d in g.node.decorator_list)):
            continue
        for t in [x for x in model.walk_shallow(fi.node)
                  if isinstance(x, ast.Try)]:
            first = dispatches(t.body)
            if not first:
                continue
            n += 1
            again = [c for h in t.handlers for c in dispatches(h.body)]
            rep.ob('R11i', '%s/try' % fi.key, not again,
                   '%s evaluates (`%s`), and on %s evaluates again (`%s`): '
                   'whatever the first attempt had evaluated before it '
                   'failed runs a second time' % (
                       fi.qualname, model.norm(first[0])[:50],
                       ', '.join(model.norm(h.type) if h.type else 'any '
                                 'exception' for h in t.handlers),
                       model.norm(again[0])[:50] if again else ''),
                   loc=ex.loc(again[0] if again else t),
                   construct=model.norm(again[0]) if again else '')
    rep.floor('guarded evaluations in the expression nodes', n, 1)


def run(repo, rep):
    from sa import resmodel
    resmodel.install(repo, rep)
    METHOD_NAMES.clear()
    METHOD_NAMES.update(n for ci in repo.all_classes() for n in ci.methods
                        if not n.startswith('__'))
    rep.rule('R11a', 'ONE-SWEEP: in choose_overload eager arguments are '
             'evaluated by exactly one index-ordered traversal of the '
             'positional and one of the keyword arguments, outside every '
             'loop over candidates, skipping lazy positions')
    rep.rule('R11f', 'LAZY-KEYS: the lazy argument set is keyed by the '
             'positional index and the call\'s keyword, like the sweep')
    rep.rule('R11g', 'LAMBDA-EVALUATES-EVERY-TIME: the callable built for a '
             'lazy argument passes through the evaluating call on every '
             'path to a normal exit')
    rep.rule('R11b', 'MATCHING-NEVER-EVALUATES: no expression evaluation is '
             'reachable from map_args, check, translate_args, '
             '_is_specialization_of, or get_delegate outside its thunks')
    rep.rule('R11c', 'DECLARED-LAZY: and/or/?./switch/selectCase/'
             'switchCase/coalesce/... operands and every predicate/'
             'selector parameter are of a LazyParameterType')
    rep.rule('R11d', 'ON-DEMAND PATHS: the unselected operand\'s call is '
             'control dependent on the selecting test; first-hit loops '
             'return from inside the loop; no eager sweeps')
    rep.rule('R11e', 'PER-ELEMENT-ONCE: a lambda is applied at most once '
             'per element per path; never from a comparison method')
    rep.explanation = (
        'Evaluation sites (calls X(receiver, context, engine)) are '
        'enumerated over the whole library; their position relative to the '
        'candidate loops of choose_overload, their reachability from the '
        'matching code, the declared laziness of operands and the control '
        'dependence of lazy calls inside the functions named in the '
        'statement are decided on the AST/CFG.')
    uni = unimod.Universe(repo)
    sites = eval_sites(repo, uni)
    rep.extra_cov['evaluation_sites'] = [
        '%s: %s' % (fi.key, model.norm(c)) for fi, c in sites]
    rep.floor('expression evaluation sites', len(sites), 9)
    rep.rule('R11i', 'NO-RETRY-OF-EVALUATION: an expression node never '
             'dispatches its evaluation again from an exception handler of '
             'the first attempt')
    check_no_retry_of_evaluation(repo, rep)
    rep.rule('R11j', 'STORED-LAMBDA-ONCE-PER-SUCCESS: a stored per-group '
             'lambda is applied at most once on any path without a failed '
             'application')
    check_stored_lambda_once_per_success(repo, rep, uni)
    rep.rule('R11h', 'SWEEP-SITUATIONS: in every call situation each eager '
             'argument is evaluated exactly once, after all candidates were '
             'mapped and before any delegate is requested, positional '
             'before keyword; lazy arguments are not evaluated and '
             'delegates receive values for eager, expressions for lazy '
             'arguments')
    resmodel.report_situations(repo, rep, 'R11h', (
        'single-sweep', 'sweep-before-delegates', 'sweep-after-mapping',
        'positional-before-keyword', 'lazy-untouched',
        'delegates-get-values', 'no-evaluation-when-unmatched',
        # the lazy set of the sweep is read off the mapping by the keyword
        # the caller wrote: the mapping must be keyed that way
        'map-pairs-values-with-parameters'),
        'the argument sweep')
    resmodel.guarded(repo, rep, 'R11a', check_r11a, repo, rep)
    resmodel.guarded(repo, rep, 'R11f', check_lazy_keys, repo, rep)
    check_lambda_evaluates_every_time(repo, rep)
    check_r11b(repo, rep, uni)
    check_r11c(repo, rep, uni)
    check_r11d(repo, rep, uni)
    check_r11e(repo, rep, uni)
    # "lazy ones only on demand" also needs the plumbing to be lazy: every
    # collection argument travels through Iterable.convert, limit_iterable
    # and memorize; if one of them reads ahead, the per-element lambdas of
    # the operator upstream run for elements nobody asked for
    from sa.rules import c14
    from sa import consume
    rep.rule('R14d', 'see C14: Iterable.convert, utils.limit_iterable and '
             'utils.memorize do not read ahead of their consumer')
    c14.check_plumbing(repo, rep, consume.Consumption(repo, uni))
    rep.count(evaluation_sites=len(sites),
              overloads=len(uni.reg.overloads))
