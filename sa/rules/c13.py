"""C13 (one clause) -- iterator parameters are consumed linearly."""
import ast

from sa import cfg as cfgmod
from sa import consume
from sa import effects
from sa import model
from sa import norm
from sa import universe as unimod

TITLE = 'one-shot iterator parameters are consumed at most once per path'

EVENTS = {'loop', 'eager', 'lazy', 'lazy-then-eager', 'yieldfrom',
          'membership', 'star', 'next', 'callee-loop', 'callee-eager',
          'escape', 'pass'}
# handing the value to one of these injected delegates consumes it
CONSUMING_DELEGATES = {'to_list', 'to_set', 'delegate'}
REITERABLE = {'yaql.language.utils.memorize',
              'yaql.standard_library.queries:memorize',
              'yaql.language.utils:memorize'}
REITERABLE_EAGER = {'builtins.tuple', 'builtins.list', 'builtins.frozenset',
                    'builtins.set', 'builtins.sorted', 'to_list', 'to_set',
                    'builtins.dict'}

R13A_EXCEPTIONS = {
    ('yaql.standard_library.collections:insert_many', 'values'):
        'three `yield from values` sites under mutually exclusive position '
        'tests (position < 0 / i == position for one i / position > last '
        'index): at most one executes',
}


def once_flag_guarded(node, fn):
    """`if not F: <event>; F = True` with F initialised False outside."""
    i = model.enclosing(node, ast.If)
    while i is not None:
        t = i.test
        if isinstance(t, ast.UnaryOp) and isinstance(t.op, ast.Not) and \
                isinstance(t.operand, ast.Name):
            flag = t.operand.id
            sets = [s for s in i.body for s in model.walk_shallow(s)
                    if isinstance(s, ast.Assign) and any(
                        isinstance(x, ast.Name) and x.id == flag
                        for x in s.targets) and isinstance(
                        s.value, ast.Constant) and s.value.value is True]
            inits = [s for s in model.walk_shallow(fn)
                     if isinstance(s, ast.Assign) and any(
                         isinstance(x, ast.Name) and x.id == flag
                         for x in s.targets) and isinstance(
                         s.value, ast.Constant) and s.value.value is False]
            others = [s for s in model.walk_shallow(fn)
                      if isinstance(s, ast.Assign) and any(
                          isinstance(x, ast.Name) and x.id == flag
                          for x in s.targets) and s not in sets and
                      s not in inits]
            if sets and inits and not others and any(
                    _contains(b, node) for b in i.body):
                return True
        i = model.enclosing(i, ast.If)
    return False


# library callables whose result is a one-shot iterator over their argument:
# a local bound to one is a cursor, and reading it again continues the same
# pass instead of starting a second one
CURSOR_BUILDERS = {'builtins.enumerate', 'builtins.map', 'builtins.filter',
                   'builtins.zip', 'itertools.islice', 'itertools.chain',
                   'itertools.takewhile', 'itertools.dropwhile',
                   'itertools.starmap', 'itertools.filterfalse',
                   'itertools.accumulate', 'itertools.zip_longest',
                   'itertools.compress', 'itertools.pairwise'}


def _single_binding(fn_node, name):
    n = 0
    for x in model.walk_shallow(fn_node):
        if isinstance(x, ast.Name) and x.id == name and isinstance(
                x.ctx, (ast.Store, ast.Del)):
            n += 1
    return n == 1


def _contains(root, node):
    return any(n is node for n in ast.walk(root))


def _within(node, root):
    return any(x is node for x in ast.walk(root))


def _inside_comprehension_body(node, fn_node):
    """Is `node` evaluated per element of an enclosing comprehension (in its
    element expression, a condition, or an inner generator) rather than
    once as its outermost iterable?"""
    cur = node
    while cur is not None and cur is not fn_node:
        p = getattr(cur, '_parent', None)
        if isinstance(p, ast.comprehension):
            comp = getattr(p, '_parent', None)
            first = comp.generators[0] if comp is not None else None
            if not (p is first and cur is p.iter):
                return True
            cur = comp
            continue
        if isinstance(p, (ast.ListComp, ast.SetComp, ast.DictComp,
                          ast.GeneratorExp)):
            if cur is not p.generators[0]:
                return True      # elt / key / value
        cur = p
    return False


WHOLE = ('loop', 'eager', 'callee-eager', 'callee-loop', 'star')


def _exhausted_cursor_read(g, cursor_uses, deep):
    """A cursor (iter(p), enumerate(p), map(f, p) ...) may be read in
    several places: each read continues the same pass.  What is wrong is a
    whole-stream read of a cursor that an earlier read has already run to
    its end (a loop left because the cursor ran out, list(), sorted() ...):
    it sees nothing."""
    by_node = {}
    for alias, lst in cursor_uses.items():
        for cn, u in lst:
            if u.mode in WHOLE:
                by_node.setdefault(cn.id, []).append((alias, u))
    if sum(len(v) for v in by_node.values()) < 2:
        return None
    for path in g.paths(max_visits=3 if deep else 2,
                        limit=60000 if deep else 4000):
        done = {}
        prev = None
        for i, n in enumerate(path):
            for alias, u in by_node.get(n.id, ()):
                lp = n.ast if isinstance(n.ast, ast.For) else None
                in_header = lp is not None and _within(u.node, lp.iter)
                from_body = in_header and prev is not None and \
                    prev.stmt is not None and any(
                        _within(prev.stmt, b) or prev.stmt is b
                        for b in lp.body)
                if alias in done and not from_body:
                    first = done[alias]
                    hit = [(first[0], 'cursor `%s` run to its end by %s' % (
                        alias, first[1].mode), first[1].node, False),
                        (n, '%s of the same cursor' % u.mode, u.node, False)]
                    return (2, hit, path)
                if in_header:
                    nxt = path[i + 1] if i + 1 < len(path) else None
                    inside = nxt is not None and nxt.stmt is not None and \
                        any(_within(nxt.stmt, b) or nxt.stmt is b
                            for b in lp.body)
                    if not inside:
                        done[alias] = (n, u)
                elif u.mode != 'loop' and not any(
                        k in (u.detail or '') for k in ('any', 'all')):
                    done[alias] = (n, u)
            prev = n
    return None


def analyse(repo, cons, fi, pname, deep=False):
    """-> (events, violations) for parameter pname of fi."""
    uses = cons.uses(fi, pname)
    g = cfgmod.CFG(fi.node)
    events = []        # (cfg node, label, ast node, once)
    frees = []         # cfg nodes after which the name is re-iterable/cursor
    cursor_groups = {}
    cursor_uses = {}
    # what each local alias of the parameter is: a cursor (iter(p)), a
    # re-iterable copy (memorize / tuple / list ...), or just another name
    alias_kind = {}
    for st in model.walk_shallow(fi.node):
        if isinstance(st, ast.Assign) and len(st.targets) == 1 and \
                isinstance(st.targets[0], ast.Name) and isinstance(
                st.value, ast.Call):
            d = repo.resolve(fi.module, st.value.func,
                             model.scope_locals(fi))
            tg = repo.lookup(d) if d else None
            key = tg.key if isinstance(tg, model.FuncInfo) else d
            nm = st.targets[0].id
            if d == 'builtins.iter' or d in CURSOR_BUILDERS and \
                    _single_binding(fi.node, nm):
                alias_kind[nm] = ('cursor', st)
            elif key in REITERABLE or d in REITERABLE or (
                    d in REITERABLE_EAGER) or (
                    isinstance(st.value.func, ast.Name) and
                    st.value.func.id in ('to_list', 'to_set')):
                alias_kind[nm] = ('reiterable', st)
    reiterable_seen = set()
    for u in uses:
        stmt = model.enclosing(u.node, ast.stmt) if not isinstance(
            u.node, ast.stmt) else u.node
        cn = g.node_of(u.node)
        if cn is None:
            continue
        self_rebind = isinstance(stmt, ast.Assign) and len(
            stmt.targets) == 1 and isinstance(
            stmt.targets[0], ast.Name) and stmt.targets[0].id == pname
        if u.mode == 'alias':
            if self_rebind and (u.via in REITERABLE):
                frees.append(cn)
            elif self_rebind and u.via == 'builtins.iter':
                frees.append(cn)
                events.append((cn, 'iter() cursor', u.node, False))
            continue
        if u.mode not in EVENTS:
            continue
        if u.mode == 'pass' and u.detail not in CONSUMING_DELEGATES:
            continue   # handed to a user lambda / scalar helper
        re_alias = [a for a in ([u.alias] if u.alias else []) + list(
            getattr(u, 'chain', ())) if a != pname and alias_kind.get(
            a, (None,))[0] == 'reiterable']
        if re_alias:
            u.alias = re_alias[0]
        if u.alias and u.alias != pname and \
                alias_kind.get(u.alias, (None,))[0] == 'reiterable':
            # uses of a re-iterable copy: the copy reads the parameter
            # once, whatever is done with the copy afterwards
            continue
        if u.alias and (u.via == 'builtins.iter' or alias_kind.get(
                u.alias, (None,))[0] == 'cursor'):
            # uses of an explicit cursor: one event, at the iter() call
            cursor_groups.setdefault(u.alias, (cn, u))
            cursor_uses.setdefault(u.alias, []).append((cn, u))
            continue
        if self_rebind and (u.mode in ('eager', 'pass', 'callee-eager') and (
                any(k in u.detail for k in REITERABLE_EAGER) or
                u.via in REITERABLE)):
            events.append((cn, u.mode + ' ' + u.detail, u.node, False))
            frees.append(cn)
            continue
        if self_rebind and u.via in REITERABLE:
            frees.append(cn)
            continue
        once = once_flag_guarded(u.node, fi.node)
        events.append((cn, u.mode + ' ' + u.detail, u.node, once))
        if _inside_comprehension_body(u.node, fi.node):
            # evaluated once per element of a comprehension: as good as
            # inside a loop
            events.append((cn, u.mode + ' ' + u.detail + ' (again, for the '
                           'next element of the comprehension)', u.node,
                           once))
    for alias, (cn, u) in cursor_groups.items():
        # locate the `alias = iter(p)` statement
        for s in model.walk_shallow(fi.node):
            if isinstance(s, ast.Assign) and any(
                    isinstance(t, ast.Name) and t.id == alias
                    for t in s.targets):
                c2 = g.node_of(s)
                if c2 is not None:
                    events.append((c2, 'cursor %s = iter(%s)' % (
                        alias, pname), s, False))
                break
    exhausted = _exhausted_cursor_read(g, cursor_uses, deep)
    if exhausted is not None:
        return events, [exhausted]
    if len(events) < 2 and not any(e[0].loop_depth > 0 for e in events):
        return events, []
    ev_by_node = {}
    for e in events:
        ev_by_node.setdefault(e[0].id, []).append(e)
    free_ids = {f.id for f in frees}
    worst = None
    for path in g.paths(max_visits=3 if deep else 2,
                        limit=60000 if deep else 4000):
        count = 0
        hit = []
        once_seen = set()
        free = False
        prev = None
        for n in path:
            if not free:
                for e in ev_by_node.get(n.id, ()):
                    # the header of a `for` loop is visited once per
                    # iteration, but the iterable is consumed once per
                    # *entry* into the loop
                    lp = n.ast if isinstance(n.ast, ast.For) else n.stmt
                    if isinstance(lp, ast.For) and e[2] is not None and \
                            _within(e[2], lp.iter) and prev is not None \
                            and prev.stmt is not None and any(
                                _within(prev.stmt, b) or prev.stmt is b
                                for b in lp.body):
                        continue
                    if e[3]:
                        if id(e[2]) in once_seen:
                            continue
                        once_seen.add(id(e[2]))
                    count += 1
                    hit.append(e)
                    if isinstance(lp, ast.For) and _within(
                            e[2], lp.iter) and n.loop_depth >= 1:
                        # a loop that is itself inside a loop is entered
                        # again on the next iteration of the outer one
                        count += 1
                        hit.append((e[0], e[1] + ' (re-entered on the next '
                                    'iteration of the enclosing loop)',
                                    e[2], e[3]))
            if n.id in free_ids:
                free = True
            prev = n
        if count >= 2 and (worst is None or count < worst[0]):
            worst = (count, hit, path)
            if count == 2:
                break
    if worst is None:
        return events, []
    return events, [worst]


DATA_LIKE = ('param', 'derived', 'lazyres', 'lazy')


def _none_tests(fn_node, name):
    """Tests that read local `name` as "nothing yet": `name is None`,
    `name is not None`."""
    out = []
    for c in model.walk_shallow(fn_node):
        if isinstance(c, ast.Compare) and isinstance(
                c.left, ast.Name) and c.left.id == name and len(
                c.ops) == 1 and isinstance(
                c.ops[0], (ast.Is, ast.IsNot)) and isinstance(
                c.comparators[0], ast.Constant) and \
                c.comparators[0].value is None:
            out.append(c)
    return out


def none_sentinel_sites(uni, fi):
    """Locals that start as None, are later bound to a value of the
    evaluation (an element, a lambda result, an argument) and are asked
    `is None` to find out whether that has happened yet: null is a value of
    the language, so a null element / null lambda result reads as "nothing
    yet"."""
    inits, later = {}, {}
    params = set(fi.params())
    for st in model.walk_shallow(fi.node):
        tgts = []
        if isinstance(st, ast.Assign):
            tgts = [t for t in st.targets if isinstance(t, ast.Name)]
            val = st.value
        else:
            continue
        for t in tgts:
            if t.id in params:
                continue
            if isinstance(val, ast.Constant) and val.value is None:
                inits.setdefault(t.id, []).append(st)
            else:
                later.setdefault(t.id, []).append(st)
    out = []
    env = None
    for name in inits:
        if name not in later:
            continue
        tests = _none_tests(fi.node, name)
        if not tests:
            continue
        env = env or uni.env(fi)
        for st in later[name]:
            v = env.ev(st.value)
            if any(t[0] in DATA_LIKE for t in v.tags):
                out.append((name, st, tests[0]))
                break
    return out


def lookup_default_sites(uni, fi):
    """`m.get(k)` / `m.get(k, None)` / `m.pop(k, None)` on a mapping of
    argument values, compared with None: a keyword whose value is null
    reads as an absent keyword."""
    out = []
    env = None
    for c in model.walk_shallow(fi.node):
        if not (isinstance(c, ast.Call) and isinstance(
                c.func, ast.Attribute) and c.func.attr in ('get', 'pop')):
            continue
        if not c.args or len(c.args) > 2:
            continue
        if len(c.args) == 2 and not (isinstance(
                c.args[1], ast.Constant) and c.args[1].value is None):
            continue
        if len(c.args) == 1 and c.func.attr == 'pop':
            continue
        env = env or uni.env(fi)
        v = env.ev(c.func.value)
        if not any(t[0] in DATA_LIKE or t[0] == 'fresh' and any(
                x[0] in DATA_LIKE for x in v.c1 | v.deep)
                for t in v.tags):
            continue
        # where does the looked-up value go?
        par = getattr(c, '_parent', None)
        tested = None
        if isinstance(par, ast.Compare) and len(par.ops) == 1 and \
                isinstance(par.ops[0], (ast.Is, ast.IsNot)) and \
                isinstance(par.comparators[0], ast.Constant) and \
                par.comparators[0].value is None and par.left is c:
            tested = par
        elif isinstance(par, ast.Assign) and len(par.targets) == 1 and \
                isinstance(par.targets[0], ast.Name):
            ts = _none_tests(fi.node, par.targets[0].id)
            if ts and sum(1 for s2 in model.walk_shallow(fi.node)
                          if isinstance(s2, ast.Assign) and any(
                              isinstance(t, ast.Name) and
                              t.id == par.targets[0].id
                              for t in s2.targets)) == 1:
                tested = ts[0]
        if tested is not None:
            out.append((model.norm(c.func.value), c, tested))
    return out


def check_absence_is_not_null(repo, rep, uni, scope, rule, floor_fixture,
                              sentinels=True):
    """Shared by C13 (R13c, the standard library) and C12 (R12h, argument
    mapping)."""
    n = 0
    for fi in scope:
        for name, st, test in (none_sentinel_sites(uni, fi) if sentinels
                               else ()):
            n += 1
            rep.ob(rule, '%s/none-sentinel[%s]' % (fi.key, name), False,
                   'local `%s` starts as None, is then bound to a value of '
                   'the evaluation (`%s`) and `%s` is used to ask whether '
                   'that has happened: null is a value of the language, so '
                   'a null element / null result reads as "nothing yet" '
                   '(use a marker object such as utils.NO_VALUE)' % (
                       name, model.norm(st)[:50], model.norm(test)),
                   loc=fi.module.loc(test), construct=model.norm(test))
        for m, call, test in lookup_default_sites(uni, fi):
            n += 1
            rep.ob(rule, '%s/lookup-default[%s]' % (fi.key, m), False,
                   '`%s` is compared with None to decide whether the key '
                   'is present in a mapping of argument values: an '
                   'argument whose value is null reads as an absent '
                   'argument (test membership with `in`)' % model.norm(
                       call), loc=fi.module.loc(test),
                   construct=model.norm(test))
    if floor_fixture:
        from sa.rules import c09
        m = c09.load_fixture(repo, 'c13_fixture.py')
        repo.modules[m.name] = m
        try:
            flagged = set()
            for f in m.functions.values():
                if f.parent_func is None and (
                        none_sentinel_sites(uni, f) or
                        lookup_default_sites(uni, f)):
                    flagged.add(f.name)
        finally:
            del repo.modules[m.name]
        want = {'bad_none_sentinel', 'bad_lookup_default'}
        rep.ob(rule, 'fixtures/c13_fixture.py/positive-control',
               flagged == want,
               'positive control: expected %s flagged and the ok_* '
               'functions silent; flagged %s' % (sorted(want),
                                                 sorted(flagged)))
    return n


def _reused_after_yield(fi):
    """[(name, yield node, in-place write or None)] for every local
    container fi yields."""
    out = []
    ys = [y for y in model.walk_shallow(fi.node)
          if isinstance(y, ast.Yield) and isinstance(y.value, ast.Name)]
    if not ys:
        return out
    g = cfgmod.CFG(fi.node)
    writes = {}
    for w in effects.writes_in(fi.node):
        if w.kind in ('mutcall', 'subscript', 'del-subscript', 'aug') \
                and w.root:
            cn = g.node_of(w.node)
            if cn is not None:
                writes.setdefault(w.root, []).append((cn, w))
    for y in ys:
        name = y.value.id
        if name in fi.params() or name not in writes:
            continue
        start = g.node_of(y)
        hit = None
        seen = set()
        stack = [s for s, _ in start.succ] if start else []
        while stack and hit is None:
            nd = stack.pop()
            if nd.id in seen:
                continue
            seen.add(nd.id)
            for cn, w in writes[name]:
                if cn is nd:
                    hit = w
            rebinds = nd.stmt is not None and isinstance(
                nd.stmt, ast.Assign) and any(
                isinstance(t, ast.Name) and t.id == name
                for t in nd.stmt.targets) and nd.ast is nd.stmt
            if hit is None and not rebinds:
                stack.extend(s for s, _ in nd.succ)
        out.append((name, y, hit))
    return out


def check_yielded_containers_not_reused(repo, rep, uni):
    """R13e: what a generator has handed out belongs to the consumer.  A
    local container that was yielded and is afterwards changed in place
    (cleared, appended to, deleted from) without having been re-bound to a
    new object changes under every consumer that kept the earlier results
    (toList, reverse, orderBy ...): all pieces end up being the same
    object."""
    n = 0
    for fi, role in uni.evaluation_time():
        if not fi.module.name.startswith('yaql.standard_library'):
            continue
        for name, y, hit in _reused_after_yield(fi):
            n += 1
            rep.ob('R13e', '%s/yield[%s]' % (fi.key, name), hit is None,
                   '%s yields the list `%s` and then changes that same '
                   'object in place (`%s`) before binding the name to a new '
                   'one: a consumer that keeps the yielded pieces sees them '
                   'all change' % (fi.qualname, name,
                                   model.norm(hit.node).split('\n')[0]
                                   if hit else ''),
                   loc=fi.module.loc(hit.node if hit else y))
    from sa.rules import c09
    fm = c09.load_fixture(repo, 'c13_fixture.py')
    flagged = {f.name for f in fm.functions.values()
               if any(h is not None for _, _, h in _reused_after_yield(f))}
    rep.ob('R13e', 'fixtures/c13_fixture.py/positive-control',
           flagged == {'bad_recycles_buffer'},
           'positive control: expected bad_recycles_buffer flagged and '
           'ok_rebinds_buffer silent; flagged %s' % sorted(flagged))
    rep.ob('R13e', 'standard-library', True,
           '%d yielded local containers followed' % n, nontrivial=True)


def check_mapping_hash_ignores_order(repo, rep):
    """R13d: dictionaries compare equal whatever the order their keys were
    written in (FrozenDict has no __eq__ of its own: Mapping equality), so
    the hash that distinct / groupBy / toSet / `in` look them up by must not
    depend on that order: the items are combined with a commutative
    operation (^, +, frozenset), never hashed as a sequence."""
    ut = repo.module('yaql.language.utils')
    ci = ut.classes.get('FrozenDict')
    m = ci.methods.get('__hash__') if ci else None
    if m is None:
        raise AnalysisError('anchor vanished: FrozenDict.__hash__')
    bad = []
    good = 0
    for c in model.calls_in(m.node):
        if not (isinstance(c.func, ast.Name) and c.func.id == 'hash' and
                c.args):
            continue
        a = norm.subst_locals(m.node, c.args[0], only_pure=False)
        seq = isinstance(a, (ast.Tuple, ast.List)) or (
            isinstance(a, ast.Call) and isinstance(a.func, ast.Name) and
            a.func.id in ('tuple', 'list', 'str', 'repr'))
        walks_items = any(isinstance(x, ast.Attribute) and x.attr in (
            'items', 'keys', 'values', '_d') for x in ast.walk(a))
        if seq and walks_items:
            bad.append(c)
        else:
            good += 1
    rep.ob('R13d', m.key, not bad and good > 0,
           'FrozenDict.__hash__ hashes its items as a sequence (`%s`): two '
           'equal dictionaries written with their keys in a different '
           'order then hash differently, and distinct(), groupBy(), '
           'toSet(), set operators and `in` treat them as different '
           'values' % (model.norm(bad[0]) if bad else 'no item hash found'),
           loc=ut.loc(bad[0] if bad else m.node),
           construct=model.norm(bad[0]) if bad else '')


def check_reiterable_premise(repo, rep):
    """R13b: R13a treats a name re-bound through memorize() as re-iterable.
    That holds only if every pass gets its own cursor: the class of the
    returned object answers __iter__ with a *new* instance (or is a
    generator method), and keeps its position per instance."""
    ut = repo.module('yaql.language.utils')
    fi = ut.func('memorize')
    n = 0
    for r in model.walk_shallow(fi.node):
        if not isinstance(r, ast.Return) or r.value is None:
            continue
        v = r.value
        if isinstance(v, ast.Name) and v.id in fi.params():
            continue       # not an iterator: handed back unchanged
        site = '%s/return[%s]' % (fi.key, model.norm(v)[:40])
        cls = None
        if isinstance(v, ast.Call) and isinstance(v.func, ast.Name):
            cls = ut.classes.get(fi.qualname + '.' + v.func.id) or \
                ut.classes.get(v.func.id)
        if cls is None:
            gen_ok = isinstance(v, ast.Call) and isinstance(
                v.func, ast.Name) and (ut.functions.get(
                    fi.qualname + '.' + v.func.id) is not None)
            rep.ob('R13b', site, False if not gen_ok else True,
                   'memorize returns `%s`, which is not an instance of a '
                   'class defined here: cannot establish that it can be '
                   'iterated more than once' % model.norm(v),
                   loc=ut.loc(r))
            continue
        n += 1
        it = cls.methods.get('__iter__')
        ok = False
        why = 'has no __iter__'
        if it is not None:
            if consume.is_generator(it.node):
                ok = True
            else:
                rets = [x.value for x in model.walk_shallow(it.node)
                        if isinstance(x, ast.Return)]
                fresh = [x for x in rets if isinstance(x, ast.Call) and
                         isinstance(x.func, ast.Name) and
                         x.func.id == cls.node.name]
                ok = bool(rets) and len(fresh) == len(rets)
                why = 'returns %s' % ', '.join(
                    '`%s`' % model.norm(x) for x in rets if x not in fresh)
        rep.ob('R13b', site + '/__iter__', ok,
               'the object memorize() returns answers __iter__ with %s '
               'instead of a new cursor: two passes over a memorized '
               'collection (nested loops, a second scan) share one '
               'position, so the second sees only what the first left' % (
                   why[8:] if why.startswith('returns ') else why),
               loc=ut.loc(it.node if it else cls.node),
               construct=model.norm(it.node)[:120] if it else cls.node.name)
        for mname in ('__next__', '__init__', '__iter__'):
            m = cls.methods.get(mname)
            if m is None:
                continue
            shared = [x for x in model.walk_shallow(m.node)
                      if isinstance(x, (ast.Nonlocal, ast.Global))]
            idx_writes = [x for x in model.walk_shallow(m.node)
                          if isinstance(x, (ast.AugAssign, ast.Assign)) and
                          any(isinstance(t, ast.Name) for t in (
                              [x.target] if isinstance(x, ast.AugAssign)
                              else x.targets))
                          and shared]
            rep.ob('R13b', site + '/' + mname + '/per-instance-position',
                   not idx_writes,
                   '%s.%s keeps its position in a variable shared by all '
                   'cursors (%s)' % (cls.node.name, mname, ', '.join(
                       model.norm(x) for x in idx_writes[:2])),
                   loc=ut.loc(m.node))
    rep.floor('re-iterable wrapper classes checked', n, 1)


def run(repo, rep):
    rep.rule('R13a', 'ITERATOR-LINEARITY: along every CFG path a parameter '
             'that admits a one-shot iterator is consumed (iterated, handed '
             'to a consumer, returned) at most once, and never inside a '
             'loop, unless first re-bound to a re-iterable (memorize/tuple/'
             'to_list) or to an explicit cursor (iter())')
    rep.rule('R13e', 'YIELDED-CONTAINERS-ARE-NOT-REUSED: a generator does not '
             'change in place a container it has yielded')
    rep.rule('R13d', 'MAPPING-HASH-IGNORES-ORDER: FrozenDict.__hash__ combines '
             'its items commutatively')
    rep.rule('R13c', 'ABSENCE-IS-NOT-NULL: no local that means "nothing '
             'yet" while it is None is bound to a value of the evaluation, '
             'and no lookup-with-None-default is compared with None')
    rep.rule('R13b', 'RE-ITERABLE PREMISE: the object utils.memorize '
             'returns hands out a new cursor per __iter__ and keeps its '
             'position per instance (what R13a relies on when a parameter '
             'is re-bound through memorize)')
    rep.trusted += ['eager/lazy consumer catalogue in sa/consume.py']
    rep.explanation = (
        'Necessary clause of the property: a function that consumes a '
        'one-shot iterator argument twice on one path sees an exhausted '
        'iterator the second time and computes from partial data. Decided '
        'per parameter on the statement CFG (loops unrolled twice).')
    uni = unimod.Universe(repo)
    cons = consume.Consumption(repo, uni)
    check_reiterable_premise(repo, rep)
    check_mapping_hash_ignores_order(repo, rep)
    check_yielded_containers_not_reused(repo, rep, uni)
    scope = [f for f, r in uni.evaluation_time()
             if f.module.name.startswith('yaql.standard_library')]
    check_absence_is_not_null(repo, rep, uni, scope, 'R13c', True)
    rep.ob('R13c', 'standard-library', True, '%d functions scanned' % len(
        scope), nontrivial=True)
    seen = set()
    n = 0
    nev = 0
    for ov in uni.reg.overloads:
        for p in ov.params:
            if p.type.hidden or p.type.lazy or p.kind in ('vararg', 'varkw'):
                continue
            if not p.type.admits_iterator():
                continue
            k = (ov.func.key, p.name)
            if k in seen:
                continue
            seen.add(k)
            fi = ov.func
            n += 1
            events, viol = analyse(repo, cons, fi, p.name,
                                   deep=rep.tier == 'thorough')
            nev += len(events)
            site = '%s/%s' % (fi.key, p.name)
            if not viol:
                rep.ob('R13a', site, True, '%d consumption site(s), at most '
                       'one per path' % len(events),
                       nontrivial=len(events) > 0)
                continue
            if k in R13A_EXCEPTIONS:
                rep.ob('R13a', site, True, 'reviewed exception: ' +
                       R13A_EXCEPTIONS[k])
                continue
            count, hit, path = viol[0]
            rep.ob('R13a', site, False,
                   'parameter `%s` may hold a one-shot iterator and is '
                   'consumed %d times on one path: %s; the later '
                   'consumption sees only what the earlier one left' % (
                       p.name, count,
                       ' THEN '.join('%s (line %d)' % (
                           e[1], getattr(e[2], 'lineno', 0)) for e in hit)),
                   loc=fi.module.loc(hit[1][2]),
                   construct=' ; '.join(model.norm(model.enclosing(
                       e[2], ast.stmt) or e[2]).split('\n')[0][:70]
                       for e in hit[:2]),
                   path=[repr(x) for x in path][:40])
    rep.count(iterator_admitting_parameters=n, consumption_events=nev)
    rep.floor('iterator-admitting parameters', n, 60)
