"""C10 -- data round-trips and every result is finalised into plain data.

Abstract interpretation of convert_output_data / convert_input_data over a
finite container-shape domain x the 4 output-option combinations.
"""
import ast

from sa import model
from sa import norm
from sa import shapes
from sa import universe as unimod
from sa.model import AnalysisError
from sa.shapes import Shape

TITLE = 'finaliser type-level behaviour on every container shape x options'

UT = 'yaql.language.utils'
OPTS = [(t, s) for t in (True, False) for s in (False, True)]

# how a payload's return expression maps to a kind of the shape universe
RETURN_KINDS = {
    'builtins.map': 'map', 'builtins.filter': 'map', 'builtins.zip': 'map',
    'builtins.enumerate': 'map', 'builtins.reversed': 'map',
    'builtins.iter': 'map', 'itertools.islice': 'islice',
    'itertools.chain': 'islice', 'itertools.takewhile': 'islice',
    'itertools.dropwhile': 'islice', 'itertools.cycle': 'islice',
    'itertools.repeat': 'islice', 'itertools.count': 'islice',
    'itertools.zip_longest': 'islice', 'builtins.range': 'tuple',
    'itertools.chain.from_iterable': 'islice', 'itertools.starmap': 'islice',
    'itertools.accumulate': 'islice', 'itertools.filterfalse': 'islice',
    'itertools.compress': 'islice', 'itertools.pairwise': 'islice',
    'itertools.product': 'islice', 'itertools.groupby': 'islice',
    'builtins.tuple': 'tuple', 'builtins.list': 'list',
    'builtins.frozenset': 'frozenset', 'builtins.set': 'set',
    'builtins.dict': 'dict', 'builtins.sorted': 'list',
    UT + '.FrozenDict': 'FrozenDict',
    'yaql.standard_library.queries.OrderingIterable': 'OrderingIterable',
}
VIEW_METHODS = {'keys': 'dict_keys', 'values': 'dict_values',
                'items': 'dict_items'}


def optdict(t, s):
    return {'yaql.convertTuplesToLists': t, 'yaql.convertSetsToLists': s}


def expected_out(facts, shape, t, s):
    """What the property demands of the finalised value (kinds only);
    None where the demands contradict each other."""
    k = shape.kind
    if not shape.kids and k in shapes.LEAVES + ('float', 'bool'):
        return Shape(k)
    if facts.is_mapping(k):
        if not shape.kids:
            return Shape('dict')
        return Shape('dict', [expected_out(facts, shape.kids[0], t, s),
                              expected_out(facts, shape.kids[1], t, s)])
    kids = [expected_out(facts, c, t, s) for c in shape.kids]
    if facts.is_setlike(k):
        return Shape('list' if s else 'set', kids)
    if k == 'tuple':
        return Shape('list' if t else 'tuple', kids)
    if k == 'list':
        return Shape('list', kids)
    if k == 'str':
        return Shape('str')
    return Shape('list', kids)


def same(a, b):
    if a is None or b is None:
        return False
    if a.kind != b.kind:
        return False
    if len(a.kids) != len(b.kids):
        return not a.kids or not b.kids
    return all(same(x, y) for x, y in zip(a.kids, b.kids))


def plain(shape, t, s):
    if shape.kind in ('dict', 'list') or (shape.kind == 'tuple' and not t) \
            or (shape.kind == 'set' and not s) or shape.kind in \
            shapes.LEAVES + ('float', 'bool'):
        return all(plain(k, t, s) for k in shape.kids)
    return False


def check_finaliser(repo, rep, facts, depth, extra_kinds=()):
    mod = repo.module(UT)
    fi = mod.func('convert_output_data')
    uni = shapes.universe(facts, depth, extra_kinds=extra_kinds)
    n = 0
    for t, s in OPTS:
        it = shapes.Interp(repo, fi, facts, optdict(t, s))
        for sh in uni:
            n += 1
            tag = 'T=%d,S=%d' % (t, s)
            try:
                out = it.convert(sh)
            except shapes.Error as e:
                if e.role == 'constructor':
                    rep.ob('R10a', 'finaliser/constructor[%s]/%s' % (
                        e.outer, tag), False,
                        'finalising a value of shape %s under %s fails: '
                        '%s (TypeError inside #finalize although the '
                        'evaluation succeeded)' % (sh, tag, e.detail),
                        loc=mod.loc(fi.node), construct='%s %s' % (sh, tag))
                    continue
                inner = e.inner.kind if isinstance(e.inner, Shape) else (
                    offending_kind(facts, sh, e.role, t, s))
                outk = e.outer
                if isinstance(e.inner, Shape):
                    conv = expected_out(facts, e.inner, t, s)
                    outk = conv.kind
                site = 'finaliser/unhashable[%s->%s]/%s' % (
                    e.role, outk, tag)
                rep.ob('R10a', site, False,
                       'finalising a value of shape %s under %s fails: a %s '
                       'of kind %s is converted to an unhashable %s and '
                       'then used as %s (TypeError: unhashable type)' % (
                           sh, tag, e.role.split('-')[1], inner, e.outer,
                           'a set element' if e.role == 'set-element'
                           else 'a dict key'),
                       loc=mod.loc(fi.node), construct='%s %s' % (sh, tag))
                continue
            want = expected_out(facts, sh, t, s)
            ok = same(out, want) and plain(out, t, s)
            df = first_diff(sh, out, want) if not ok else None
            site = 'finaliser/ok' if ok else \
                'finaliser/result-kind[%s->%s,expected %s]/%s' % (
                    (df or (sh.kind, 'not plain', '?')) + (tag,))
            rep.ob('R10a', site, ok,
                   'shape %s under %s finalises to %s; the property demands '
                   '%s (plain data for those options)' % (sh, tag, out,
                                                          want),
                   loc=mod.loc(fi.node), construct='%s %s' % (sh, tag))
    rep.floor('finaliser shape x option obligations', n, 400)
    return n, len(uni)


def first_diff(inp, got, want):
    """(input kind, got kind, wanted kind) at the outermost position where
    the kinds differ."""
    if got is None or want is None:
        return (inp.kind if inp else '?', str(got), str(want))
    if got.kind != want.kind:
        return (inp.kind if inp is not None else '?', got.kind, want.kind)
    ikids = inp.kids if inp is not None else ()
    if inp is not None and inp.kind == 'dict_items' and inp.kids:
        ikids = inp.kids
    for i, (g, w) in enumerate(zip(got.kids, want.kids)):
        ik = ikids[i] if i < len(ikids) else None
        d = first_diff(ik, g, w)
        if d is not None:
            return d
    return None


def same_top(a, b):
    return a is not None and b is not None and a.kind == b.kind


def offending_kind(facts, shape, role, t, s):
    """Kind of the first nested element whose expected conversion is
    unhashable where hashability is needed."""
    def unhashable(sh):
        e = expected_out(facts, sh, t, s)
        return not facts.hashable_out(e)
    stack = [shape]
    while stack:
        sh = stack.pop(0)
        if role == 'set-element' and facts.is_setlike(sh.kind):
            for c in sh.kids:
                if unhashable(c):
                    return c.kind
        if role == 'dict-key' and facts.is_mapping(sh.kind) and sh.kids:
            if unhashable(sh.kids[0]):
                return sh.kids[0].kind
        if sh.kind == 'dict_items' and sh.kids:
            pair = sh.kids[0]
            if role == 'set-element' and unhashable(pair):
                return 'tuple'
        stack.extend(sh.kids)
    return '?'


def expected_in(facts, shape):
    k = shape.kind
    if not shape.kids and k in shapes.LEAVES + ('float', 'bool'):
        return Shape(k)
    if k == 'str':
        return Shape('str')
    if facts.is_mapping(k):
        return Shape('FrozenDict', [expected_in(facts, c)
                                    for c in shape.kids])
    kids = [expected_in(facts, c) for c in shape.kids]
    if facts.isinstance_(k, 'collections.abc.Sequence'):
        return Shape('tuple', kids)
    if facts.is_setlike(k):
        return Shape('frozenset', kids)
    return Shape('map', kids)


def check_input(repo, rep, facts, depth):
    mod = repo.module(UT)
    fin = mod.func('convert_input_data')
    fout = mod.func('convert_output_data')
    uni = [s for s in shapes.universe(facts, depth, input_side=True)
           if s.kind not in ('dict_keys', 'dict_values')]
    iin = shapes.Interp(repo, fin, facts, {})
    n = 0
    for sh in uni:
        n += 1
        try:
            mid = iin.convert(sh)
        except shapes.Error as e:
            rep.ob('R10b', 'input/unhashable[%s->%s]' % (sh.kind, e.outer),
                   False, 'converting host data of shape %s fails (%s)' % (
                       sh, e.detail), loc=mod.loc(fin.node),
                   construct=repr(sh))
            continue
        want = expected_in(facts, sh)
        ok = same(mid, want)
        df = first_diff(sh, mid, want) if not ok else None
        rep.ob('R10b', 'input/ok' if ok else
               'input/kind[%s->%s,expected %s]' % (df or ('?', '?', '?')),
               ok,
               'host value of shape %s is converted to %s; the canonical '
               'immutable form is %s' % (sh, mid, want),
               loc=mod.loc(fin.node), construct=repr(sh))
        # round trip `$`
        for t, s in OPTS:
            iout = shapes.Interp(repo, fout, facts, optdict(t, s))
            tag = 'T=%d,S=%d' % (t, s)
            n += 1
            try:
                back = iout.convert(mid)
            except shapes.Error as e:
                # already reported on the output side
                continue
            wantb = expected_out(facts, want, t, s)
            ok = same(back, wantb)
            df = first_diff(sh, back, wantb) if not ok else None
            rep.ob('R10b', 'roundtrip/ok' if ok else
                   'roundtrip/kind[%s->%s,expected %s]/%s' % (
                       (df or ('?', '?', '?')) + (tag,)), ok,
                   'binding host data of shape %s to $ and evaluating `$` '
                   'under %s returns %s, not the canonical %s' % (
                       sh, tag, back, wantb), loc=mod.loc(fin.node),
                   construct='%s %s' % (sh, tag))
    rep.floor('input / round-trip obligations', n, 150)
    return n


def check_always_finalised(repo, rep, uni):
    ex = repo.module('yaql.language.expressions')
    st = ex.cls('Statement')
    init = st.methods.get('__init__')
    ok = False
    for c in model.calls_in(init.node):
        if isinstance(c.func, ast.Attribute) and c.func.attr == '__init__' \
                and c.args and isinstance(c.args[0], ast.Constant) and \
                c.args[0].value == '#finalize':
            ok = len(c.args) >= 2 and isinstance(c.args[1], ast.Name)
    rep.ob('R10c', init.key, ok,
           'a Statement must be the function call #finalize(<expression>)',
           loc=ex.loc(init.node))
    ev = st.methods.get('evaluate')
    ok = any(isinstance(r.value, ast.Call) and isinstance(
        r.value.func, ast.Name) and r.value.func.id == 'self'
        for r in model.walk_shallow(ev.node) if isinstance(r, ast.Return)
        and r.value is not None)
    rets = [r for r in model.walk_shallow(ev.node)
            if isinstance(r, ast.Return)]
    rep.ob('R10c', ev.key, ok and len(rets) == 1,
           'Statement.evaluate must return self(...) -- the #finalize call '
           '-- on every path', loc=ex.loc(ev.node))
    call = norm.inline_tail_calls(repo, st.methods.get('__call__'))
    rets = [r for r in model.walk_shallow(call.node)
            if isinstance(r, ast.Return)]
    ok = bool(rets) and all(
        isinstance(r.value, ast.Call) and isinstance(
            r.value.func, ast.Attribute) and r.value.func.attr == '__call__'
        and isinstance(r.value.func.value, ast.Call) and isinstance(
            r.value.func.value.func, ast.Name) and
        r.value.func.value.func.id == 'super' for r in rets)
    rep.ob('R10c', call.key, ok,
           'Statement.__call__ must dispatch through Function.__call__ '
           '(the #finalize function)', loc=ex.loc(call.node))
    yi = repo.module('yaql.yaql_interface')
    # every function of the host interface that evaluates a statement or
    # dispatches a yaql function hands its result through the output
    # converter (whether it is a method, a closure or a small callable
    # class)
    hosts = []
    for f in yi.functions.values():
        disp = [c for c in model.calls_in(f.node, shallow=True)
                if isinstance(c.func, ast.Call) or (isinstance(
                    c.func, ast.Attribute) and c.func.attr == 'evaluate')
                or (isinstance(c.func, ast.Name) and isinstance(
                    norm.subst_locals(f.node, c.func, only_pure=False),
                    ast.Call))]
        if disp:
            hosts.append(f)
    if len(hosts) < 2:
        raise AnalysisError('anchor vanished: the evaluating entry points '
                            'of yaql_interface (%d found)' % len(hosts))
    for f in hosts:
        rets = [r for r in model.walk_shallow(f.node)
                if isinstance(r, ast.Return)]
        ok = bool(rets) and all(
            isinstance(r.value, ast.Call) and repo.resolve(
                yi, r.value.func, model.scope_locals(f)) ==
            UT + '.convert_output_data' for r in rets)
        rep.ob('R10c', f.key, ok,
               'the host interface must return convert_output_data(...)',
               loc=yi.loc(f.node))
    # the registered #finalize returns convert_output_data(obj, ...) unless
    # the host switched conversion off
    init = repo.module('yaql')
    fzs = [o.func for o in uni.reg.overloads
           if o.ctx == 'finalizer' and o.name == '#finalize']
    if not fzs:
        raise AnalysisError('anchor vanished: the default #finalize '
                            'registered by yaql._setup_context')
    fz = fzs[0]
    ok = any(isinstance(r.value, ast.Call) and repo.resolve(
        init, r.value.func, model.scope_locals(fz)) ==
        UT + '.convert_output_data'
        for r in model.walk_shallow(fz.node)
        if isinstance(r, ast.Return) and r.value is not None)
    rep.ob('R10c', fz.key, ok, 'the default #finalize must call '
           'convert_output_data', loc=init.loc(fz.node))
    # ... and "switched off" means the host set yaql.convertOutputData to a
    # false value, nothing else: the decision is evaluated abstractly for
    # every combination of the conversion options being unset / off / on
    from sa import absint
    import itertools
    ps = fz.params()
    n = 0
    bad = []
    KEYS = ('yaql.convertOutputData', 'yaql.convertInputData',
            'yaql.convertTuplesToLists', 'yaql.convertSetsToLists')
    for vals in itertools.product((None, False, True), repeat=len(KEYS)):
        opts = {k: v for k, v in zip(KEYS, vals) if v is not None}
        raw = absint.Sym('raw')
        conv = absint.Sym('converted')

        def oracle(callee, args, kwargs):
            if callee.endswith('convert_output_data'):
                return (conv,) if args and args[0] is raw else (
                    absint.Sym('converted-something-else'),)
            return None
        it = absint.Interp(repo, init, oracle)
        amap = {ps[0]: raw}
        for q in ps[1:]:
            amap[q] = absint.Obj('engine', options=dict(opts)) \
                if 'engine' in q else absint.Sym(q)
        try:
            out = it.run(fz.node, amap)
        except absint.Unsupported as e:
            raise AnalysisError('R10c: the default #finalize uses a '
                                'construct outside the modelled fragment '
                                '(%s): not decided' % e)
        n += 1
        want = conv if opts.get('yaql.convertOutputData', True) else raw
        if not (out[0] == 'return' and out[1] is want):
            bad.append('options %s -> %s' % (opts, 'converted' if out[1]
                                             is conv else 'raw' if out[1]
                                             is raw else out[1]))
    rep.ob('R10c', fz.key + '/switch', not bad,
           'the result is handed out unconverted exactly when the host set '
           'yaql.convertOutputData to false; here also / not for: %s. An '
           'engine configured otherwise returns generators, FrozenDicts '
           'and tuples instead of plain data' % bad[:3],
           loc=init.loc(fz.node), construct='; '.join(bad[:2]))
    rep.floor('finaliser switch scenarios', n, 81)


COPYING = ('yaql.language.utils.FrozenDict', 'builtins.dict',
           'copy.copy', 'copy.deepcopy', 'builtins.frozenset',
           'builtins.tuple')


def check_options_are_a_snapshot(repo, rep):
    """R10f: the four conversion combinations are properties of the engine.
    The engine must therefore keep its *own copy* of the options it was
    created with: a reference to (or a read-only view of) the caller's dict
    changes when the host reuses that dict for the next engine, and the
    finaliser -- which reads the switches on every evaluation -- converts
    with the options of another engine."""
    fm = repo.module('yaql.language.factory')
    ci = fm.classes.get('YaqlEngine')
    init = ci.methods.get('__init__') if ci else None
    if init is None or 'options' not in init.params():
        raise AnalysisError('anchor vanished: YaqlEngine.__init__(options)')
    stores = []
    for st in ast.walk(init.node):
        if isinstance(st, ast.Assign) and any(
                isinstance(t, ast.Attribute) for t in st.targets) and \
                'options' in model.names_loaded(norm.subst_locals(
                    init.node, st.value, only_pure=False)):
            stores.append(st)
    if not stores:
        raise AnalysisError('anchor vanished: the options attribute of '
                            'YaqlEngine')
    for st in stores:
        v = norm.subst_locals(init.node, st.value, only_pure=False)
        ok = isinstance(v, ast.Call) and repo.resolve(
            fm, v.func, model.scope_locals(init)) in COPYING
        rep.ob('R10f', '%s/options-snapshot' % init.key, ok,
               'YaqlEngine keeps `%s`: the options must be copied when the '
               'engine is made (FrozenDict(options) / dict(options)); a '
               'reference or a live view of the caller\'s dict follows '
               'later changes of that dict, so an engine converts its '
               'results with switches it was not created with' %
               model.norm(st.value), loc=fm.loc(st),
               construct=model.norm(st))


def check_value_universe(repo, rep, uni, facts):
    """Every container kind a registered function can return is a kind of
    the shape universe."""
    covered = set(shapes.PYTYPES) | set(shapes.REPO_KINDS)
    n = 0
    unknown = []
    kinds_seen = set()
    funcs = list(uni.reg.payloads())
    have = {f.key for f in funcs}
    for f, role in uni.evaluation_time():
        if f.module.name.startswith('yaql.standard_library') and \
                f.key not in have and role in ('helper', 'nested'):
            funcs.append(f)
    extra = set()

    def taken_apart_everywhere(fi):
        """A helper (not a registered payload) whose result is, at every
        call site, read field by field (h(...).x, h(...)[0], a, b = h(...)):
        the record itself never becomes a value of the evaluation."""
        if fi.key in have or fi.cls is not None:
            return False
        sites = 0
        for f in repo.all_functions():
            if f.module is not fi.module:
                if not f.module.name.startswith('yaql'):
                    continue
            for c in model.calls_in(f.node, shallow=True):
                d = repo.resolve(f.module, c.func, model.scope_locals(f))
                if repo.lookup(d) is not fi if d else True:
                    continue
                sites += 1
                par = getattr(c, '_parent', None)
                if isinstance(par, ast.Attribute) and par.value is c:
                    continue
                if isinstance(par, ast.Subscript) and par.value is c and \
                        isinstance(par.slice, ast.Constant):
                    continue
                if isinstance(par, ast.Assign) and par.value is c and \
                        all(isinstance(t, ast.Tuple) for t in par.targets):
                    continue
                return False
        return sites > 0

    for fi in funcs:
        gen = any(isinstance(x, (ast.Yield, ast.YieldFrom))
                  for x in model.walk_shallow(fi.node))
        if gen:
            kinds_seen.add('generator')
            continue
        for r in model.walk_shallow(fi.node):
            if not (isinstance(r, ast.Return) and r.value is not None):
                continue
            v = r.value
            n += 1
            if isinstance(v, ast.Call):
                d = repo.resolve(fi.module, v.func, model.scope_locals(fi))
                tgt = repo.lookup(d) if d else None
                if isinstance(tgt, tuple) and tgt[0] == 'const' and \
                        isinstance(tgt[2], ast.Call) and repo.resolve(
                            tgt[1], tgt[2].func) in (
                            'collections.namedtuple', 'typing.NamedTuple'):
                    if taken_apart_everywhere(fi):
                        continue
                    kinds_seen.add('namedtuple')
                    extra.add('namedtuple')
                    continue
                if isinstance(tgt, model.ClassInfo) and any(
                        repo.is_subclass(tgt, b) for b in (
                            'builtins.tuple', 'typing.NamedTuple')):
                    if taken_apart_everywhere(fi):
                        continue
                    kinds_seen.add('namedtuple')
                    extra.add('namedtuple')
                    continue
                if d in RETURN_KINDS:
                    kinds_seen.add(RETURN_KINDS[d])
                elif d is None and isinstance(v.func, ast.Attribute) and \
                        v.func.attr in VIEW_METHODS:
                    kinds_seen.add(VIEW_METHODS[v.func.attr])
                elif d and (d.startswith('collections.') or
                            d.startswith('itertools.') or
                            d.startswith('array.') or
                            d.startswith('queue.')) and \
                        d not in RETURN_KINDS:
                    unknown.append((fi, r, d))
            elif isinstance(v, (ast.List, ast.ListComp)):
                kinds_seen.add('list')
            elif isinstance(v, (ast.Tuple,)):
                kinds_seen.add('tuple')
            elif isinstance(v, (ast.Dict, ast.DictComp)):
                kinds_seen.add('dict')
            elif isinstance(v, (ast.Set, ast.SetComp)):
                kinds_seen.add('set')
            elif isinstance(v, ast.GeneratorExp):
                kinds_seen.add('generator')
    for fi, r, d in unknown:
        rep.ob('R10d', '%s/returns[%s]' % (fi.key, d), False,
               'registered function returns a %s, a container kind that is '
               'not in the analysed shape universe: the finaliser\'s '
               'behaviour on it is undecided' % d, loc=fi.module.loc(r),
               construct=model.norm(r))
    miss = kinds_seen - covered
    rep.ob('R10d', 'value-universe', not miss,
           'return kinds %s are not in the shape universe' % sorted(miss))
    rep.extra_cov['return_kinds_seen'] = sorted(kinds_seen)
    rep.floor('payload return expressions scanned', n, 250)
    return extra


def _id_keyed_uses(fnode):
    """`id(x)` used as the key of a container (subscript, membership test,
    .get/.setdefault/.pop argument) inside fnode, nested functions
    included."""
    out = []
    for n in ast.walk(fnode):
        if not (isinstance(n, ast.Call) and isinstance(n.func, ast.Name)
                and n.func.id == 'id' and len(n.args) == 1):
            continue
        node = n
        # a local bound to id(x): look at the uses of that local
        p = getattr(n, '_parent', None)
        names = set()
        if isinstance(p, ast.Assign) and p.value is n:
            names = {t.id for t in p.targets if isinstance(t, ast.Name)}
        cands = [n]
        if names:
            cands += [x for x in ast.walk(fnode) if isinstance(x, ast.Name)
                      and x.id in names and isinstance(x.ctx, ast.Load)]
        for c in cands:
            q = getattr(c, '_parent', None)
            if isinstance(q, ast.Subscript) and q.slice is c:
                out.append(c)
            elif isinstance(q, ast.Compare) and c is q.left and any(
                    isinstance(o, (ast.In, ast.NotIn)) for o in q.ops):
                out.append(c)
            elif isinstance(q, ast.Call) and isinstance(
                    q.func, ast.Attribute) and q.func.attr in (
                    'get', 'setdefault', 'pop', 'add') and q.args and \
                    q.args[0] is c:
                out.append(c)
    return out


def check_converters_keep_no_identity_cache(repo, rep):
    """R10e: the converters do not remember converted values by the
    *address* of the source object.  id() of a temporary is reused as soon
    as it is freed (items produced on the fly by an iterator), so such a
    cache hands out the conversion of an earlier, different value -- the
    round trip then returns other data than was put in."""
    ut = repo.module(UT)
    roots = [ut.func('convert_input_data'), ut.func('convert_output_data')]
    seen = {}
    work = list(roots)
    while work:
        f = work.pop()
        if f.key in seen:
            continue
        seen[f.key] = f
        for c in model.calls_in(f.node):
            d = repo.resolve(f.module, c.func, model.scope_locals(f))
            t = repo.lookup(d) if d else None
            if isinstance(t, model.FuncInfo) and t.module is ut:
                work.append(t)
    n = 0
    for f in seen.values():
        if f.parent_func is not None and f.parent_func.key in seen:
            continue     # walked with its parent
        uses = _id_keyed_uses(f.node)
        n += 1
        rep.ob('R10e', f.key + '/no-identity-cache', not uses,
               '%s keeps converted values in a table keyed by id(<source '
               'object>) (`%s`): the address of a freed temporary is '
               'reused, so items generated on the fly (zip, enumerate, a '
               'generator of lists/dicts) get the conversion of an earlier '
               'item' % (f.qualname, model.norm(model.enclosing(
                   uses[0], ast.stmt) or uses[0]).split('\n')[0][:80]
                   if uses else ''),
               loc=ut.loc(uses[0]) if uses else ut.loc(f.node),
               construct=model.norm(uses[0]) if uses else '')
    # positive control
    from sa.rules import c09
    m = c09.load_fixture(repo, 'c10_fixture.py')
    flagged = {q for q, f in m.functions.items()
               if f.parent_func is None and _id_keyed_uses(f.node)}
    rep.ob('R10e', 'fixtures/c10_fixture.py/positive-control',
           flagged == {'bad_memo_by_id', 'bad_memo_closure'},
           'positive control: expected the two bad_* functions flagged and '
           'ok_identity_test silent; flagged %s' % sorted(flagged))
    return n


def run(repo, rep):
    rep.rule('R10a', 'FINALISER-SHAPES: for every container shape and every '
             'combination of convertTuplesToLists x convertSetsToLists, '
             'abstractly interpreting convert_output_data yields no '
             'unhashable-element error and exactly the plain kind the '
             'options dictate, at every depth')
    rep.rule('R10b', 'INPUT-SHAPES: convert_input_data maps host shapes to '
             'the canonical immutable kinds, and output(input(x)) is the '
             'canonical container kind for the options')
    rep.rule('R10c', 'ALWAYS-FINALISED: Statement is #finalize(expr), '
             'evaluate goes through it; YaqlInterface applies '
             'convert_output_data')
    rep.rule('R10d', 'VALUE-UNIVERSE-COVERED: every container kind a '
             'registered function returns is in the shape universe')
    rep.trusted += ['ABC memberships of builtin container types as '
                    'reported by this interpreter (issubclass on stdlib '
                    'classes)', 'equality of values is not decided']
    rep.explanation = (
        'convert_output_data and convert_input_data are interpreted from '
        'their AST on abstract shapes (kind + child shapes); which branch '
        'fires is decided from the ABC facts of each kind, constructors '
        'from the option predicates. The verdict per shape x options is '
        'compared with the kind the property demands.')
    rep.rule('R10e', 'NO-IDENTITY-CACHE: the converters (and what they call) '
             'keep no table keyed by id() of a source object')
    check_converters_keep_no_identity_cache(repo, rep)
    facts = shapes.Facts(repo)
    depth = 3 if rep.tier == 'thorough' else 2
    uni = unimod.Universe(repo)
    # kinds the library can return that are not in the base universe
    # (e.g. a namedtuple) are added to it
    extra = check_value_universe(repo, rep, uni, facts)
    n, nshapes = check_finaliser(repo, rep, facts, depth, extra)
    nin = check_input(repo, rep, facts, 2)
    check_always_finalised(repo, rep, uni)
    rep.rule('R10f', 'OPTIONS-ARE-A-SNAPSHOT: the engine copies the options '
             'it is created with')
    check_options_are_a_snapshot(repo, rep)
    from sa.rules import c17
    rep.rule('R17i', 'see C17: a layer that binds a variable to null is not '
             'skipped (a null document bound to `$` comes back as null)')
    c17.check_marker_for_not_bound(repo, rep, repo.module(c17.CTX))
    rep.count(shapes=nshapes, option_combinations=len(OPTS),
              finaliser_obligations=n, input_obligations=nin, depth=depth)
