"""C14 -- streaming operators consume only what they need."""
import ast

from sa import consume
from sa import model
from sa import universe as unimod
from sa.model import AnalysisError

TITLE = 'streaming operators and the limiter plumbing are lazy'

Q = 'yaql.standard_library.queries'
C = 'yaql.standard_library.collections'

# YAQL name -> module that holds the streaming overload(s)
STREAMING = [
    ('select', Q), ('map', Q), ('where', Q), ('filter', Q),
    ('selectMany', Q), ('skip', Q), ('take', Q), ('limit', Q),
    ('takeWhile', Q), ('skipWhile', Q), ('append', Q), ('concat', Q),
    ('distinct', Q), ('enumerate', Q), ('zip', Q), ('accumulate', Q),
    ('insert', C), ('delete', C), ('replace', C), ('slice', Q),
    ('memorize', Q), ('#operator_.', Q), ('join', Q),
]
SEARCHES = [('first', Q), ('any', Q), ('all', Q), ('indexOf', Q),
            ('indexWhere', Q)]
# same shape, reported alongside but not armed
REPORT_ONLY = [('insertMany', C), ('replaceMany', C), ('zipLongest', Q),
               ('defaultIfEmpty', Q)]
NOT_A_SOURCE = {
    ('yaql.standard_library.queries:join', 'collection2'):
        'inner side: the statement bounds the outer side only; the inner '
        'side is memorised and re-scanned per outer element',
}
SHORT_CIRCUIT_EAGER = {'builtins.any', 'builtins.all'}


def parent_call_is_lazy(repo, fi, use):
    p = getattr(use.node, '_parent', None)
    while p is not None and not isinstance(p, ast.Call):
        p = getattr(p, '_parent', None)
    if p is None:
        return False
    d = repo.resolve(fi.module, p.func, model.scope_locals(fi))
    return d in consume.LAZY


def after_loop_constant_only(loop):
    parent = getattr(loop, '_parent', None)
    body = None
    for field in ('body', 'orelse', 'finalbody'):
        v = getattr(parent, field, None)
        if isinstance(v, list) and any(x is loop for x in v):
            body = v
    if body is None:
        return False, 'loop not in a statement list'
    rest = body[[i for i, x in enumerate(body) if x is loop][0] + 1:]
    for st in rest:
        if isinstance(st, ast.Return):
            v = st.value
            if v is None or isinstance(v, ast.Constant) or (
                    isinstance(v, ast.UnaryOp) and isinstance(
                        v.operand, ast.Constant)):
                continue
            if isinstance(v, ast.Name):
                # e.g. `return default` -- a parameter, not loop state
                continue
            return False, 'returns %s after the loop' % model.norm(v)
        if isinstance(st, ast.Raise):
            continue
        if isinstance(st, ast.If):
            # if default is NO_VALUE: raise ... ; return default
            ok = all(isinstance(x, (ast.Raise, ast.Return))
                     for x in st.body + st.orelse)
            if ok:
                continue
        return False, 'statement after the loop: %s' % model.norm(st)[:50]
    return True, ''


def judge(repo, fi, pname, uses, search, cons=None, depth=0):
    """-> list of (use, reason) that break laziness."""
    bad = []
    gen = consume.is_generator(fi.node)
    consuming = 0
    for u in uses:
        m = u.mode
        if m in ('test', 'return', 'alias', 'index', 'attr', 'method',
                 'yield-element', 'other', 'element-of-display', 'call',
                 'binop', 'store'):
            continue
        consuming += 1
        if m == 'lazy':
            continue
        if m == 'yieldfrom':
            continue
        if m == 'next':
            if not gen and not search:
                bad.append((u, 'pulls elements with next() when the '
                            'operator is *called* (it is not a generator): '
                            'the source is advanced before any result is '
                            'requested'))
            continue
        if m == 'star':
            if parent_call_is_lazy(repo, fi, u):
                continue
            bad.append((u, 'unpacks the whole source (%s)' % u.detail[:40]))
            continue
        if m == 'loop':
            if u.loop_yields:
                continue
            if u.loop_exits and search:
                ok, why = after_loop_constant_only(u.stmt)
                if ok:
                    continue
                bad.append((u, 'search loop is followed by code that needs '
                            'the whole source: %s' % why))
                continue
            if u.loop_exits and not gen and search:
                continue
            if not gen:
                bad.append((u, 'loops over the source when the operator is '
                            '*called* (it is not a generator): elements '
                            'are consumed before any result is requested'))
                continue
            bad.append((u, 'loops over the whole source without yielding '
                        'or returning from inside the loop (collects, then '
                        'answers)'))
            continue
        if m == 'eager' and u.detail in SHORT_CIRCUIT_EAGER and \
                u.via == 'genexp':
            continue
        if m in ('callee-loop', 'callee-eager') and cons is not None and \
                depth < 3:
            # handed to a repo helper: the helper is judged by the same
            # rule, provided its result is returned as it is
            call = u.node
            while call is not None and not isinstance(call, ast.Call):
                call = getattr(call, '_parent', None)
            par = getattr(call, '_parent', None) if call is not None \
                else None
            tgt = repo.func(u.detail) if ':' in (u.detail or '') else None
            if tgt is not None and isinstance(par, ast.Return) and \
                    call is not None:
                idx = [i for i, a in enumerate(call.args) if any(
                    x is u.node for x in ast.walk(a))]
                names = tgt.params()
                if tgt.is_method:
                    names = names[1:]
                if idx and idx[0] < len(names):
                    q = names[idx[0]]
                    bad2, _ = judge(repo, tgt, q, cons.uses(tgt, q), search,
                                    cons, depth + 1)
                    if not bad2:
                        continue
                    bad.append((u, 'hands the source to %s, which %s' % (
                        tgt.qualname, bad2[0][1])))
                    continue
        if m == 'escape' and cons is not None and depth < 3:
            # handed to the constructor of a repo class: the wrapper is lazy
            # when the constructor only stores the source (or iter() of it)
            # and every method reads the stored source one element per
            # request
            why = wrapper_class_verdict(repo, cons, fi, u, depth)
            if why is None:
                continue
            if why:
                bad.append((u, why))
                continue
        if m == 'libcall':
            bad.append((u, 'hands the source to %s, a library callable not '
                        'known to be lazy' % u.detail))
            continue
        if m == 'pass' and u.via == 'itertools.islice':
            continue      # bounded chunk handed to to_list (slice)
        if m == 'pass' and u.detail not in ('to_list', 'to_set',
                                            'delegate'):
            continue      # handed to a user lambda as a value
        bad.append((u, 'materialises the source (%s %s)' % (m, u.detail)))
    return bad, consuming


def wrapper_class_verdict(repo, cons, fi, u, depth):
    """None: the class the source is handed to is a lazy wrapper; a string:
    why it is not; '': not a class construction that can be judged."""
    ci = repo.lookup(u.detail.replace(':', '.')) if u.detail else None
    if not isinstance(ci, model.ClassInfo):
        return ''
    call = u.node
    while call is not None and not isinstance(call, ast.Call):
        call = getattr(call, '_parent', None)
    if call is None:
        return ''
    init = ci.methods.get('__init__')
    if init is None:
        return ''
    idx = [i for i, a in enumerate(call.args) if a is u.node]
    names = init.params()[1:]
    if not idx or idx[0] >= len(names):
        return ''
    pname = names[idx[0]]
    attrs = set()
    for x in cons.uses(init, pname):
        if x.mode == 'store' and x.detail.startswith('self.') and \
                x.via in (None, 'builtins.iter'):
            attrs.add(x.detail[5:])
        elif x.mode in ('test', 'lazy'):
            continue
        else:
            return 'hands the source to %s, whose constructor %s it (%s)' % (
                ci.node.name, x.mode, model.norm(x.node)[:40])
    for m in ci.methods.values():
        for n in ast.walk(m.node):
            if not (isinstance(n, ast.Attribute) and isinstance(
                    n.value, ast.Name) and n.value.id == 'self' and
                    isinstance(n.ctx, ast.Load) and n.attr in attrs):
                continue
            for x in cons.classify(m, n, n, depth + 1, set()):
                if x.mode in ('test', 'lazy', 'return'):
                    continue
                if x.mode == 'next' and m.name != '__init__' and \
                        not model.enclosing(x.node, (ast.For, ast.While)):
                    continue      # one element per request
                if x.mode == 'store' and x.detail.startswith('self.') and \
                        x.via in (None, 'builtins.iter'):
                    if x.detail[5:] not in attrs:
                        return ''   # aliasing beyond what is followed
                    continue
                if x.mode == 'loop' and m.name != '__init__' and (
                        x.loop_yields or x.loop_exits):
                    continue
                if x.mode == 'escape' and x.detail == ci.key:
                    continue      # a fresh cursor of the same class
                return 'hands the source to %s, whose %s %s the stored ' \
                    'source (%s)' % (ci.node.name, m.name, x.mode,
                                     model.norm(x.node)[:40])
    return None


def check_table(repo, rep, uni, cons, table, rule, search, armed=True):
    n = 0
    for name, modname in table:
        ovs = [o for o in uni.reg.by_name(name, 'default')
               if o.func.module.name == modname]
        ovs = [o for o in ovs if any(p.type.limiting for p in o.params)]
        if not ovs:
            if armed:
                raise AnalysisError(
                    'anchor vanished: no streaming overload of %r in %s' % (
                        name, modname))
            continue
        for ov in ovs:
            fi = ov.func
            for p in ov.params:
                if not p.type.limiting:
                    continue
                if (fi.key, p.name) in NOT_A_SOURCE:
                    continue
                n += 1
                if p.kind == 'vararg':
                    # concat/zip: *collections handed to a lazy builder
                    uses = cons.uses(fi, p.name)
                else:
                    uses = cons.uses(fi, p.name)
                bad, consuming = judge(repo, fi, p.name, uses, search, cons)
                site = '%s/%s[%s]' % (fi.key, p.name, name)
                if not armed:
                    rep.note('%s %s: %s' % (name, fi.key, 'lazy' if not bad
                                            else 'NOT lazy: ' + bad[0][1]))
                    continue
                if not bad:
                    rep.ob(rule, site, True,
                           'source consumed only by %s' % sorted(
                               {u.mode for u in uses
                                if u.mode not in ('test', 'return')}),
                           nontrivial=consuming > 0)
                for u, why in bad:
                    rep.ob(rule, site, False,
                           '%s (registered as `%s`) %s: asking the pipeline '
                           'for its first results consumes the whole '
                           'source, so it cannot run on an endless one' % (
                               fi.qualname, name, why),
                           loc=fi.module.loc(u.node),
                           construct=model.norm(model.enclosing(
                               u.node, ast.stmt) or u.node)[:160])
    return n


def check_plumbing(repo, rep, cons):
    ut = repo.module('yaql.language.utils')
    yt = repo.module('yaql.language.yaqltypes')
    n = 0
    for fi, pname in ((ut.func('limit_iterable'), None),
                      (ut.func('memorize'), None)):
        pname = fi.params()[0]
        uses = cons.uses(fi, pname)
        bad, consuming = judge(repo, fi, pname, uses, False, cons)
        n += 1
        site = '%s/%s' % (fi.key, pname)
        if not bad:
            rep.ob('R14d', site, True, 'wrapper is lazy: %s' % sorted(
                {u.mode for u in uses}), nontrivial=True)
        for u, why in bad:
            rep.ob('R14d', site, False,
                   '%s %s: every declared collection parameter passes '
                   'through this wrapper, so every operator becomes eager' %
                   (fi.qualname, why), loc=ut.loc(u.node),
                   construct=model.norm(model.enclosing(
                       u.node, ast.stmt) or u.node)[:160])
    conv = yt.func('Iterable.convert')
    # the converted value flows into limit_iterable only
    names = set()
    for s in model.walk_shallow(conv.node):
        if isinstance(s, ast.Assign) and isinstance(
                s.targets[0], ast.Name):
            names.add(s.targets[0].id)
    names.add(conv.params()[1])
    for nm in sorted(names):
        uses = cons.uses(conv, nm)
        bad, consuming = judge(repo, conv, nm, uses, False)
        n += 1
        site = '%s/%s' % (conv.key, nm)
        if not bad:
            rep.ob('R14d', site, True, 'converter does not pull elements')
        for u, why in bad:
            rep.ob('R14d', site, False,
                   'Iterable.convert %s: every collection argument is '
                   'materialised at call time' % why, loc=yt.loc(u.node),
                   construct=model.norm(model.enclosing(
                       u.node, ast.stmt) or u.node)[:160])
    return n


WHOLE_STREAM_DUNDERS = ('__len__', '__bool__', '__contains__',
                        '__getitem__', '__reversed__', '__length_hint__')


def _drained_lambda_results(repo, fi, env):
    out = []
    for c in model.calls_in(fi.node):
        d = repo.resolve(fi.module, c.func, model.scope_locals(fi))
        if d not in consume.EAGER or consume.EAGER[d] == () or not c.args:
            continue
        idxs = consume.EAGER[d]
        idxs = range(len(c.args)) if idxs is None else idxs
        for i in idxs:
            if i < len(c.args):
                v = env.ev(c.args[i])
                if any(t[0] == 'lazyres' for t in v.tags):
                    out.append(c)
                    break
    return out


def check_lambda_results_stream(repo, rep, uni):
    """R14f: what a per-element lambda returns inside a streaming operator
    (the inner collection of selectMany, a generated sequence) is a stream
    of its own: the operator hands its elements on as they are requested.
    An eager consumer applied to it (tuple(), list(), sorted() ...) reads
    the whole inner stream before the first of its elements is produced."""
    from sa import origins
    n = 0
    for name, modname in STREAMING:
        for ov in uni.reg.by_name(name, 'default'):
            fi = ov.func
            if fi.module.name != modname or not any(
                    p.type.lazy for p in ov.params):
                continue
            n += 1
            bad = _drained_lambda_results(repo, fi, uni.env(fi))
            rep.ob('R14f', '%s[%s]' % (fi.key, name), not bad,
                   '%s (registered as `%s`) reads the whole result of a '
                   'per-element lambda at once (`%s`): a pipeline whose '
                   'lambda returns a long or endless stream no longer '
                   'yields its first elements' % (
                       fi.qualname, name, model.norm(bad[0])[:60]
                       if bad else ''),
                   loc=fi.module.loc(bad[0] if bad else fi.node),
                   construct=model.norm(bad[0])[:100] if bad else '')
    from sa.rules import c09
    fm = c09.load_fixture(repo, 'c14_fixture.py')
    repo.modules[fm.name] = fm
    try:
        flagged = set()
        for f in fm.functions.values():
            tags = {'collection': ({('param', 'collection')},
                                   {('derived', 'collection')}),
                    'selector': ({('lazy', 'selector')}, set())}
            env = origins.Env(repo, f, tags, None, uni.summaries())
            if _drained_lambda_results(repo, f, env):
                flagged.add(f.name)
    finally:
        del repo.modules[fm.name]
    rep.ob('R14f', 'fixtures/c14_fixture.py/positive-control',
           flagged == {'bad_materialises_inner'},
           'positive control: expected bad_materialises_inner flagged and '
           'ok_streams_inner silent; flagged %s' % sorted(flagged))
    rep.floor('streaming operators with a per-element lambda', n, 8)


def check_wrappers_read_one_at_a_time(repo, rep):
    """R14g: the iterator classes the plumbing wraps a lazy source in
    (memorize, limit_iterable) advance the wrapped source only by
    next(<source>), at most once per request: a block read-ahead (islice,
    extend, a loop) consumes elements nobody asked for and, behind a filter
    over an endless source, waits for elements that never come."""
    ut = repo.module('yaql.language.utils')
    from sa.rules import c11
    n = 0
    for fname in ('memorize', 'limit_iterable'):
        fi = ut.func(fname)
        for cls in ut.classes.values():
            outer = model.enclosing(cls.node, (ast.FunctionDef,
                                               ast.AsyncFunctionDef))
            if outer is not fi.node and not any(
                    isinstance(r, ast.Return) and isinstance(
                        r.value, ast.Call) and isinstance(
                        r.value.func, ast.Name) and
                    r.value.func.id == cls.node.name
                    for r in model.walk_shallow(fi.node)):
                continue
            nxt = cls.methods.get('__next__')
            init = cls.methods.get('__init__')
            if nxt is None or init is None:
                continue
            # the attributes holding the wrapped source: assigned in
            # __init__ from iter(..) / a constructor parameter / a variable
            # of the enclosing call
            srcs = set()
            for st in model.walk_shallow(init.node):
                if isinstance(st, ast.Assign) and isinstance(
                        st.targets[0], ast.Attribute) and isinstance(
                        st.targets[0].value, ast.Name) and \
                        st.targets[0].value.id == init.params()[0]:
                    v = st.value
                    if isinstance(v, ast.Call) and model.norm(
                            v.func) == 'iter':
                        srcs.add(st.targets[0].attr)
            if not srcs:
                continue
            n += 1
            slf = nxt.params()[0]
            uses = [x for x in ast.walk(nxt.node)
                    if isinstance(x, ast.Attribute) and isinstance(
                        x.value, ast.Name) and x.value.id == slf and
                    x.attr in srcs and isinstance(x.ctx, ast.Load)]
            bad = []
            nexts = []
            for u in uses:
                par = getattr(u, '_parent', None)
                if isinstance(par, ast.Call) and isinstance(
                        par.func, ast.Name) and par.func.id == 'next' and \
                        par.args and par.args[0] is u:
                    nexts.append(par)
                else:
                    bad.append(par if par is not None else u)
            worst = c11.max_calls_per_path(nxt, nexts) if nexts else 0
            ok = not bad and worst <= 1
            rep.ob('R14g', '%s/one-element-per-request' % nxt.key, ok,
                   '%s.__next__ must advance the wrapped source by one '
                   'next() per request; it %s' % (
                       cls.node.name,
                       ('hands the source to `%s`' % model.norm(
                           bad[0])[:70]) if bad else
                       'can call next() %d times on one path' % worst),
                   loc=ut.loc(bad[0] if bad else nxt.node),
                   construct=model.norm(bad[0])[:120] if bad else '')
    rep.floor('iterator wrappers of the plumbing', n, 1)


def check_wrapper_classes(repo, rep):
    """R14e: the objects the plumbing wraps a lazy source in must not answer
    whole-collection questions (len, truth, membership, indexing) by
    reading the source: callers up the stack (limit checks, `if coll`,
    len()) ask them before the first element is requested."""
    ut = repo.module('yaql.language.utils')
    n = 0
    for fname in ('memorize', 'limit_iterable'):
        fi = ut.func(fname)
        for r in model.walk_shallow(fi.node):
            if not (isinstance(r, ast.Return) and isinstance(
                    r.value, ast.Call) and isinstance(
                    r.value.func, ast.Name)):
                continue
            cls = ut.classes.get(fi.qualname + '.' + r.value.func.id) or \
                ut.classes.get(r.value.func.id)
            if cls is None:
                continue
            n += 1
            for mname in WHOLE_STREAM_DUNDERS:
                m = cls.methods.get(mname)
                site = '%s/%s' % (cls.key, mname)
                if m is None:
                    rep.ob('R14e', site, True, 'not defined')
                    continue
                loops = [x for x in ast.walk(m.node) if isinstance(
                    x, (ast.For, ast.While, ast.ListComp, ast.SetComp,
                        ast.GeneratorExp, ast.DictComp))]
                pulls = []
                for c in model.calls_in(m.node):
                    d = repo.resolve(ut, c.func, model.scope_locals(m))
                    if d in consume.EAGER and consume.EAGER[d] != () or \
                            d in consume.NEXT:
                        pulls.append(c)
                bad = loops + pulls
                rep.ob('R14e', site, not bad,
                       '%s.%s reads the wrapped source (%s): the lazy '
                       'wrapper every collection argument travels in '
                       'answers a whole-collection question by consuming '
                       'the stream, so len()/truth/limit tests on it never '
                       'return on an endless source' % (
                           cls.node.name, mname, ', '.join(
                               model.norm(x).split('\n')[0][:50]
                               for x in bad[:2])),
                       loc=ut.loc(m.node),
                       construct=model.norm(bad[0]).split('\n')[0][:120]
                       if bad else '')
    rep.floor('lazy wrapper classes of the plumbing', n, 1)
    return n


def run(repo, rep):
    rep.rule('R14a', 'LAZY-RESULT / NO-MATERIALISATION: with respect to its '
             'source parameter a streaming payload only builds lazy views '
             '(map/filter/islice/chain/takewhile/dropwhile/zip/enumerate/'
             'generator), loops that yield inside the iteration, yield '
             'from, or bounded islice chunks; never an eager consumer')
    rep.rule('R14c', 'SHORT-CIRCUIT: searches return from inside the loop; '
             'only a not-found constant follows the loop')
    rep.rule('R14d', 'THE-PLUMBING-IS-LAZY: Iterable.convert, '
             'utils.limit_iterable and utils.memorize satisfy R14a')
    rep.rule('R14f', 'LAMBDA-RESULTS-STREAM: no eager consumer is applied to '
             'the result of a per-element lambda inside a streaming operator')
    rep.rule('R14e', 'WRAPPERS-ARE-NOT-SIZED-BY-READING: the wrapper classes '
             'returned by memorize/limit_iterable do not define len/truth/'
             'membership/indexing by iterating the source')
    rep.trusted += ['laziness of map/filter/zip/enumerate/itertools',
                    'the exact +1 of the bound is arithmetic, not decided']
    rep.explanation = (
        'For every streaming operator named in the statement (resolved '
        'through the declared registry to its payload) each use of the '
        'source parameter is classified (lazy view, yielding loop, '
        'short-circuit loop, eager consumer, hand-over); composition of '
        'lazy views is lazy, so operator-wise laziness gives pipeline-wise '
        'laziness for every pipeline and every k.')
    uni = unimod.Universe(repo)
    cons = consume.Consumption(repo, uni)
    n1 = check_table(repo, rep, uni, cons, STREAMING, 'R14a', False)
    n2 = check_table(repo, rep, uni, cons, SEARCHES, 'R14c', True)
    check_table(repo, rep, uni, cons, REPORT_ONLY, 'R14a', False,
                armed=False)
    n3 = check_plumbing(repo, rep, cons)
    check_wrapper_classes(repo, rep)
    rep.rule('R14g', 'WRAPPERS-READ-ONE-AT-A-TIME: the iterator wrappers of '
             'memorize / limit_iterable advance their source by one next() '
             'per request')
    check_wrappers_read_one_at_a_time(repo, rep)
    check_lambda_results_stream(repo, rep, uni)
    rep.rule('R11e', 'see C11: a lambda is applied at most once per element '
             'on every path through a loop over the source (applications '
             'inside a filter / map the loop reads from count too): the '
             'number of lambda applications for k results is bounded by the '
             'elements read')
    from sa.rules import c11
    c11.check_r11e(repo, rep, uni)
    rep.count(streaming_sources=n1, search_sources=n2, plumbing_sites=n3)
    rep.floor('streaming operator source parameters', n1, 22)
    rep.floor('search source parameters', n2, 5)
