"""C06 -- resolution does not depend on registration or iteration order.

Order-taint analysis of the loops that iterate an unordered overload set.
"""
import ast

from sa import cfg as cfgmod
from sa import effects
from sa import model
from sa import norm
from sa.model import AnalysisError

TITLE = 'loops over unordered overload sets are order-insensitive'

SET_MAKERS = {'builtins.set', 'builtins.frozenset'}
INSENSITIVE_CONSUMERS = {
    'builtins.len', 'builtins.all', 'builtins.any', 'builtins.sum',
    'builtins.set', 'builtins.frozenset', 'builtins.min', 'builtins.max',
    'builtins.bool', 'builtins.sorted',
}
TRIVIAL_CALLS = {'builtins.set', 'builtins.list', 'builtins.len',
                 'builtins.isinstance', 'builtins.tuple', 'builtins.dict',
                 'builtins.frozenset', 'builtins.enumerate'}


def returns_set_at(repo, fi, pos=0):
    """Every return of fi yields a set at tuple position `pos` (or is a
    delegation to another get_functions)."""
    rets = [r for r in model.walk_shallow(fi.node)
            if isinstance(r, ast.Return) and r.value is not None]
    if not rets:
        return False, 'no return'
    for r in rets:
        v = r.value
        if isinstance(v, ast.Tuple) and len(v.elts) > pos:
            v = v.elts[pos]
        elif isinstance(v, ast.Call) and isinstance(
                v.func, ast.Attribute) and v.func.attr == fi.name:
            continue       # proxy to another implementation
        elif pos != 0:
            return False, 'return %s is not a tuple' % model.norm(v)
        if not is_set_expr(repo, fi, v):
            return False, '%s is not a set' % model.norm(v)
    return True, ''


def is_set_expr(repo, fi, v, depth=0):
    if isinstance(v, (ast.Set, ast.SetComp)):
        return True
    if isinstance(v, ast.Call):
        d = repo.resolve(fi.module, v.func, model.scope_locals(fi))
        if d in SET_MAKERS:
            return True
        if isinstance(v.func, ast.Attribute) and v.func.attr in (
                'union', 'intersection', 'difference', 'copy',
                'symmetric_difference'):
            return is_set_expr(repo, fi, v.func.value, depth + 1)
    if isinstance(v, ast.Name) and depth < 3:
        vals = [s.value for s in model.walk_shallow(fi.node)
                if isinstance(s, ast.Assign) and any(
                    isinstance(t, ast.Name) and t.id == v.id
                    for t in s.targets)]
        return bool(vals) and all(is_set_expr(repo, fi, x, depth + 1)
                                  for x in vals)
    return False


class Taint:
    """U unordered set, T order-tainted list, LU/LT list of those."""

    def __init__(self, repo, fi, seeds):
        self.repo = repo
        self.fi = fi
        self.kind = dict(seeds)       # name -> kind
        self.uloops = []              # (loop node, iterated name, kind)
        self._solve()

    def expr_kind(self, e):
        if isinstance(e, ast.Name):
            return self.kind.get(e.id)
        if isinstance(e, ast.Call):
            d = self.repo.resolve(self.fi.module, e.func,
                                  model.scope_locals(self.fi))
            if d in SET_MAKERS:
                return 'U'
            if isinstance(e.func, ast.Attribute) and \
                    e.func.attr == 'collect_functions':
                return 'LU'
            if isinstance(e.func, ast.Attribute) and \
                    e.func.attr == 'get_functions':
                return 'TUP-U'
            if d in ('builtins.list', 'builtins.tuple', 'builtins.iter',
                     'builtins.enumerate', 'builtins.reversed',
                     'builtins.filter', 'builtins.map') and e.args:
                k = self.expr_kind(e.args[-1] if d in (
                    'builtins.filter', 'builtins.map') else e.args[0])
                if k in ('U', 'T'):
                    return 'T'
                return k
            if d == 'builtins.sorted' and e.args:
                k = self.expr_kind(e.args[0])
                if k in ('U', 'T'):
                    key = [kw.value for kw in e.keywords if kw.arg == 'key']
                    if key and model.norm(key[0]) in ('id', 'hash', 'repr',
                                                      'str'):
                        return 'T'      # ordered by address / hash
                    return None
                return k
        if isinstance(e, ast.Subscript):
            k = self.expr_kind(e.value)
            if k == 'LU':
                return 'U'
            if k == 'LT':
                return 'T'
        if isinstance(e, (ast.ListComp, ast.GeneratorExp)):
            for g in e.generators:
                if self.expr_kind(g.iter) in ('U', 'T'):
                    return 'T'
        if isinstance(e, ast.SetComp):
            return 'U'
        return None

    def _solve(self):
        fi = self.fi
        for _ in range(6):
            before = dict(self.kind)
            for n in model.walk_shallow(fi.node):
                if isinstance(n, ast.Assign):
                    k = self.expr_kind(n.value)
                    for t in n.targets:
                        if isinstance(t, ast.Name) and k and k != 'TUP-U':
                            self.kind[t.id] = k
                        elif isinstance(t, ast.Tuple) and k == 'TUP-U' and \
                                isinstance(t.elts[0], ast.Name):
                            self.kind[t.elts[0].id] = 'U'
                elif isinstance(n, ast.For):
                    k = self.expr_kind(n.iter)
                    names = [x for x in ast.walk(n.target)
                             if isinstance(x, ast.Name)]
                    if k in ('LU', 'LT') and isinstance(n.target, ast.Name):
                        self.kind[n.target.id] = 'U' if k == 'LU' else 'T'
                    elif k in ('U', 'T'):
                        # appends inside the loop build tainted lists
                        for c in [x for s in n.body
                                  for x in model.walk_shallow(s)
                                  if isinstance(x, ast.Call)]:
                            if isinstance(c.func, ast.Attribute) and \
                                    c.func.attr in ('append', 'insert',
                                                    'extend') and \
                                    isinstance(c.func.value, ast.Name):
                                self.kind.setdefault(c.func.value.id, 'T')
                elif isinstance(n, ast.Call) and isinstance(
                        n.func, ast.Attribute) and n.func.attr == 'append' \
                        and isinstance(n.func.value, ast.Name) and n.args:
                    k = self.expr_kind(n.args[0])
                    if k in ('U', 'T'):
                        inloop = model.enclosing(n, ast.For)
                        # list of unordered/tainted collections
                        if self.kind.get(n.func.value.id) not in ('T',):
                            self.kind[n.func.value.id] = 'L' + k
                    # update() of a set keeps it a set
            if self.kind == before:
                break
        for n in ast.walk(fi.node):
            if isinstance(n, ast.For):
                k = self.expr_kind(n.iter)
                if k in ('U', 'T'):
                    self.uloops.append((n, model.norm(n.iter), k))
            elif isinstance(n, ast.comprehension):
                k = self.expr_kind(n.iter)
                if k in ('U', 'T'):
                    self.uloops.append((n, model.norm(n.iter), k))


def never_returning(repo, fi):
    """Names of nested functions of fi that raise on every path, with the
    exception 'kind' they raise."""
    out = {}
    for q, f in fi.module.functions.items():
        if f.parent_func is fi:
            g = cfgmod.CFG(f.node)
            if not g.can_return_normally():
                out[f.name] = f.name
    return out


def analyse_loop(repo, rep, fi, loop, label):
    """R06b on one loop over an unordered value."""
    mod = fi.module
    site = '%s/loop[%s]' % (fi.key, label)
    if isinstance(loop, ast.comprehension):
        comp = getattr(loop, '_parent', None)
        # comprehensions carry no state; their result is a tainted list, a
        # set, or feeds an order-insensitive consumer (checked by R06c)
        rep.ob('R06b', site, True, 'comprehension: no carried state',
               loc=mod.loc(comp))
        return
    nr = never_returning(repo, fi)
    body = loop.body
    pseudo = ast.FunctionDef(name='_b', args=fi.node.args, body=body,
                             decorator_list=[], lineno=loop.lineno,
                             col_offset=0)
    g = cfgmod.CFG(pseudo, lambda call: isinstance(
        call.func, ast.Name) and call.func.id in nr)
    elem_names = {x.id for x in ast.walk(loop.target)
                  if isinstance(x, ast.Name)}
    assigned = {}
    for st in body:
        for n in model.walk_shallow(st):
            if isinstance(n, (ast.Assign, ast.AugAssign)):
                tg = n.targets if isinstance(n, ast.Assign) else [n.target]
                for t in tg:
                    for x in ast.walk(t):
                        if isinstance(x, ast.Name) and isinstance(
                                x.ctx, ast.Store):
                            assigned.setdefault(x.id, []).append(n)
            elif isinstance(n, ast.For):
                for x in ast.walk(n.target):
                    if isinstance(x, ast.Name):
                        assigned.setdefault(x.id, []).append(n)
    # carried: read in the body where the entry definition reaches (value
    # of an earlier iteration), or read outside the body by a use that a
    # definition inside the body reaches
    gf = cfgmod.CFG(fi.node, lambda call: isinstance(
        call.func, ast.Name) and call.func.id in nr)
    body_ids = set()
    for st in body:
        for x in ast.walk(st):
            body_ids.add(id(x))
    carried = set()
    for name in assigned:
        if name in elem_names:
            continue
        for nd in g.nodes:
            for e in cfgmod.header_expr(nd):
                for x in ast.walk(e):
                    if isinstance(x, ast.Name) and x.id == name and \
                            isinstance(x.ctx, ast.Load):
                        if g.entry in cfgmod.reaching_defs(g, nd, name):
                            carried.add(name)
        if name in carried:
            continue
        for nd in gf.nodes:
            if nd.ast is None:
                continue
            for e in cfgmod.header_expr(nd):
                for x in ast.walk(e):
                    if isinstance(x, ast.Name) and x.id == name and \
                            isinstance(x.ctx, ast.Load) and \
                            id(x) not in body_ids and \
                            not _bound_locally(x, name):
                        for d in cfgmod.reaching_defs(gf, nd, name):
                            if d.ast is not None and id(d.ast) in body_ids:
                                carried.add(name)
    winners = set()
    problems = []
    for name in sorted(carried):
        for a in assigned[name]:
            if isinstance(a, ast.For):
                problems.append((a, 'loop variable %s outlives the loop' %
                                 name))
                winners.add(name)
                continue
            if isinstance(a, ast.AugAssign):
                if isinstance(a.value, ast.Constant):
                    continue     # counter
                problems.append((a, 'accumulates %s order-dependently' %
                                 name))
                winners.add(name)
                continue
            v = a.value
            if isinstance(v, ast.Constant):
                continue         # monotone flag
            # all-equal idiom: assignment under `if name is None:`
            i = model.enclosing(a, ast.If)
            init = i is not None and any(a is s for s in i.body) and \
                model.norm(i.test) in ('%s is None' % name,
                                       'not %s' % name,
                                       '%s is utils.NO_VALUE' % name)
            if init:
                # sibling branch compares and raises
                alt_ok = _agreement_enforced(fi, loop, name, nr)
                if not alt_ok:
                    problems.append((a, 'first element initialises `%s` '
                                     'but later elements are not compared '
                                     'with it (first one wins)' % name))
                    winners.add(name)
                # the initialising branch must not do anything that can
                # raise or have an effect using the first element
                for st in i.body:
                    for c in [x for x in ast.walk(st)
                              if isinstance(x, ast.Call)]:
                        d = repo.resolve(mod, c.func, model.scope_locals(fi))
                        if d in TRIVIAL_CALLS:
                            continue
                        problems.append((
                            c, 'the branch that initialises `%s` from the '
                            'first enumerated element also calls %s: its '
                            'outcome (exception or effect) is decided by '
                            'whichever element the set yields first, '
                            'before the others were compared' % (
                                name, model.norm(c.func))))
                continue
            # assigned from something that depends on the element
            dep = model.names_loaded(v) & (elem_names | set(assigned))
            if dep or True:
                problems.append((a, '`%s` is a running winner: it is '
                                 're-assigned from the current element and '
                                 'read by later iterations / after the '
                                 'loop, so the last (or first surviving) '
                                 'element in enumeration order decides' %
                                 name))
                winners.add(name)
    # exits
    kinds = set()
    for st in body:
        for n in model.walk_shallow(st):
            if isinstance(n, ast.Raise):
                kinds.add(model.norm(n.exc.func if isinstance(
                    n.exc, ast.Call) else n.exc) if n.exc else 'reraise')
                cond = _conditions(n, loop)
                if cond & winners:
                    problems.append((n, 'raise whose condition reads the '
                                     'running winner %s' % sorted(
                                         cond & winners)))
            elif isinstance(n, ast.Call) and isinstance(
                    n.func, ast.Name) and n.func.id in nr:
                kinds.add(n.func.id)
                cond = _conditions(n, loop)
                if cond & winners:
                    problems.append((n, '%s() is reached under a condition '
                                     'that reads the running winner %s: '
                                     'whether the call is ambiguous depends '
                                     'on the enumeration order' % (
                                         n.func.id, sorted(cond & winners))))
            elif isinstance(n, (ast.Return, ast.Break)):
                v = getattr(n, 'value', None)
                if isinstance(n, ast.Return) and (
                        v is None or isinstance(v, ast.Constant)):
                    continue
                problems.append((n, '%s from inside the loop: the first '
                                 'element in enumeration order that gets '
                                 'here decides' % type(n).__name__.lower()))
    if len(kinds) > 1:
        problems.append((loop, 'the loop can fail in different ways (%s): '
                         'which one surfaces depends on the order' %
                         sorted(kinds)))
    if not problems:
        rep.ob('R06b', site, True, 'carried state %s: order-insensitive '
               'forms only' % sorted(carried), loc=mod.loc(loop))
    seenp = set()
    for node, why in problems:
        k = (getattr(node, 'lineno', 0), why[:40])
        if k in seenp:
            continue
        seenp.add(k)
        rep.ob('R06b', site, False, why, loc=mod.loc(node),
               construct=model.norm(node).split('\n')[0][:140])


def _agreement_enforced(fi, loop, name, nr):
    """Some raise / never-returning call in the loop is necessarily reached
    whenever `name` is set and differs from the value it is compared with
    (if/elif, early-exit, negated-equality spellings alike)."""
    raisers = []
    for st in loop.body:
        for n in model.walk_shallow(st):
            if isinstance(n, ast.Raise):
                raisers.append(n)
            elif isinstance(n, ast.Call) and isinstance(
                    n.func, ast.Name) and n.func.id in nr:
                raisers.append(n)

    def oracle(e):
        if isinstance(e, ast.Compare) and len(e.ops) == 1:
            l, r = e.left, e.comparators[0]
            names = [x.id for x in (l, r) if isinstance(x, ast.Name)]
            if name in names:
                other = r if isinstance(l, ast.Name) and l.id == name else l
                if isinstance(other, ast.Constant) and other.value is None \
                        or model.norm(other).endswith('NO_VALUE'):
                    if isinstance(e.ops[0], ast.Is):
                        return False
                    if isinstance(e.ops[0], ast.IsNot):
                        return True
                    return None
                if isinstance(e.ops[0], ast.NotEq):
                    return True
                if isinstance(e.ops[0], ast.Eq):
                    return False
        return None
    for r in raisers:
        gs = norm.guards(r, loop)
        rel = [(e, p) for e, p in gs if name in {
            x.id for x in ast.walk(e) if isinstance(x, ast.Name)}]
        if not any(isinstance(c, ast.Compare) and isinstance(
                c.ops[0], (ast.NotEq, ast.Eq)) for e, p in rel
                for c in ast.walk(e)):
            continue
        if all(norm.eval3(e, oracle) == p for e, p in rel):
            return True
    return False


def _bound_locally(x, name):
    """Is this use of `name` bound by an enclosing lambda parameter or
    comprehension target (a different variable of the same name)?"""
    n = x
    while n is not None:
        p = getattr(n, '_parent', None)
        if isinstance(p, ast.Lambda):
            a = p.args
            if name in {y.arg for y in a.posonlyargs + a.args +
                        a.kwonlyargs}:
                return True
        if isinstance(p, (ast.ListComp, ast.SetComp, ast.DictComp,
                          ast.GeneratorExp)):
            for g in p.generators:
                if name in {y.id for y in ast.walk(g.target)
                            if isinstance(y, ast.Name)}:
                    return True
        n = p
    return False


def _always_raises_block(stmts, nr):
    for st in stmts:
        if isinstance(st, ast.Raise):
            return True
        if isinstance(st, ast.Expr) and isinstance(st.value, ast.Call) and \
                isinstance(st.value.func, ast.Name) and \
                st.value.func.id in nr:
            return True
    return False


def _conditions(node, loop):
    names = set()
    n = node
    while n is not None and n is not loop:
        p = getattr(n, '_parent', None)
        if isinstance(p, ast.If):
            names |= model.names_loaded(p.test)
            # elif chains: the earlier tests matter too
            q = p
            while True:
                pp = getattr(q, '_parent', None)
                if isinstance(pp, ast.If) and len(pp.orelse) == 1 and \
                        pp.orelse[0] is q:
                    names |= model.names_loaded(pp.test)
                    q = pp
                else:
                    break
        if isinstance(p, ast.Try):
            pass
        n = p
    return names


def check_loop_calls(repo, rep, fi, loop, label, eff):
    """R06d: a function called once per element of an unordered set with
    loop-invariant arguments must not write through those arguments --
    otherwise what the first element does to them decides what the later
    ones see."""
    if isinstance(loop, ast.comprehension):
        return
    mod = fi.module
    assigned = set()
    for st in loop.body:
        for n in ast.walk(st):
            if isinstance(n, ast.Name) and isinstance(n.ctx, ast.Store):
                assigned.add(n.id)
    for x in ast.walk(loop.target):
        if isinstance(x, ast.Name):
            assigned.add(x.id)
    for call in [c for st in loop.body for c in model.calls_in(st)]:
        f = call.func
        callee = None
        if isinstance(f, ast.Attribute):
            # method of the element: resolve by name among repo classes
            cands = [m for ci in repo.all_classes()
                     for nm, m in ci.methods.items() if nm == f.attr and
                     ci.module.name.startswith('yaql.language')]
            if len(cands) == 1:
                callee = cands[0]
        else:
            d = repo.resolve(mod, f, model.scope_locals(fi))
            t = repo.lookup(d) if d else None
            if isinstance(t, model.FuncInfo):
                callee = t
        if callee is None:
            continue
        names = callee.params()
        if callee.is_method:
            names = names[1:]
        for i, a in enumerate(call.args):
            if not isinstance(a, ast.Name) or a.id in assigned:
                continue
            if i >= len(names):
                continue
            pname = names[i]
            mutated = pname in eff.mut.get(callee.key, ())
            rep.ob('R06d', '%s/loop[%s]/%s(%s)' % (fi.key, label,
                                                   callee.name, pname),
                   not mutated,
                   '%s() is called for every overload the set enumerates '
                   'and writes through its parameter `%s`, to which the '
                   'same object `%s` is passed each time: the candidate '
                   'enumerated first consumes/changes it and decides what '
                   'the later candidates see' % (callee.name, pname, a.id),
                   loc=mod.loc(call), construct=model.norm(call)[:120])


def check_uses(repo, rep, fi, taint):
    """R06c: order-tainted lists are only used order-insensitively."""
    mod = fi.module
    g = None
    for n in ast.walk(fi.node):
        # positional access into an unordered value that is not a plain
        # name: candidates[0][...], next(iter(candidates[0]))
        if isinstance(n, ast.Call):
            d = repo.resolve(mod, n.func, model.scope_locals(fi))
            if d == 'builtins.next' and n.args and not isinstance(
                    n.args[0], ast.Name):
                k = taint.expr_kind(n.args[0])
                if k in ('T', 'U'):
                    rep.ob('R06c', '%s/first-of-unordered' % fi.key, False,
                           '%s takes whichever element an unordered '
                           'overload set yields first' % model.norm(n),
                           loc=mod.loc(n), construct=model.norm(n))
        if isinstance(n, ast.Subscript) and not isinstance(
                n.value, ast.Name) and not isinstance(n.slice, ast.Slice):
            k = taint.expr_kind(n.value)
            if k in ('T', 'U'):
                rep.ob('R06c', '%s/index-into-unordered' % fi.key, False,
                       '%s picks an element of an unordered overload set '
                       'by position' % model.norm(n), loc=mod.loc(n),
                       construct=model.norm(n))
        if not (isinstance(n, ast.Name) and isinstance(n.ctx, ast.Load)):
            continue
        k = taint.kind.get(n.id)
        if k not in ('T', 'U'):
            continue
        p = getattr(n, '_parent', None)
        site = '%s/use-of[%s]' % (fi.key, n.id)
        if isinstance(p, ast.Subscript) and p.value is n:
            ok = _len_one_guard(fi, p, n.id)
            rep.ob('R06c', site, ok,
                   '`%s` is built by iterating an unordered set; %s picks '
                   'an element by position without a dominating '
                   'len(%s) == 1 test' % (n.id, model.norm(p), n.id),
                   loc=mod.loc(p), construct=model.norm(p))
        elif isinstance(p, ast.Call) and n in p.args:
            d = repo.resolve(mod, p.func, model.scope_locals(fi))
            if d in ('builtins.next', 'builtins.iter'):
                pp = getattr(p, '_parent', None)
                if d == 'builtins.next' or (isinstance(pp, ast.Call) and
                                            repo.resolve(mod, pp.func) ==
                                            'builtins.next'):
                    ok = _len_one_guard(fi, p, n.id)
                    rep.ob('R06c', site, ok,
                           'takes the first element of unordered `%s`' %
                           n.id, loc=mod.loc(p), construct=model.norm(p))
            elif d == 'builtins.sorted':
                key = [kw.value for kw in p.keywords if kw.arg == 'key']
                bad = key and model.norm(key[0]) in ('id', 'hash', 'repr',
                                                     'str')
                rep.ob('R06c', site, not bad,
                       'sorted(%s, key=%s) orders overloads by memory '
                       'address / hash: differs from one process to the '
                       'next' % (n.id, model.norm(key[0]) if key else ''),
                       loc=mod.loc(p), construct=model.norm(p))
        elif isinstance(p, ast.Attribute) and p.attr == 'pop' and \
                p.value is n:
            call = getattr(p, '_parent', None)
            ok = _len_one_guard(fi, call, n.id)
            rep.ob('R06c', site, ok, 'pop() from unordered `%s` without a '
                   'len == 1 guard' % n.id, loc=mod.loc(p),
                   construct=model.norm(call))


def _len_one_guard(fi, node, name):
    """A dominating test establishes len(name) == 1."""
    g = cfgmod.CFG(fi.node, lambda call: isinstance(
        call.func, ast.Name) and call.func.id.startswith('raise_'))
    cn = g.node_of(node)
    if cn is None:
        return False
    want = 'len(%s)' % name
    for t in g.nodes:
        if t.kind != 'test' or want not in model.norm(t.ast):
            continue
        txt = model.norm(t.ast)
        if not g.dominates(t, cn) or t is cn:
            continue
        true_reach = set()
        false_reach = set()
        for s, lab in t.succ:
            r = {s.id} | g.reachable_from(s)
            if lab == 'true':
                true_reach |= r
            elif lab == 'false':
                false_reach |= r
        if txt in ('%s == 1' % want, '1 == %s' % want):
            if cn.id in true_reach and cn.id not in false_reach:
                return True
        if txt in ('%s != 1' % want, '1 != %s' % want, '%s > 1' % want):
            if cn.id in false_reach and cn.id not in true_reach:
                if txt.endswith('> 1'):
                    continue
                return True
    return False


def check_registration_commutes(repo, rep):
    """R06f: what a layer remembers about its overloads is updated only by
    commutative operations (set add / discard).  A subscript store whose
    value is the registered definition (`table[name] = spec`) makes the
    last registration win, and a deletion conditional on it makes the
    outcome depend on the order in which overloads were registered."""
    ctxm = repo.module('yaql.language.contexts')
    n = 0
    for ci in ctxm.classes.values():
        for mname in ('register_function', 'delete_function'):
            m = ci.methods.get(mname)
            if m is None:
                continue
            spec = m.params()[1] if len(m.params()) > 1 else None
            derived = {spec}
            for st in model.walk_shallow(m.node):
                if isinstance(st, ast.Assign) and isinstance(
                        st.targets[0], ast.Name) and any(
                        isinstance(x, ast.Name) and x.id in derived
                        for x in ast.walk(st.value)):
                    derived.add(st.targets[0].id)
            for w in effects.writes_in(m.node):
                if w.root != 'self' or w.kind not in (
                        'subscript', 'aug-subscript'):
                    continue
                n += 1
                v = w.value
                dep = v is not None and any(
                    isinstance(x, ast.Name) and x.id in derived
                    for x in ast.walk(v)) and not (
                    isinstance(v, ast.Call) and isinstance(
                        v.func, ast.Attribute) and v.func.attr in (
                        'union', 'copy'))
                rep.ob('R06f', '%s/%s' % (m.key, model.norm(w.target)),
                       not dep,
                       '%s stores the registered definition under a key '
                       '(`%s`): of two overloads registered under the same '
                       'key the one registered last wins, so what the layer '
                       'answers depends on registration order' % (
                           m.qualname, model.norm(w.node).split('\n')[0]),
                       loc=ctxm.loc(w.node),
                       construct=model.norm(w.node).split('\n')[0])
            rep.ob('R06f', m.key + '/analysed', True,
                   'updates its tables with add/discard only',
                   nontrivial=False)
    return n


def run(repo, rep):
    from sa import resmodel
    resmodel.install(repo, rep)
    rep.rule('R06a', 'provenance: every get_functions implementation '
             'returns a set of overloads; collect_functions returns the '
             'ordered list of those unordered layers')
    rep.rule('R06b', 'loops over unordered values carry state only through '
             'order-insensitive forms (accumulation, all-equal idiom with '
             'a pure initialising branch, monotone flags); no running '
             'winner, no exit that depends on one, one failure kind')
    rep.rule('R06d', 'functions called per element of an unordered set do '
             'not write through loop-invariant arguments (args, kwargs)')
    rep.rule('R06c', 'order-tainted lists are used only '
             'order-insensitively (len/all/any/set/membership/full '
             'iteration); positional access needs a dominating '
             'len(x) == 1 test; no sorted(key=id)')
    rep.rule('R06e', 'the all-equal idiom on the candidates\' lazy sets is '
             'symmetric: differing sets are always ambiguous (shared with '
             'C05)')
    rep.trusted += ['SmartType.check / is_specialization_of / map_args are '
                    'functions of their operands (C18 R18a)']
    rep.explanation = (
        'The overloads of one layer come out of a Python set. Every loop '
        'on the resolution path that iterates such a set (or a list built '
        'by iterating one) is found by a small order-taint propagation and '
        'its loop-carried variables and exits are classified; the property '
        'holds for every overload family and enumeration order when only '
        'order-insensitive forms occur.')
    from sa.rules import c05
    resmodel.guarded(repo, rep, 'R06e',
                     lambda: c05.check_lazy_agreement_symmetric(
                         repo, rep, rule='R06e'))
    rep.rule('R06f', 'registration state of a layer is updated only by '
             'commutative operations (no last-writer-wins table keyed by '
             'name)')
    check_registration_commutes(repo, rep)
    rep.rule('R06g', 'ORDER-SITUATIONS: choose_overload evaluated '
             'abstractly gives the same outcome for every order in which a '
             'layer enumerates its candidates (648 situations, every '
             'permutation of layers of two and three)')
    resmodel.report_situations(repo, rep, 'R06g', (
        'order-independent', 'outcome', 'chosen-overload-runs-alone'),
        'the outcome of overload choice depends on enumeration order')
    # two clauses other properties decide, which are order clauses too: a
    # merged layer is the *union* of what its members offer (no "first
    # member wins"), and registering a definition in one context does not
    # write into the definition another context registered (clone copies)
    from sa.rules import c12, c17
    rep.rule('R17f', 'see C17: MultiContext.get_functions is the union over '
             'all members, exclusive if any member is')
    rep.rule('R12f', 'see C12: FunctionDefinition.clone copies the '
             'parameter definitions it later edits')
    c17.check_multi(repo, rep, repo.module(c17.CTX))
    rep.rule('R17d', 'see C17: the layer walk hands every layer the name, the '
             'filter and the use_convention flag it was given (each member '
             'of a merged layer spells the name in its own convention, so '
             'the answer does not depend on which member comes first)')
    c17.check_collect(repo, rep, repo.module(c17.CTX))
    c12.check_clone_copies_parameters(repo, rep)
    ctxm = repo.module('yaql.language.contexts')
    impls = [f for q, f in ctxm.functions.items()
             if f.name == 'get_functions' and f.is_method and
             f.cls.qualname != 'ContextBase']
    rep.floor('get_functions implementations', len(impls), 3)
    for f in impls:
        ok, why = returns_set_at(repo, f, 0)
        rep.ob('R06a', f.key, ok,
               'returns a set (order of enumeration is arbitrary)' if ok
               else 'get_functions returns something ordered (%s): the '
               'premises of the order analysis changed' % why,
               loc=ctxm.loc(f.node))
    runner = repo.module('yaql.language.runner')
    utils = repo.module('yaql.language.utils')
    targets = [
        (ctxm.func('ContextBase.collect_functions'), {}),
        (runner.func('call'), {}),
        (runner.func('choose_overload'), {'candidates': 'LU'}),
        (utils.func('to_extension_method'), {}),
    ]
    mc = ctxm.func('MultiContext.get_functions')
    targets.append((mc, {}))
    # the seed for choose_overload is derived, not assumed
    callf = runner.func('call')
    t_call = Taint(repo, callf, {})
    passed = False
    for c in model.calls_in(callf.node):
        if isinstance(c.func, ast.Name) and c.func.id == 'choose_overload' \
                and len(c.args) > 1:
            passed = t_call.expr_kind(c.args[1]) == 'LU'
    rep.ob('R06a', callf.key + '/passes-layers', passed,
           'runner.call hands the result of collect_functions to '
           'choose_overload as `candidates`' if passed else
           'cannot establish that choose_overload\'s candidates are the '
           'layers returned by collect_functions', loc=runner.loc(
               callf.node))
    from sa import universe as unimod
    from sa.rules import c09
    uni = unimod.Universe(repo)
    eff = c09.Effects(repo, uni)
    nloops = 0
    for fi, seeds in targets:
        t = Taint(repo, fi, seeds)
        for loop, label, kind in t.uloops:
            nloops += 1
            outer = model.enclosing(loop, (ast.For,))
            if outer is not None:
                label = '%s<-%s' % (label, model.norm(outer.iter))
            analyse_loop(repo, rep, fi, loop, label)
            check_loop_calls(repo, rep, fi, loop, label, eff)
        check_uses(repo, rep, fi, t)
    rep.count(unordered_loops=nloops, functions=len(targets))
    rep.floor('loops over unordered values on the resolution path',
              nloops, 3)
