"""C20 -- date/time values denote instants consistently.

Abstract interpretation of date_time.py over an (instant, offset-tag,
awareness) domain, plus evaluation of the unit constants.
"""
import ast
from fractions import Fraction

from sa import model
from sa import norm
from sa import universe as unimod
from sa.model import AnalysisError

TITLE = 'instant/offset algebra of utc, timestamp, offset; unit constants'

DT = 'yaql.standard_library.date_time'
TZ_INSENSITIVE = {'year', 'month', 'day', 'hour', 'minute', 'second',
                  'microsecond', 'weekday', 'isoweekday', 'date', 'time',
                  'tzinfo', 'utcoffset'}
UNITS = {'microseconds': 1, 'milliseconds': 10 ** 3, 'seconds': 10 ** 6,
         'minutes': 6 * 10 ** 7, 'hours': 36 * 10 ** 8,
         'days': 864 * 10 ** 8}


class DTv:
    """wall clock = a*W0 + b*off (+ c*ts for from-timestamp values);
    tag: 'orig' (the argument's own zone), 'utc', or ('zone', text)."""

    def __init__(self, a=1, b=0, tag='orig', aware=True, ts=0, epoch=0):
        self.a, self.b, self.tag, self.aware = a, b, tag, aware
        self.ts = ts          # coefficient of the timestamp argument
        self.epoch = epoch    # coefficient of the epoch constant

    def instant(self):
        """coefficients (W0, off, ts, epoch) of the denoted instant"""
        b = self.b - (1 if self.tag == 'orig' else 0)
        return (self.a, b, self.ts, self.epoch)

    def __repr__(self):
        return 'DT(wall=%s*W0%+d*off tag=%s%s)' % (
            self.a, self.b, self.tag, '' if self.aware else ' maybe-naive')


class Off:
    def __init__(self, of='orig', maybe_none=False):
        self.of = of
        self.maybe_none = maybe_none


class Span:
    """difference of two instants, as coefficient tuple"""

    def __init__(self, coef):
        self.coef = coef


class Seconds:
    def __init__(self, coef):
        self.coef = coef


class Zone:
    def __init__(self, text):
        self.text = text


class Unknown:
    def __init__(self, why):
        self.why = why


class TzInterp:
    def __init__(self, repo, mod, uni):
        self.repo = repo
        self.mod = mod
        self.uni = uni
        self.summaries = {}

    def is_utc(self, e):
        d = self.repo.resolve(self.mod, e)
        if d is None:
            return False
        if d.endswith('.UTCTZ') or d.endswith('.utctz'):
            return True
        tgt = self.repo.lookup(d)
        if isinstance(tgt, tuple) and tgt[0] == 'const':
            return self.is_utc_in(tgt[1], tgt[2])
        return d in ('dateutil.tz.UTC', 'datetime.timezone.utc')

    def is_utc_in(self, mod, e):
        t = model.norm(e)
        return 'utctz' in t or 'tzutc' in t or 'timezone.utc' in t

    def is_datetime_ctor(self, e):
        d = self.repo.resolve(self.mod, e)
        return d in ('datetime.datetime',) or (d or '').endswith(
            '.DATETIME_TYPE') and self._const_is(d, 'datetime.datetime')

    def _const_is(self, d, want):
        return self.repo.deref(d) == want

    def ev(self, e, env):
        if isinstance(e, ast.Name):
            if e.id in env:
                return env[e.id]
            if self.is_utc(e):
                return Zone('utc')
            d = self.repo.resolve(self.mod, e)
            if d and d.endswith('ZERO_TIMESPAN'):
                return Span((0, 0, 0, 0))
            tgt = self.repo.lookup(d) if d else None
            if isinstance(tgt, tuple) and tgt[0] == 'const' and \
                    tgt[1] is self.mod and not isinstance(
                        tgt[2], ast.Name):
                # a module-level constant: what its defining expression
                # denotes
                return self.ev(tgt[2], {})
            return Unknown('name ' + e.id)
        if isinstance(e, ast.BoolOp) and isinstance(e.op, ast.Or) and \
                len(e.values) == 2:
            a = self.ev(e.values[0], env)
            b = self.ev(e.values[1], env)
            if isinstance(a, Off) and isinstance(b, Span) and \
                    b.coef == (0, 0, 0, 0):
                return Off(a.of, maybe_none=False)
            return Unknown('or')
        if isinstance(e, ast.BinOp) and isinstance(e.op, (ast.Sub, ast.Add)):
            a = self.ev(e.left, env)
            b = self.ev(e.right, env)
            sign = -1 if isinstance(e.op, ast.Sub) else 1
            if isinstance(a, DTv) and isinstance(b, Off):
                if b.maybe_none:
                    return Unknown('arithmetic with utcoffset() of a '
                                   'possibly naive datetime (None)')
                if b.of != 'orig' or a.tag not in ('orig', 'utc'):
                    return Unknown('offset of another value')
                return DTv(a.a, a.b + sign, a.tag, a.aware, a.ts, a.epoch)
            if isinstance(a, DTv) and isinstance(b, DTv) and sign == -1:
                if not (a.aware and b.aware):
                    return Unknown('difference of a possibly naive and an '
                                   'aware datetime (TypeError)')
                ia, ib = a.instant(), b.instant()
                return Span(tuple(x - y for x, y in zip(ia, ib)))
            if isinstance(a, DTv) and isinstance(b, Span):
                return Unknown('datetime +/- arbitrary span')
            return Unknown('binop')
        if isinstance(e, ast.Call):
            f = e.func
            if isinstance(f, ast.Attribute):
                recv = self.ev(f.value, env) if not self._is_type(
                    f.value) else None
                if isinstance(recv, DTv):
                    if f.attr == 'utcoffset' and not e.args:
                        return Off('orig', maybe_none=not recv.aware)
                    if f.attr == 'astimezone' and e.args and (
                            self.is_utc(e.args[0]) or isinstance(
                                self.ev(e.args[0], env), Zone) and
                            self.ev(e.args[0], env).text == 'utc'):
                        if not recv.aware:
                            return Unknown('astimezone() on a possibly '
                                           'naive datetime assumes local '
                                           'time')
                        i = recv.instant()
                        return DTv(i[0], i[1], 'utc', True, i[2], i[3])
                    if f.attr == 'replace':
                        kw = {k.arg: k.value for k in e.keywords}
                        if set(kw) == {'tzinfo'} and self.is_utc(
                                kw['tzinfo']):
                            return DTv(recv.a, recv.b, 'utc', True,
                                       recv.ts, recv.epoch)
                        return Unknown('replace')
                if isinstance(recv, Span) and f.attr == 'total_seconds':
                    return Seconds(recv.coef)
                if isinstance(recv, DTv) and f.attr == 'timestamp' and \
                        not e.args and not e.keywords:
                    # datetime.timestamp(): for an aware value (instant -
                    # epoch).total_seconds(); a naive one is read as local
                    # time
                    if not recv.aware:
                        return Unknown('timestamp() of a possibly naive '
                                       'datetime assumes local time')
                    i = recv.instant()
                    return Seconds((i[0], i[1], i[2], i[3] - 1))
                if self._is_type(f.value) and f.attr == 'fromtimestamp':
                    kw = {k.arg: k.value for k in e.keywords}
                    tzarg = kw.get('tz') or (e.args[1] if len(e.args) > 1
                                             else None)
                    if tzarg is None:
                        return Unknown('fromtimestamp() without tz gives '
                                       'naive local time')
                    z = self.ev(tzarg, env)
                    # the seconds themselves, not something computed from
                    # them (a unit guess, an offset correction ...)
                    t0 = e.args[0] if e.args else kw.get('timestamp')
                    if isinstance(t0, ast.Call) and model.norm(
                            t0.func) == 'float' and len(t0.args) == 1:
                        t0 = t0.args[0]
                    if not isinstance(t0, ast.Name):
                        return Unknown(
                            'fromtimestamp of the computed value `%s`: the '
                            'instant is no longer the timestamp that was '
                            'given' % (model.norm(t0) if t0 is not None
                                       else '?'))
                    if isinstance(z, Zone):
                        # instant = ts; wall = ts + zone offset
                        return DTv(0, 0, ('zone', z.text), True, ts=1)
                    return Unknown('fromtimestamp tz')
            d = self.repo.resolve(self.mod, f)
            if self._is_type(f):
                kw = {k.arg: k.value for k in e.keywords}
                tzarg = kw.get('tzinfo') or (e.args[7] if len(e.args) > 7
                                             else None)
                nums = [a.value for a in e.args
                        if isinstance(a, ast.Constant)]
                if tzarg is not None and self.is_utc(tzarg) and \
                        nums[:3] == [1970, 1, 1] and all(
                            x == 0 for x in nums[3:]):
                    return DTv(0, 0, 'utc', True, epoch=1)
                return Unknown('datetime constructor')
            tgt = self.repo.lookup(d) if d else None
            if tgt is None and isinstance(f, ast.Attribute) and isinstance(
                    f.value, ast.Name) and f.value.id in self.mod.classes:
                # a static helper kept in a namespace class
                tgt = self.mod.classes[f.value.id].methods.get(f.attr)
            if isinstance(tgt, model.FuncInfo) and tgt.module is self.mod:
                if self.is_zone_builder(tgt) and e.args:
                    return Zone(model.norm(e.args[0]))
                s = self.summary(tgt)
                if s is not None and e.args:
                    arg = self.ev(e.args[0], env)
                    return self.apply(s, arg, tgt)
            return Unknown('call %s' % model.norm(f))
        if isinstance(e, ast.Attribute):
            return Unknown('attribute')
        if isinstance(e, ast.Constant):
            return e.value
        return Unknown(type(e).__name__)

    def is_zone_builder(self, fi):
        """A one-parameter helper that turns an offset into a tzinfo: it
        returns tz.tzoffset(...) / datetime.timezone(...) built from its
        parameter (how it is built is R20d's obligation)."""
        ps = [p for p in fi.params() if p not in ('self', 'cls')]
        if len(ps) != 1:
            return False
        for c in model.calls_in(fi.node):
            d = self.repo.resolve(self.mod, c.func)
            if d in ('dateutil.tz.tzoffset', 'datetime.timezone',
                     'dateutil.tz.tz.tzoffset') and ps[0] in {
                    n.id for a in c.args for n in ast.walk(a)
                    if isinstance(n, ast.Name)}:
                return True
        return False

    def _is_type(self, e):
        d = self.repo.resolve(self.mod, e)
        return d is not None and self.repo.deref(d) == 'datetime.datetime'

    def summary(self, fi):
        """Result of a one-parameter datetime function applied to the
        canonical aware argument."""
        if fi.key in self.summaries:
            return self.summaries[fi.key]
        self.summaries[fi.key] = None
        ps = fi.params()
        body = model.strip_docstring(fi.node.body)
        if len(ps) != 1:
            return None
        env = {ps[0]: DTv(1, 0, 'orig', True)}
        res = None
        if any(isinstance(st, ast.If) for st in body):
            # early-return / if-else spellings: evaluate the equivalent
            # single expression
            e = norm.as_expression(fi.node)
            if e is not None:
                res = self.ev(e, env)
                self.summaries[fi.key] = res
                return res
        for st in body:
            if isinstance(st, ast.Assign) and isinstance(
                    st.targets[0], ast.Name):
                env[st.targets[0].id] = self.ev(st.value, env)
            elif isinstance(st, ast.Return):
                res = self.ev(st.value, env)
            else:
                res = Unknown('statement')
        self.summaries[fi.key] = res
        return res

    def apply(self, summ, arg, callee):
        """Apply the summary of callee to an abstract argument."""
        if not isinstance(arg, DTv):
            return Unknown('non-datetime argument')
        need_aware = self.requires_aware(callee)
        if need_aware and not arg.aware:
            return Unknown('%s needs an aware datetime but the value may '
                           'be naive' % callee.name)
        if isinstance(summ, DTv) and arg.a == 1 and arg.b == 0 and \
                arg.tag == 'orig':
            return DTv(summ.a, summ.b, summ.tag, summ.aware, summ.ts,
                       summ.epoch)
        if isinstance(summ, (Span, Seconds, Off)) and arg.a == 1 and \
                arg.b == 0 and arg.tag == 'orig':
            return summ
        return Unknown('summary composition')

    def requires_aware(self, fi):
        ovs = self.uni.payload_ov.get(fi.key, [])
        for o in ovs:
            for p in o.params:
                if (p.type.cls or '').endswith('.DateTime'):
                    return True
        return False


def declared(uni, fi):
    ovs = uni.payload_ov.get(fi.key)
    if not ovs:
        raise AnalysisError('anchor vanished: %s is not registered' % fi.key)
    return ovs[0]


def check_instants(repo, rep, uni):
    mod = repo.module(DT)
    tz = TzInterp(repo, mod, uni)
    # utc
    f = mod.func('utc')
    ov = declared(uni, f)
    p = ov.params[0]
    aware = (p.type.cls or '').endswith('.DateTime')
    s = tz.summary(f)
    ok = isinstance(s, DTv) and s.instant() == (1, -1, 0, 0) and \
        s.tag == 'utc'
    rep.ob('R20a', f.key, ok,
           'utc(dt) must denote the same instant as dt (wall clock W0 - '
           'off) expressed at offset zero; the body computes %s%s' % (
               s if not isinstance(s, Unknown) else 'an unrecognised form '
               '(%s)' % s.why,
               ': instant %s*W0 %+d*off with zone tag %s -- the offset is '
               'subtracted from the wall clock but the original tzinfo is '
               'kept, so the instant moves by the offset and .offset is '
               'still the original one' % (s.instant()[0], s.instant()[1],
                                           s.tag)
               if isinstance(s, DTv) and not ok else ''),
           loc=mod.loc(f.node), construct=model.norm(
               model.strip_docstring(f.node.body)[-1]))
    rep.ob('R20b', f.key + '/parameter', aware,
           'utc() does arithmetic with utcoffset(): its parameter must be '
           'declared yaqltypes.DateTime() so that a naive host datetime is '
           'made UTC first', loc=mod.loc(f.node), construct=p.type.text)
    # timestamp
    f = mod.func('timestamp')
    ov = declared(uni, f)
    p = ov.params[0]
    aware = (p.type.cls or '').endswith('.DateTime')
    ps = f.params()
    env = {ps[0]: DTv(1, 0, 'orig', aware)}
    body = model.strip_docstring(f.node.body)
    res = None
    for st in body:
        if isinstance(st, ast.Assign) and isinstance(
                st.targets[0], ast.Name):
            env[st.targets[0].id] = tz.ev(st.value, env)
        elif isinstance(st, ast.Return):
            res = tz.ev(st.value, env)
    ok = isinstance(res, Seconds) and res.coef == (1, -1, 0, -1)
    rep.ob('R20a', f.key, ok,
           'timestamp(dt) must be (instant of dt) - epoch in seconds, i.e. '
           '(W0 - off) - E; the body computes %s' % (
               'seconds of %s*W0 %+d*off %+d*E' % (
                   res.coef[0], res.coef[1], res.coef[3])
               if isinstance(res, Seconds) else
               getattr(res, 'why', repr(res))),
           loc=mod.loc(f.node), construct=model.norm(body[-1]))
    # offset
    f = mod.func('offset')
    ps = f.params()
    ov = declared(uni, f)
    aware = (ov.params[0].type.cls or '').endswith('.DateTime')
    oexpr = norm.as_expression(f.node)
    if oexpr is None:
        oexpr = model.strip_docstring(f.node.body)[-1].value
    res = tz.ev(oexpr, {ps[0]: DTv(1, 0, 'orig', aware)})
    ok = isinstance(res, Off) and res.of == 'orig' and not res.maybe_none
    rep.ob('R20a', f.key, ok,
           'offset(dt) must be dt\'s own UTC offset, zero for a naive '
           'datetime (None-safe)', loc=mod.loc(f.node))
    # datetime(timestamp, offset)
    f = mod.func('datetime_from_timestamp')
    ps = f.params()
    env = {}
    res = None
    for st in model.strip_docstring(f.node.body):
        if isinstance(st, ast.Assign) and isinstance(
                st.targets[0], ast.Name):
            env[st.targets[0].id] = tz.ev(st.value, env)
        elif isinstance(st, ast.Return):
            res = tz.ev(st.value, env)
    ok = isinstance(res, DTv) and res.ts == 1 and res.tag == (
        'zone', ps[1])
    rep.ob('R20a', f.key, ok,
           'datetime(timestamp, offset) must be the instant `timestamp` '
           'expressed at `offset` (fromtimestamp(ts, tz=_get_tz(offset))); '
           'got %s' % (res if not isinstance(res, Unknown) else res.why),
           loc=mod.loc(f.node))
    return tz


def check_naive_safety(repo, rep, uni, tz):
    mod = repo.module(DT)
    n = 0
    for fi in [f for f in mod.functions.values()
               if f.key in uni.payload_ov]:
        ov = uni.payload_ov[fi.key][0]
        for p in ov.params:
            if p.type.hidden or p.type.lazy:
                continue
            bare = 'datetime.datetime' in p.type.python_types and \
                not (p.type.cls or '').endswith('.DateTime')
            if not bare:
                continue
            n += 1
            site = '%s/%s' % (fi.key, p.name)
            bad = []
            for node in ast.walk(fi.node):
                if not (isinstance(node, ast.Name) and node.id == p.name
                        and isinstance(node.ctx, ast.Load)):
                    continue
                par = getattr(node, '_parent', None)
                if isinstance(par, ast.Attribute):
                    if par.attr not in TZ_INSENSITIVE:
                        bad.append((par, 'uses .%s on a possibly naive '
                                    'datetime' % par.attr))
                    elif par.attr == 'utcoffset':
                        call = getattr(par, '_parent', None)
                        up = getattr(call, '_parent', None)
                        guarded = isinstance(up, ast.BoolOp) and isinstance(
                            up.op, ast.Or) and up.values[0] is call
                        if not guarded:
                            # the same thing spelled with a local and an
                            # if / early return
                            e = norm.as_expression(fi.node)
                            if e is not None:
                                model._attach_parents(e)
                                offs = [x for x in ast.walk(e) if isinstance(
                                    x, ast.Call) and isinstance(
                                    x.func, ast.Attribute) and
                                    x.func.attr == 'utcoffset']
                                guarded = bool(offs) and all(
                                    isinstance(getattr(x, '_parent', None),
                                               ast.BoolOp) and isinstance(
                                        x._parent.op, ast.Or) and
                                    x._parent.values[0] is x for x in offs)
                        if not guarded:
                            bad.append((par, 'utcoffset() of a possibly '
                                        'naive datetime is None and is used '
                                        'without the `or ZERO_TIMESPAN` '
                                        'guard'))
                    continue
                if isinstance(par, ast.Call) and node in par.args:
                    d = repo.resolve(mod, par.func, model.scope_locals(fi))
                    tgt = repo.lookup(d) if d else None
                    if isinstance(tgt, model.FuncInfo) and \
                            tz.requires_aware(tgt):
                        bad.append((par, 'passes it to %s, whose parameter '
                                    'is declared yaqltypes.DateTime() '
                                    '(aware): called directly from Python '
                                    'no conversion happens, and a naive '
                                    'host datetime raises TypeError in the '
                                    'aware/naive arithmetic there' %
                                    tgt.name))
                    elif d == 'builtins.isinstance':
                        pass
                    elif isinstance(tgt, model.FuncInfo):
                        pass
                    continue
                if isinstance(par, (ast.BinOp, ast.Compare)):
                    bad.append((par, 'arithmetic/comparison on a possibly '
                                'naive datetime'))
            if not bad:
                rep.ob('R20b', site, True,
                       'bare-typed parameter read only through '
                       'zone-insensitive members')
            for node, why in bad:
                rep.ob('R20b', site, False,
                       'parameter `%s` of %s is declared with the bare '
                       'datetime type (no naive->UTC conversion) and the '
                       'body %s; declare it yaqltypes.DateTime()' % (
                           p.name, ov.name, why), loc=mod.loc(node),
                       construct=model.norm(node))
    rep.floor('bare-typed datetime parameters', n, 8)
    # every operator overload on datetimes is declared with the converting
    # type
    m = 0
    for name in ('#operator_+', '#operator_-', '#operator_<', '#operator_<=',
                 '#operator_>', '#operator_>='):
        for o in uni.reg.by_name(name, 'default'):
            if o.func.module.name != DT:
                continue
            for p in o.params:
                if 'datetime.datetime' in p.type.python_types:
                    m += 1
                    rep.ob('R20b', '%s/%s[%s]' % (o.func.key, p.name, name),
                           (p.type.cls or '').endswith('.DateTime'),
                           'datetime operand `%s` of %s must be declared '
                           'yaqltypes.DateTime(): mixing a naive host '
                           'datetime with an aware one raises TypeError' % (
                               p.name, name), loc=mod.loc(o.func.node),
                           construct=p.type.text)
    rep.floor('datetime operator operands', m, 10)


def const_eval(e, repo=None, mod=None, depth=0):
    if isinstance(e, ast.Constant) and isinstance(e.value, (int, float)):
        return Fraction(e.value).limit_denominator(10 ** 12)
    if isinstance(e, ast.Name) and repo is not None and depth < 5:
        d = repo.resolve(mod, e)
        tgt = repo.lookup(d) if d else None
        if isinstance(tgt, tuple) and tgt[0] == 'const':
            return const_eval(tgt[2], repo, tgt[1], depth + 1)
        return None
    if isinstance(e, ast.UnaryOp) and isinstance(e.op, ast.USub):
        v = const_eval(e.operand, repo, mod, depth)
        return None if v is None else -v
    if isinstance(e, ast.BinOp):
        a, b = const_eval(e.left, repo, mod, depth), const_eval(
            e.right, repo, mod, depth)
        if a is None or b is None:
            return None
        if isinstance(e.op, ast.Mult):
            return a * b
        if isinstance(e.op, ast.Add):
            return a + b
        if isinstance(e.op, ast.Pow):
            return a ** int(b)
        if isinstance(e.op, ast.Div):
            return a / b
    return None


TD_FIELDS = ('days', 'seconds', 'microseconds', 'milliseconds', 'minutes',
             'hours', 'weeks')
TD_US = {'days': 86400 * 10 ** 6, 'seconds': 10 ** 6, 'microseconds': 1,
         'milliseconds': 1000, 'minutes': 60 * 10 ** 6,
         'hours': 3600 * 10 ** 6, 'weeks': 7 * 86400 * 10 ** 6}


def timedelta_const(e, repo, mod, depth=0):
    """The length, in microseconds, of a constant datetime.timedelta(...)
    expression (or a module constant bound to one); None otherwise."""
    if isinstance(e, (ast.Name, ast.Attribute)) and depth < 5:
        d = repo.resolve(mod, e)
        tgt = repo.lookup(d) if d else None
        if isinstance(tgt, tuple) and tgt[0] == 'const':
            return timedelta_const(tgt[2], repo, tgt[1], depth + 1)
        return None
    if isinstance(e, ast.Call) and repo.resolve(mod, e.func) == \
            'datetime.timedelta':
        total = Fraction(0)
        for i, a in enumerate(e.args):
            c = const_eval(a, repo, mod)
            if c is None or i >= len(TD_FIELDS):
                return None
            total += c * TD_US[TD_FIELDS[i]]
        for k in e.keywords:
            c = const_eval(k.value, repo, mod)
            if c is None or k.arg not in TD_US:
                return None
            total += c * TD_US[k.arg]
        return total
    return None


def check_units(repo, rep):
    mod = repo.module(DT)
    f = mod.func('microseconds')
    ts = f.params()[0]
    body = model.strip_docstring(f.node.body)
    v = body[-1].value if isinstance(body[-1], ast.Return) else None
    if v is not None:
        v = norm.unroll_constant_tables(repo, mod, norm.subst_locals(
            f.node, v))
    # a linear form in .days, .seconds, .microseconds
    coef = {}

    def lin(e, k):
        if isinstance(e, ast.BinOp) and isinstance(e.op, ast.Add):
            lin(e.left, k)
            lin(e.right, k)
        elif isinstance(e, ast.BinOp) and isinstance(e.op, ast.Mult):
            c = const_eval(e.left, repo, mod)
            other = e.right
            if c is None:
                c = const_eval(e.right, repo, mod)
                other = e.left
            if c is None:
                coef['?'] = 1
            else:
                lin(other, k * c)
        elif isinstance(e, ast.Attribute) and isinstance(
                e.value, ast.Name) and e.value.id == ts:
            coef[e.attr] = coef.get(e.attr, 0) + k
        elif isinstance(e, ast.BinOp) and isinstance(e.op, ast.FloorDiv) \
                and isinstance(e.left, ast.Name) and e.left.id == ts and \
                timedelta_const(e.right, repo, mod) == 1:
            # timedelta // one microsecond: exact integer arithmetic on the
            # normalised (days, seconds, microseconds) triple
            for a in ('days', 'seconds', 'microseconds'):
                coef[a] = coef.get(a, 0) + k * TD_US[a]
        else:
            coef['?'] = 1
    if v is not None:
        lin(v, Fraction(1))
    ok = coef == {'days': 86400 * 10 ** 6, 'seconds': 10 ** 6,
                  'microseconds': 1}
    rep.ob('R20c', f.key, ok,
           'microseconds(ts) must be 86400e6*days + 1e6*seconds + '
           'microseconds; found coefficients %s' % {
               k: str(c) for k, c in coef.items()}, loc=mod.loc(f.node))
    for name, c in UNITS.items():
        if name == 'microseconds':
            continue
        f = mod.func(name)
        body = model.strip_docstring(f.node.body)
        v = body[-1].value if isinstance(body[-1], ast.Return) else None
        if v is not None:
            v = norm.inline_simple_calls(repo, mod, norm.subst_locals(
                f.node, v), exclude=set(UNITS))
        ok = False
        got = None
        if isinstance(v, ast.BinOp) and isinstance(v.op, ast.Div) and \
                isinstance(v.left, ast.Call) and isinstance(
                    v.left.func, ast.Name) and \
                v.left.func.id == 'microseconds':
            got = const_eval(v.right, repo, mod)
            ok = got == c
        elif isinstance(v, ast.BinOp) and isinstance(v.op, ast.Mult):
            k = const_eval(v.right, repo, mod) or const_eval(
                v.left, repo, mod)
            got = 1 / k if k else None
            ok = got == c
        rep.ob('R20c', f.key, ok,
               '%s(ts) must be microseconds(ts) / %d; the divisor is %s' % (
                   name, c, got), loc=mod.loc(f.node))


def check_zone_construction(repo, rep):
    """R20d: a fixed-offset zone is built from the *total* length of the
    offset timespan (seconds(ts) / ts.total_seconds()), never from the
    `.seconds` / `.days` / `.microseconds` fields of the timedelta (for a
    negative span `.seconds` is 86400 - x with days = -1)."""
    mod = repo.module(DT)
    n = 0
    for fi in mod.functions.values():
        for c in model.calls_in(fi.node, shallow=True):
            d = repo.resolve(mod, c.func, model.scope_locals(fi))
            if d not in ('dateutil.tz.tzoffset', 'dateutil.tz.tz.tzoffset',
                         'datetime.timezone'):
                continue
            n += 1
            arg = None
            if d == 'datetime.timezone':
                arg = c.args[0] if c.args else None
            elif len(c.args) > 1:
                arg = c.args[1]
            for k in c.keywords:
                if k.arg in ('offset',):
                    arg = k.value
            arg2 = norm.subst_locals(fi.node, arg, only_pure=False) \
                if arg is not None else None
            fields = [x for x in ast.walk(arg2) if isinstance(
                x, ast.Attribute) and x.attr in ('seconds', 'days',
                                                 'microseconds') and
                not (isinstance(getattr(x, '_parent', None), ast.Call))] \
                if arg2 is not None else []
            # a bare field read (not a call such as ts.total_seconds())
            bare = []
            if arg2 is not None:
                calls_funcs = {id(x.func) for x in ast.walk(arg2)
                               if isinstance(x, ast.Call)}
                bare = [x for x in fields if id(x) not in calls_funcs]
            total = arg2 is not None and any(
                isinstance(x, ast.Call) and (
                    (isinstance(x.func, ast.Attribute) and
                     x.func.attr == 'total_seconds') or
                    (isinstance(x.func, ast.Name) and x.func.id in UNITS))
                for x in ast.walk(arg2))
            ok = arg2 is not None and (total or d == 'datetime.timezone'
                                       ) and not bare
            rep.ob('R20d', '%s/zone[%s]' % (fi.key, model.norm(c)[:40]), ok,
                   'the fixed-offset zone is built from `%s`: it must be '
                   'the total length of the offset (seconds(offset) / '
                   'offset.total_seconds()); a timedelta field such as '
                   '.seconds is wrong for every negative offset (-3h has '
                   'days=-1, seconds=75600)' % (
                       model.norm(arg) if arg is not None else 'nothing'),
                   loc=mod.loc(c), construct=model.norm(c))
    rep.floor('fixed-offset zone constructions', n, 1)


FLOAT_PROJECTIONS = ('total_seconds', 'timestamp')
ORDERING = ('#operator_<', '#operator_<=', '#operator_>', '#operator_>=')


def check_ordering_is_exact(repo, rep, uni):
    """R20e: datetimes and timespans are ordered with microsecond
    resolution at any date.  A float number of seconds cannot resolve a
    microsecond far from 1970 (and near year 1), so the ordering overloads
    must not pass their operands through total_seconds() / timestamp() /
    float() / true division before comparing them."""
    mod = repo.module(DT)
    n = 0
    for name in ORDERING:
        for ov in uni.reg.by_name(name, 'default'):
            fi = ov.func
            if fi.module.name != DT:
                continue
            n += 1
            bad = []
            for r in model.walk_shallow(fi.node):
                if not (isinstance(r, ast.Return) and r.value is not None):
                    continue
                v = norm.inline_simple_calls(repo, mod, norm.subst_locals(
                    fi.node, r.value, only_pure=False))
                for x in ast.walk(v):
                    if isinstance(x, ast.Call) and isinstance(
                            x.func, ast.Attribute) and \
                            x.func.attr in FLOAT_PROJECTIONS:
                        bad.append(x)
                    elif isinstance(x, ast.Call) and isinstance(
                            x.func, ast.Name) and x.func.id == 'float':
                        bad.append(x)
                    elif isinstance(x, ast.BinOp) and isinstance(
                            x.op, ast.Div):
                        bad.append(x)
            rep.ob('R20e', '%s[%s]' % (fi.key, name), not bad,
                   'the %s overload compares a float projection of its '
                   'operands (`%s`): a float number of seconds does not '
                   'resolve microseconds far from 1970, so two instants a '
                   'few microseconds apart order as equal while `=` still '
                   'tells them apart' % (
                       name[10:], model.norm(bad[0]) if bad else ''),
                   loc=mod.loc(bad[0] if bad else fi.node),
                   construct=model.norm(bad[0]) if bad else '')
    rep.floor('date/time ordering overloads', n, 8)


def _fieldwise_rebuilds(repo, mod, fn_node):
    out = []
    for c in ast.walk(fn_node):
        if not isinstance(c, ast.Call):
            continue
        d = repo.resolve(mod, c.func)
        if d not in ('datetime.datetime', 'datetime.time'):
            tgt = repo.lookup(d) if d else None
            if not (isinstance(tgt, tuple) and tgt[0] == 'const' and
                    repo.resolve(tgt[1], tgt[2]) in (
                        'datetime.datetime', 'datetime.time')):
                continue
        srcs = {}
        for a in list(c.args) + [k.value for k in c.keywords]:
            if isinstance(a, ast.Attribute) and a.attr in (
                    'year', 'month', 'day', 'hour', 'minute', 'second',
                    'microsecond'):
                srcs.setdefault(model.norm(a.value), set()).add(a.attr)
        # fold disambiguates a wall-clock *time*: only copies that carry
        # the time of day over are affected (date(dt) truncates, it is not)
        if any(len(v) >= 3 and 'hour' in v for v in srcs.values()) and not any(
                k.arg == 'fold' for k in c.keywords):
            out.append(c)
    return out


def check_no_fieldwise_rebuild(repo, rep):
    """R20f: a datetime is never rebuilt from its fields: the constructor
    does not carry `fold` (PEP 495), so a host value in the repeated hour
    at the end of daylight saving time silently becomes the first
    occurrence, an hour earlier.  Use value.replace(...) / astimezone."""
    n = 0
    for modname in (DT, 'yaql.language.yaqltypes'):
        mod = repo.module(modname)
        for fi in mod.functions.values():
            if fi.parent_func is not None:
                continue
            n += 1
            for c in _fieldwise_rebuilds(repo, mod, fi.node):
                rep.ob('R20f', fi.key, False,
                       '`%s` rebuilds a datetime from the fields of '
                       'another one and drops `fold`: an aware host value '
                       'in the repeated hour of a DST change denotes an '
                       'instant one hour earlier afterwards (utc, '
                       'timestamp and differences change)' %
                       model.norm(c)[:80], loc=mod.loc(c),
                       construct=model.norm(c)[:120])
    from sa.rules import c09
    fm = c09.load_fixture(repo, 'c20_fixture.py')
    flagged = {f.name for f in fm.functions.values()
               if _fieldwise_rebuilds(repo, fm, f.node)}
    rep.ob('R20f', 'fixtures/c20_fixture.py/positive-control',
           flagged == {'bad_rebuild_fieldwise'},
           'positive control: expected bad_rebuild_fieldwise flagged and '
           'the ok_* functions silent; flagged %s' % sorted(flagged))
    rep.ob('R20f', 'date-time-modules', True, '%d functions scanned' % n,
           nontrivial=True)


def run(repo, rep):
    rep.rule('R20e', 'ORDERING-IS-EXACT: the datetime / timespan ordering '
             'overloads compare without a float projection of the operands')
    rep.rule('R20f', 'NO-FIELDWISE-REBUILD: no datetime is constructed from '
             'the year/month/day/... fields of another one (drops fold)')
    rep.rule('R20a', 'INSTANT-PRESERVATION: utc(dt) is the instant W0 - off '
             'at offset zero; timestamp(dt) is (W0 - off) - epoch; '
             'offset(dt) is dt\'s own offset (zero when naive); '
             'datetime(ts, offset) is the instant ts at that offset')
    rep.rule('R20b', 'NAIVE-SAFETY: a parameter declared with the bare '
             'datetime type is read only through zone-insensitive members '
             'or the `utcoffset() or ZERO` idiom; datetime operator '
             'operands are declared yaqltypes.DateTime()')
    rep.rule('R20c', 'UNIT-CONSTANTS: the six timespan unit properties are '
             'microseconds(ts) divided by 1e3, 1e6, 6e7, 3.6e9, 8.64e10')
    rep.trusted += ['datetime/dateutil semantics of astimezone, replace, '
                    'utcoffset, fromtimestamp; float rounding not decided']
    rep.explanation = (
        'date_time.py is interpreted over a small abstract domain: a '
        'datetime is an affine wall clock a*W0 + b*off with a zone tag, '
        'its instant is wall - off(tag). The transfer functions of '
        'utcoffset, -, astimezone, replace(tzinfo=), fromtimestamp give '
        'the instant each property function denotes for EVERY datetime and '
        'offset, which is compared with what the property demands.')
    uni = unimod.Universe(repo)
    tz = check_instants(repo, rep, uni)
    check_naive_safety(repo, rep, uni, tz)
    check_units(repo, rep)
    rep.rule('R20d', 'ZONE-FROM-TOTAL-OFFSET: tz.tzoffset / timezone are '
             'built from the total seconds of the offset timespan')
    check_zone_construction(repo, rep)
    check_ordering_is_exact(repo, rep, uni)
    check_no_fieldwise_rebuild(repo, rep)
