"""C16 -- literals denote exactly the values they spell (lexer-level
necessary clauses, decided on the token / escape regular languages and on
def-use in the token actions)."""
import ast
import re

from sa import cfg as cfgmod
from sa import absint
from sa import grammar
from sa import model
from sa import norm
from sa import regexlang
from sa.model import AnalysisError

TITLE = 'escape decoding, quoted-token languages, keyword/number rules'

V = re.UNICODE | re.VERBOSE
LEX = 'yaql.language.lexer'
HEX = '[0-9a-fA-F]'
REFERENCE_ESCAPES = {
    'single-character escapes': r"""\\[\\'"abfnrtv]""",
    'octal escapes': r'\\[0-7]{1,3}',
    '2-digit hex escapes': r'\\x' + HEX + '{2}',
    '4-digit hex escapes': r'\\u' + HEX + '{4}',
    '8-digit hex escapes': r'\\U' + HEX + '{8}',
    'named characters': r'\\N\{[A-Za-z0-9\ \-]+\}',
}


def token_regex(fi):
    """The regex ply uses for this token rule (docstring or @lex.TOKEN)."""
    from sa import grammar
    return grammar.effective_token_regex(fi.name)


def regex_constant(repo, mod, name):
    node = mod.constants.get(name)
    if not (isinstance(node, ast.Call) and repo.resolve(
            mod, node.func) == 're.compile' and node.args and isinstance(
            node.args[0], ast.Constant)):
        return None
    flags = 0
    if len(node.args) > 1:
        for n in ast.walk(node.args[1]):
            if isinstance(n, ast.Attribute) and hasattr(re, n.attr):
                flags |= getattr(re, n.attr)
    return node.args[0].value, flags, node


def escape_substitutions(repo):
    """The <REGEX>.sub(callback, text) calls in decode_escapes whose regex
    is a module-level compiled pattern."""
    mod = repo.module(LEX)
    de = mod.func('decode_escapes')
    out = []
    for c in model.calls_in(de.node, shallow=True):
        if isinstance(c.func, ast.Attribute) and c.func.attr == 'sub' and \
                isinstance(c.func.value, ast.Name):
            rc = regex_constant(repo, mod, c.func.value.id)
            if rc is not None and len(c.args) == 2:
                out.append((c, c.func.value.id, rc))
    return de, out


def escape_regex(repo):
    de, subs = escape_substitutions(repo)
    if not subs:
        raise AnalysisError('decode_escapes no longer substitutes with a '
                            'module-level compiled regex: re-anchor C16')
    c, name, rc = subs[0]
    return rc


def top_alternatives(pattern, flags):
    """Source-order alternatives of the outermost group of the escape
    regex, as sub-pattern objects."""
    import re._parser as sre
    from re._constants import BRANCH, SUBPATTERN
    tree = sre.parse(pattern, flags)
    items = list(tree)
    while len(items) == 1 and items[0][0] is SUBPATTERN:
        items = list(items[0][1][3])
    # the parser factors a common prefix out of the alternation
    for i, (op, av) in enumerate(items):
        if op is BRANCH:
            pre, post = items[:i], items[i + 1:]
            return [pre + list(b) + post for b in av[1]], \
                tree.state.flags | flags
    return [items], tree.state.flags | flags


def _loop_regex(repo, mod, de):
    for st in model.walk_shallow(de.node):
        if isinstance(st, ast.For) and isinstance(
                st.iter, ast.Call) and isinstance(
                st.iter.func, ast.Attribute) and \
                st.iter.func.attr == 'finditer' and isinstance(
                    st.iter.func.value, ast.Name):
            rc = regex_constant(repo, mod, st.iter.func.value.id)
            if rc is not None:
                return rc
    raise AnalysisError('decode_escapes: no module-level escape regex')


def _per_escape_loop(repo, mod, de, rep):
    """The other spelling of one pass over the literal: `for m in
    <ESCAPE_RE>.finditer(s)` collecting s[pos:m.start()], the decoding of
    m.group(0) and, after the loop, s[pos:].  Recognised (and its two
    obligations recorded) only when the unicode-escape codec is applied to
    the text of the loop's match and to nothing else."""
    param = de.params()[0]
    loops = [st for st in model.walk_shallow(de.node)
             if isinstance(st, ast.For) and isinstance(
                 st.iter, ast.Call) and isinstance(
                 st.iter.func, ast.Attribute) and
             st.iter.func.attr == 'finditer' and isinstance(
                 st.iter.func.value, ast.Name) and regex_constant(
                 repo, mod, st.iter.func.value.id) is not None and
             len(st.iter.args) == 1 and isinstance(
                 st.iter.args[0], ast.Name) and
             st.iter.args[0].id == param and isinstance(
                 st.target, ast.Name)]
    if len(loops) != 1:
        return False
    m = loops[0].target.id
    ok_dec, whole = False, False
    for c in model.calls_in(de.node):
        d = repo.resolve(mod, c.func, model.scope_locals(de))
        if d in ('codecs.decode',) or (isinstance(
                c.func, ast.Attribute) and c.func.attr == 'decode'):
            arg = c.args[0] if c.args else None
            if arg is not None and model.norm(arg) in (
                    '%s.group(0)' % m, '%s.group()' % m, '%s[0]' % m) and \
                    model.enclosing(c, ast.For) is loops[0]:
                ok_dec = True
            else:
                whole = True
    # the text between the matches is taken from the caller's text
    between = [x for x in ast.walk(de.node) if isinstance(
        x, ast.Subscript) and isinstance(x.value, ast.Name) and
        x.value.id == param and isinstance(x.slice, ast.Slice)]
    single = len(between) >= 2 and not any(
        isinstance(st, (ast.While,)) for st in model.walk_shallow(de.node))
    rep.ob('R16a', de.key + '/per-escape-substitution', single,
           'decode_escapes walks <ESCAPE_RE>.finditer(s) once; the text '
           'between and after the matches must be taken from s itself',
           loc=mod.loc(de.node))
    rep.ob('R16a', de.key + '/decodes-only-the-match', ok_dec and not whole,
           'the unicode-escape codec must be applied to exactly the text of '
           'one matched escape (match.group(0)); decoding any larger piece '
           'of the string corrupts every non-ASCII character in it',
           loc=mod.loc(de.node))
    return True


def check_escapes(repo, rep):
    mod = repo.module(LEX)
    de, subs = escape_substitutions(repo)
    if not subs and _per_escape_loop(repo, mod, de, rep):
        subs = None
    if subs is None:
        pat, flags, node = _loop_regex(repo, mod, de)
    elif not subs:
        rep.ob('R16a', de.key + '/per-escape-substitution', False,
               'decode_escapes no longer rewrites the literal with '
               '<ESCAPE_RE>.sub(<callback>, s): escapes must be decoded one '
               'matched escape sequence at a time; decoding the whole '
               'literal corrupts every non-ASCII character and re-reads '
               'decoded text', loc=mod.loc(de.node))
        return
    if subs is not None:
        pat, flags, node = escape_regex(repo)
        # R16a: decode per matched escape, in ONE pass over the caller's text
        param = de.params()[0]
        g = cfgmod.CFG(de.node)
        single = len(subs) == 1
        why = 'found %d substitution passes' % len(subs)
        cb = None
        if single:
            c, rname, rc = subs[0]
            text = c.args[1]
            use = g.node_of(c)
            ok_text = isinstance(text, ast.Name) and text.id == param and all(
                d is g.entry for d in cfgmod.reaching_defs(g, use, param))
            if not ok_text:
                single = False
                why = 'the substitution runs over %s, not over the literal ' \
                      'text itself' % model.norm(text)
            if isinstance(c.args[0], ast.Name):
                # the callback: a nested def or a module-level function
                cb = mod.functions.get(de.qualname + '.' + c.args[0].id) or \
                    mod.functions.get(c.args[0].id)
            # what is returned: the substitution result, or the text unchanged
            for r in [x for x in model.walk_shallow(de.node)
                      if isinstance(x, ast.Return)]:
                v = r.value
                if v is c or (isinstance(v, ast.Name) and v.id == param and all(
                        d is g.entry for d in cfgmod.reaching_defs(
                            g, g.node_of(r), param))):
                    continue
                if isinstance(v, ast.Name):
                    defs = cfgmod.reaching_defs(g, g.node_of(r), v.id)
                    if defs and all(isinstance(d.ast, ast.Assign) and
                                    d.ast.value is c for d in defs):
                        continue
                single = False
                why = 'returns %s, which is not the result of the single ' \
                      'substitution pass' % model.norm(v)
        rep.ob('R16a', de.key + '/per-escape-substitution', single,
               'decode_escapes must rewrite the literal with exactly one '
               '<ESCAPE_RE>.sub(<callback>, s) pass over the literal text: only '
               'matched escape sequences may be decoded, every other character '
               'stands for itself, and the output of one decoding step must '
               'never be scanned for escapes again (%s)' % why,
               loc=mod.loc(de.node))
        ok_dec = False
        whole = False
        scope = [cb] if cb is not None else []
        for f in scope + [de]:
            for c in model.calls_in(f.node, shallow=True):
                d = repo.resolve(mod, c.func, model.scope_locals(f))
                if d in ('codecs.decode',) or (isinstance(
                        c.func, ast.Attribute) and c.func.attr == 'decode'):
                    arg = c.args[0] if c.args else None
                    if f is cb and arg is not None and model.norm(arg) in (
                            '%s.group(0)' % cb.params()[0],
                            '%s.group()' % cb.params()[0],
                            '%s[0]' % cb.params()[0]):
                        ok_dec = True
                    else:
                        whole = True
        rep.ob('R16a', de.key + '/decodes-only-the-match', ok_dec and not whole,
               'the unicode-escape codec must be applied to exactly the text of '
               'one matched escape (match.group(0)); decoding any larger piece '
               'of the string corrupts every non-ASCII character in it',
               loc=mod.loc(de.node))
    # R16b: the alternatives cover the documented escapes, in an order in
    # which no earlier alternative cuts a later one short
    alts, f = top_alternatives(pat, flags)
    pats = {}
    for name, p in REFERENCE_ESCAPES.items():
        pats['ref:' + name] = (p, re.UNICODE)
    pats['escape'] = (pat, flags)
    # rebuild each alternative as a language of its own
    import re._parser as sre
    langs = regexlang.Languages(pats)
    n = 0
    for name in REFERENCE_ESCAPES:
        n += 1
        w = langs.difference_witness('ref:' + name, 'escape')
        rep.ob('R16b', 'ESCAPE_SEQUENCE_RE/covers[%s]' % name, w is None,
               'the escape regex does not match the documented escape %r '
               '(%s): it would be left undecoded' % (w, name),
               loc=mod.loc(node))
    # per-alternative languages
    alt_rx = []
    acc = set()
    for a in alts:
        notes = []
        rx = regexlang._seq(a, f, notes)
        alt_rx.append(rx)
        regexlang.atoms(rx, acc)
    alpha = regexlang.Alphabet(acc)
    dfas = [regexlang.to_dfa(rx, alpha) for rx in alt_rx]

    def word(syms):
        return ''.join(chr(alpha.classes[s][1]) for s in syms)
    for i in range(len(dfas)):
        for j in range(i + 1, len(dfas)):
            n += 1
            ext = dfas[i].concat_any_plus()
            w = ext.product(dfas[j], 'and').witness()
            rep.ob('R16b', 'ESCAPE_SEQUENCE_RE/order[%d<%d]' % (i, j),
                   w is None,
                   'alternative %d matches a proper prefix of %r, which '
                   'alternative %d is meant to match whole: ordered choice '
                   'takes the earlier, shorter match and the escape is '
                   'decoded wrongly' % (i, word(w) if w else '', j),
                   loc=mod.loc(node))
    rep.floor('escape alternatives', len(alts), 6)


def action_scope(mod, fi, depth=2):
    """The token action together with the module-level helpers it hands
    the token to: [(function node, name of the token in it)]."""
    tok = fi.params()[-1]
    out = [(fi.node, tok)]
    seen = {fi.key}
    work = [(fi.node, tok, 0)]
    while work:
        node, t, d = work.pop()
        if d >= depth:
            continue
        for c in model.calls_in(node):
            if not isinstance(c.func, ast.Name):
                continue
            h = mod.functions.get(c.func.id)
            if h is None or h.key in seen or h.parent_func is not None:
                continue
            for i, a in enumerate(c.args):
                if isinstance(a, ast.Name) and a.id == t and \
                        i < len(h.params()):
                    seen.add(h.key)
                    out.append((h.node, h.params()[i]))
                    work.append((h.node, h.params()[i], d + 1))
    return out


def check_quoted_tokens(repo, rep):
    mod = repo.module(LEX)
    specs = (('Lexer.t_QUOTED_STRING', "'"),
             ('Lexer.t_DOUBLE_QUOTED_STRING', '"'),
             ('Lexer.t_QUOTED_VERBATIM_STRING', '`'))
    for q, quote in specs:
        fi = mod.func(q)
        pat = token_regex(fi)
        qq = re.escape(quote)
        ref = qq + r'(?:[^' + qq + r'\\]|\\.)*' + qq
        langs = regexlang.Languages({'tok': (pat, V), 'ref': (ref, V)})
        w1 = langs.difference_witness('tok', 'ref')
        w2 = langs.difference_witness('ref', 'tok')
        rep.ob('R16c', fi.key + '/language', w1 is None and w2 is None,
               'the token regex must denote %s ( non-quote-non-backslash | '
               'backslash any )* %s; counter-example: %s' % (
                   quote, quote,
                   ('it also accepts %r' % w1) if w1 is not None else
                   ('it rejects %r' % w2)), loc=mod.loc(fi.node),
               construct=pat.strip())
        # the action strips exactly one character at each end
        tok = fi.params()[-1]
        scope = action_scope(mod, fi)
        sl = [n for node, tk in scope for n in ast.walk(node) if isinstance(
            n, ast.Subscript) and isinstance(n.slice, ast.Slice) and
            model.norm(n.value) == tk + '.value']
        ok = len(sl) == 1 and model.norm(sl[0].slice.lower or ast.Constant(
            0)) == '1' and model.norm(sl[0].slice.upper or ast.Constant(
                0)) == '-1' and sl[0].slice.step is None
        rep.ob('R16c', fi.key + '/strips-delimiters', ok,
               'the action must take %s.value[1:-1] (exactly the two '
               'delimiters)' % tok, loc=mod.loc(fi.node))
        calls = [c for node, tk in scope for c in model.calls_in(node)]
        if quote == '`':
            reps = [c for c in calls if isinstance(c.func, ast.Attribute) and
                    c.func.attr == 'replace']
            ok = len(reps) == 1 and len(reps[0].args) == 2 and all(
                isinstance(a, ast.Constant) for a in reps[0].args) and \
                reps[0].args[0].value == '\\`' and \
                reps[0].args[1].value == '`' and not any(
                    isinstance(c.func, ast.Name) and
                    c.func.id == 'decode_escapes' for c in calls)
            rep.ob('R16c', fi.key + '/verbatim', ok,
                   'a verbatim string changes nothing except an escaped '
                   'back quote: the action must be .replace(\'\\\\`\', '
                   '\'`\') and must not decode escapes',
                   loc=mod.loc(fi.node))
        else:
            dec = [c for c in calls if isinstance(c.func, ast.Name) and
                   c.func.id == 'decode_escapes']
            ok = len(dec) == 1 and dec[0].args and isinstance(
                norm.subst_locals(
                    model.enclosing(dec[0], (ast.FunctionDef,
                                             ast.AsyncFunctionDef)),
                    dec[0].args[0], only_pure=False), ast.Subscript)
            rep.ob('R16c', fi.key + '/decodes-escapes', ok,
                   'the action must pass the stripped text through '
                   'decode_escapes', loc=mod.loc(fi.node))
        typ = [n for n in model.walk_shallow(fi.node)
               if isinstance(n, ast.Assign) and model.norm(
                   n.targets[0]) == tok + '.type']
        if q != 'Lexer.t_QUOTED_STRING':
            ok = len(typ) == 1 and isinstance(
                typ[0].value, ast.Constant) and \
                typ[0].value.value == 'QUOTED_STRING'
            rep.ob('R16c', fi.key + '/token-type', ok,
                   'the token must be re-typed QUOTED_STRING',
                   loc=mod.loc(fi.node))


def class_dict(ci, name, repo=None):
    """The constant dict bound to `name` in the class body: a literal, or
    anything the abstract evaluator can reduce to one (a comprehension over
    a module-level table, dict(zip(...)), ...)."""
    env = {}
    for st in ci.node.body:
        if not (isinstance(st, ast.Assign) and isinstance(
                st.targets[0], ast.Name)):
            continue
        val = None
        if isinstance(st.value, ast.Dict):
            try:
                val = {k.value: v.value for k, v in zip(
                    st.value.keys, st.value.values)}
            except AttributeError:
                val = None
        elif repo is not None:
            try:
                val = absint.Interp(repo, ci.module).ev(st.value, dict(env))
            except (absint.Unsupported, absint._Raise):
                val = None
        if val is not None:
            env[st.targets[0].id] = val
        if st.targets[0].id == name:
            return val if isinstance(val, dict) else None
    return None


def check_quoted_values_are_decoded(repo, rep):
    """R16g: the value of a single- or double-quoted literal is
    decode_escapes(<the text between the quotes>) on every path that sets
    it -- the one decoder whose escape set R16a/R16b decide.  A second
    decoder for some literals (a JSON fast path, str.translate, ast
    .literal_eval ...) makes one body denote different strings in different
    quote styles."""
    mod = repo.module(LEX)
    n = 0
    for name in ('t_QUOTED_STRING', 't_DOUBLE_QUOTED_STRING'):
        fi = mod.functions.get('Lexer.' + name)
        if fi is None:
            raise AnalysisError('anchor vanished: Lexer.' + name)
        tok = fi.params()[-1]
        places = [(fi, tok)]
        for c in model.calls_in(fi.node):
            h = mod.functions.get(c.func.id) if isinstance(
                c.func, ast.Name) else None
            if h is not None and h.parent_func is None:
                for i, a in enumerate(c.args):
                    if isinstance(a, ast.Name) and a.id == tok and \
                            i < len(h.params()):
                        places.append((h, h.params()[i]))
        stores = []
        for g, tk in places:
            for st in ast.walk(g.node):
                if isinstance(st, ast.Assign):
                    for t in st.targets:
                        if isinstance(t, ast.Attribute) and \
                                t.attr == 'value' and isinstance(
                                    t.value, ast.Name) and t.value.id == tk:
                            stores.append((g, tk, st))
        n += 1
        bad = []

        def decoded(g, tk, expr, depth=0):
            v = norm.subst_locals(g.node, expr, only_pure=False)
            if isinstance(v, ast.Call) and repo.resolve(
                    mod, v.func, model.scope_locals(g)) in (
                    LEX + '.decode_escapes',) and len(v.args) == 1 and \
                    model.norm(v.args[0]) == '%s.value[1:-1]' % tk:
                return True
            # a helper that is handed the token and returns the decoded
            # text on every path
            if isinstance(v, ast.Call) and isinstance(
                    v.func, ast.Name) and depth < 2:
                h = mod.functions.get(v.func.id)
                if h is not None and h.parent_func is None:
                    idx = [i for i, a in enumerate(v.args) if isinstance(
                        a, ast.Name) and a.id == tk]
                    rets = [r for r in model.walk_shallow(h.node)
                            if isinstance(r, ast.Return)]
                    if idx and idx[0] < len(h.params()) and rets:
                        return all(
                            r.value is not None and decoded(
                                h, h.params()[idx[0]], r.value, depth + 1)
                            for r in rets)
            return False
        for g, tk, st in stores:
            if not decoded(g, tk, st.value):
                bad.append(st)
        rep.ob('R16g', fi.key + '/value-is-decoded-text', bool(stores) and
               not bad,
               'the value of the literal must be decode_escapes(%s.value'
               '[1:-1]) wherever it is set; `%s` gives some literals '
               'another decoder, so the same body can denote different '
               'strings in \'...\' and "..."' % (
                   tok, model.norm(bad[0]).split('\n')[0][:80]
                   if bad else 'no store'),
               loc=mod.loc(bad[0] if bad else fi.node),
               construct=model.norm(bad[0])[:120] if bad else '')
    return n


def check_keywords(repo, rep):
    mod = repo.module(LEX)
    lx = mod.cls('Lexer')
    fi = mod.func('Lexer.t_KEYWORD_STRING')
    pat = token_regex(fi)
    langs = regexlang.Languages({
        'kw': (pat, V), 'dunder': (r'__\w*', V),
        'ident': (r'[^\W\d]\w*', V)})
    w = langs.intersection_witness('kw', 'dunder')
    rep.ob('R16d', fi.key + '/rejects-dunder', w is None,
           'the keyword token accepts %r: a word that begins with two '
           'underscores must be rejected' % w, loc=mod.loc(fi.node),
           construct=pat.strip())
    w = langs.difference_witness('kw', 'ident')
    rep.ob('R16d', fi.key + '/identifier-shaped', w is None,
           'the keyword token accepts %r, which is not identifier-shaped' %
           w, loc=mod.loc(fi.node))
    # every identifier that does not start with __ is a keyword token
    langs2 = regexlang.Languages({
        'kw': (pat, V), 'good': (r'(?!__)[^\W\d]\w*', V)})
    w = langs2.difference_witness('good', 'kw')
    rep.ob('R16d', fi.key + '/covers-identifiers', w is None,
           'the keyword token rejects the identifier %r' % w,
           loc=mod.loc(fi.node))
    kws = class_dict(lx, 'keywords', repo)
    k2v = class_dict(lx, 'keyword_to_val', repo)
    want = {'true': True, 'false': False, 'null': None}
    ok = kws is not None and k2v is not None and set(kws) == set(want) and \
        all(kws[w] in k2v and k2v[kws[w]] is want[w] for w in want)
    rep.ob('R16d', lx.key + '/json-constants', ok,
           'true/false/null must denote True/False/None (keywords=%s, '
           'keyword_to_val=%s) and no other word may be special' % (
               kws, k2v), loc=mod.loc(lx.node))
    # operator words are re-typed through the operator table, everything
    # else keeps its own text
    tok = fi.params()[-1]
    ok = kws is not None and k2v is not None
    why = ''
    extra = []
    if ok:
        table = {'and': ('and', 'BINARY_LEFT_ASSOCIATIVE', 'OP_7'),
                 'not': ('not', 'PREFIX_UNARY', 'OP_3')}
        t_and, t_not = 'OP_7', 'OP_3'
        yops = grammar.abstract_operator_table(repo)
        if yops is not None and isinstance(yops.attrs.get('operators'),
                                           dict):
            # the table the factory really builds (its records may be
            # tuples or objects with named fields)
            real = yops.attrs['operators']

            def lexem(rec):
                names = [x for x in grammar.record_items(rec) or []
                         if isinstance(x, str) and x.startswith('OP_')]
                return names[0] if len(names) == 1 else None
            if 'and' in real and 'not' in real and lexem(
                    real['and']) and lexem(real['not']):
                table = {'and': real['and'], 'not': real['not']}
                t_and, t_not = lexem(real['and']), lexem(real['not'])
        cases = [('and', t_and, 'and'), ('not', t_not, 'not'),
                 ('foo', 'KEYWORD_STRING', 'foo'),
                 ('truex', 'KEYWORD_STRING', 'truex'),
                 ('_x', 'KEYWORD_STRING', '_x'),
                 ('andy', 'KEYWORD_STRING', 'andy'),
                 ('\ufb01le', 'KEYWORD_STRING', '\ufb01le'),
                 ('\uff46\uff4f\uff4f', 'KEYWORD_STRING',
                  '\uff46\uff4f\uff4f'), ('\u00e9t\u00e9',
                                              'KEYWORD_STRING',
                                              '\u00e9t\u00e9')]
        for w, tname in kws.items():
            cases.append((w, tname, k2v.get(tname, w)))
        contexts = (('', ''), ('$.', ''), ('$?.', ' + 1'), ('1 ', ' 2'),
                    ('$ . ', ''), ('f(', ')'))
        for (text, want_type, want_value), (pre, post) in [
                (c, x) for c in cases for x in contexts]:
            lexer = absint.Obj('lexer', lexdata=pre + text + post,
                               lexpos=len(pre) + len(text), lineno=1)
            t = absint.Obj('token', value=text, type='KEYWORD_STRING',
                           lexpos=len(pre), lineno=1, lexer=lexer)
            slf = absint.Obj('self', _operators_table=dict(table),
                             keywords=dict(kws), keyword_to_val=dict(k2v),
                             __class__=lx)
            it = absint.Interp(repo, mod)
            # whatever else the constructor derives from the operator
            # table (a word table, ...) is derived here the same way
            init = mod.functions.get('Lexer.__init__')
            if init is not None and len(init.params()) == 2:
                yo = yops if yops is not None else absint.Obj(
                    'yaql_operators', operators=dict(table),
                    name_value_op='=>')
                try:
                    absint.Interp(repo, mod, lambda n, a, k: (
                        absint.Sym(n),) if n.startswith('re.') else None
                    ).run(init.node, {init.params()[0]: slf,
                                      init.params()[1]: yo})
                except (absint.Unsupported, absint._Raise):
                    pass
                slf.attrs.setdefault('_operators_table', dict(table))
            args = {tok: t}
            if len(fi.params()) > 1:
                args[fi.params()[0]] = slf
            try:
                out = it.run(fi.node, args)
            except absint.Unsupported as e:
                raise AnalysisError('R16d: t_KEYWORD_STRING uses a '
                                    'construct outside the modelled '
                                    'fragment (%s)' % e)
            gt, gv = t.attrs.get('type'), t.attrs.get('value')
            same_v = gv is want_value if isinstance(
                want_value, (bool, type(None))) else gv == want_value
            if not (out[0] == 'return' and out[1] is t and
                    gt == want_type and same_v):
                ok = False
                why = 'the word %r (written as %r) becomes a %s token ' \
                      'with value %r (expected %s / %r whatever surrounds ' \
                      'it)' % (text, pre + text + post, gt, gv, want_type,
                               want_value)
                if gt == 'KEYWORD_STRING' and not same_v:
                    extra.append('%r -> %r' % (text, gv))
    rep.ob('R16d', fi.key + '/keeps-its-text', not extra,
           'a keyword that is not true/false/null must denote its own '
           'text; the action rewrites it: %s' % extra,
           loc=mod.loc(fi.node))
    ff = mod.func('Lexer.t_FUNC')
    ok_f = True
    bad_f = []
    for text in ('foo(', 'a_b1(', '\ufb01le(', '\u00e9t\u00e9('):
        t = absint.Obj('token', value=text, type='FUNC', lexpos=0,
                       lineno=1)
        it = absint.Interp(repo, mod)
        args = {ff.params()[-1]: t}
        if ff.is_method and len(ff.params()) > 1:
            args[ff.params()[0]] = absint.Obj('self')
        try:
            out = it.run(ff.node, args)
        except absint.Unsupported as e:
            raise AnalysisError('R16d: t_FUNC uses a construct outside the '
                                'modelled fragment (%s)' % e)
        if not (out[0] == 'return' and out[1] is t and
                t.attrs.get('value') == text[:-1] and
                t.attrs.get('type') == 'FUNC'):
            ok_f = False
            bad_f.append('%r -> %r' % (text, t.attrs.get('value')))
    rep.ob('R16d', ff.key + '/keeps-its-text', ok_f,
           'a function name must denote its own text (the token minus the '
           'opening parenthesis); the action rewrites it: %s' % bad_f,
           loc=mod.loc(ff.node))
    rep.ob('R16d', fi.key + '/word-dispatch', ok,
           'a word is an operator token if it is in the operator table, '
           'else true/false/null, else a KEYWORD_STRING carrying its own '
           'text; %s' % why, loc=mod.loc(fi.node))


def check_numbers(repo, rep):
    mod = repo.module(LEX)
    fi = mod.func('Lexer.t_NUMBER')
    pat = token_regex(fi)
    langs = regexlang.Languages({'num': (pat, V),
                                 'ref': (r'\d+(?:\.\d+)?', V)})
    w = langs.difference_witness('num', 'ref')
    rep.ob('R16e', fi.key + '/language', w is None,
           'the number token accepts %r, which is not digits with at most '
           'one interior dot' % w, loc=mod.loc(fi.node),
           construct=pat.strip())
    w = langs.difference_witness('ref', 'num')
    rep.ob('R16e', fi.key + '/covers-decimals', w is None,
           'the number token rejects the decimal literal %r' % w,
           loc=mod.loc(fi.node))
    # which converter is applied to which class of numeral: abstract
    # evaluation of the action with int()/float() as uninterpreted
    # functions, on one representative per class of the token language
    ok = True
    why = ''
    for text, want in (('12', 'int'), ('0', 'int'),
                       ('1' + '0' * 40, 'int'), ('1' + '0' * 4000, 'int'),
                       ('9' * 1283, 'int'), ('1.5', 'float'),
                       ('10.25', 'float')):
        def oracle(name, args, kwargs):
            if name in ('builtins.int', 'builtins.float'):
                return (absint.Sym('%s(%s)' % (name[9:], args[0])),)
            return None
        t = absint.Obj('token', value=text, type='NUMBER', lexpos=0,
                       lineno=1)
        it = absint.Interp(repo, mod, oracle)
        it.symbolic_ops = True
        args = {fi.params()[-1]: t}
        if fi.is_method and len(fi.params()) > 1:
            args[fi.params()[0]] = absint.Obj('self')
        try:
            out = it.run(fi.node, args)
        except absint.Unsupported as e:
            raise AnalysisError('R16e: t_NUMBER uses a construct outside '
                                'the modelled fragment (%s)' % e)
        v = t.attrs.get('value')
        good = out[0] == 'return' and out[1] is t and isinstance(
            v, absint.Sym) and v.name == '%s(%s)' % (want, text)
        if not good:
            ok = False
            why = 'for the numeral %s the token value becomes %s' % (
                text if len(text) < 50 else '<%d digits>' % len(text),
                repr(v)[:120])
    rep.ob('R16e', fi.key + '/conversion', ok,
           'a numeral with a dot must be converted with float(), one '
           'without with int() (exact at any magnitude); %s' % why,
           loc=mod.loc(fi.node))


def check_constant_nodes(repo, rep):
    par = repo.module('yaql.language.parser')
    fi = par.func('Parser.p_value_to_const')
    doc = ast.get_docstring(fi.node, clean=False) or ''
    toks = set(doc.replace('|', ' ').replace(':', ' ').split()) - {'value'}
    ok_t = toks == {'QUOTED_STRING', 'NUMBER', 'TRUE', 'FALSE', 'NULL'}
    a = [s for s in model.walk_shallow(fi.node) if isinstance(s, ast.Assign)]
    ok = len(a) == 1 and model.norm(a[0].targets[0]) == 'p[0]' and \
        model.norm(a[0].value) == 'expressions.Constant(p[1])'
    rep.ob('R16f', fi.key, ok and ok_t,
           'literal tokens must reduce to Constant(<token value>) '
           'unchanged (tokens: %s)' % sorted(toks), loc=par.loc(fi.node))
    fk = par.func('Parser.p_keyword_constant')
    a = [s for s in model.walk_shallow(fk.node) if isinstance(s, ast.Assign)]
    ok = len(a) == 1 and model.norm(a[0].value) == \
        'expressions.KeywordConstant(p[1])'
    rep.ob('R16f', fk.key, ok, 'a keyword must reduce to '
           'KeywordConstant(<its text>)', loc=par.loc(fk.node))
    ex = repo.module('yaql.language.expressions')
    c = ex.cls('Constant')
    init = c.methods['__init__']
    ok = any(isinstance(s, ast.Assign) and model.norm(s.targets[0]) ==
             'self.value' and model.norm(s.value) == init.params()[1]
             for s in model.walk_shallow(init.node))
    call = c.methods['__call__']
    rets = [r for r in model.walk_shallow(call.node)
            if isinstance(r, ast.Return)]
    ok2 = len(rets) == 1 and model.norm(rets[0].value) == 'self.value'
    rep.ob('R16f', c.key, ok and ok2,
           'a Constant node must store and evaluate to the literal value '
           'unchanged', loc=ex.loc(c.node))


def check_no_empty_tokens(repo, rep):
    mod = repo.module(LEX)
    n = 0
    for q, fi in mod.functions.items():
        if fi.is_method and fi.name.startswith('t_') and \
                fi.name != 't_error':
            pat = token_regex(fi)
            try:
                langs = regexlang.Languages({'t': (pat, V)})
            except regexlang.Unsupported as e:
                rep.note('%s: %s' % (fi.key, e))
                continue
            n += 1
            rep.ob('R16e', fi.key + '/non-empty', not langs.matches_empty(
                't'), 'token rule can match the empty string',
                loc=mod.loc(fi.node))
    return n


def run(repo, rep):
    from sa.rules import c02 as _c02
    rep.rule('R02h', 'see C02: the operator words of the default table are '
             'those the language reference lists (every other word is an '
             'ordinary keyword string)')
    _c02.check_documented_operators(repo, rep)
    rep.rule('R16a', 'DECODE-PER-ESCAPE: the unicode-escape codec is '
             'applied to exactly one matched escape sequence at a time')
    rep.rule('R16b', 'ESCAPE-SET: the escape alternatives cover the '
             'documented escapes and no earlier alternative matches a '
             'proper prefix of what a later one matches')
    rep.rule('R16c', 'QUOTED-TOKEN-LANGUAGES: each string token regex is '
             'language-equivalent to Q([^Q\\\\]|\\\\.)*Q; the action strips '
             'exactly the delimiters; verbatim rewrites only \\`')
    rep.rule('R16d', 'KEYWORDS: no keyword starts with __; every other '
             'identifier is a keyword token; true/false/null table; word '
             'dispatch')
    rep.rule('R16e', 'NUMBERS: digits with at most one interior dot; float '
             'iff dotted else int; no token rule matches the empty string')
    rep.rule('R16f', 'CONSTANT-NODES carry the token value unchanged')
    rep.trusted += ['re._parser syntax trees; \\b anchors are ignored when '
                    'comparing languages (they only restrict context)']
    rep.explanation = (
        'The token and escape regexes are turned into automata over a '
        'partition of all Unicode code points and compared with reference '
        'languages (equivalence / inclusion / ordered-choice prefix '
        'conflicts), so the verdict survives any rewrite of a regex that '
        'keeps its language; the token actions are checked by def-use.')
    check_escapes(repo, rep)
    check_quoted_tokens(repo, rep)
    rep.rule('R16g', 'QUOTED-VALUES-ARE-DECODED: the value of a quoted '
             'literal is decode_escapes(text between the quotes) on every '
             'path that sets it')
    check_quoted_values_are_decoded(repo, rep)
    check_keywords(repo, rep)
    check_numbers(repo, rep)
    check_constant_nodes(repo, rep)
    # a literal can only denote the characters it spells if the lexer sees
    # the caller's text itself
    from sa.rules import c03
    rep.rule('R03g', 'see C03: the text handed to ply is the text the '
             'caller passed (no normalisation / folding before lexing)')
    c03.check_input_is_the_text(repo, rep)
    n = check_no_empty_tokens(repo, rep)
    rep.count(token_rules=n)
    rep.floor('token rules with a regex', n, 7)
