"""C15 -- scalar operators form a consistent arithmetic and ordering
(type-level analysis of the operator overload table + wrapper shapes)."""
import ast
import datetime

from sa import model
from sa import norm
from sa import shapes
from sa import universe as unimod
from sa.model import AnalysisError

TITLE = 'operator overload kind-matrix, null table, faithful wrappers'

REP = {   # kind -> representative python type
    'null': type(None), 'bool': bool, 'int': int, 'float': float,
    'str': str, 'set': frozenset, 'datetime': datetime.datetime,
    'timespan': datetime.timedelta, 'sequence': tuple,
}
SCALARS = ('bool', 'int', 'float', 'str')
NONNULL = ('bool', 'int', 'float', 'str', 'set', 'datetime', 'timespan',
           'sequence')
ORDERING = ('#operator_<', '#operator_<=', '#operator_>', '#operator_>=')
ARITH = ('#operator_+', '#operator_-', '#operator_*', '#operator_/',
         '#operator_mod')
UNARY = ('#unary_operator_+', '#unary_operator_-')
BINOPS = {'+': ast.Add, '-': ast.Sub, '*': ast.Mult, '/': ast.Div,
          'mod': ast.Mod}
CMPOPS = {'<': ast.Lt, '<=': ast.LtE, '>': ast.Gt, '>=': ast.GtE}
SWAP = {ast.Lt: ast.Gt, ast.Gt: ast.Lt, ast.LtE: ast.GtE, ast.GtE: ast.LtE}
NULL_TABLE = {   # (left is null, right is null) -> {op: value}
    (False, True): {'<': False, '<=': False, '>': True, '>=': True},
    (True, False): {'<': True, '<=': True, '>': False, '>=': False},
    (True, True): {'<': False, '<=': True, '>': False, '>=': True},
}


class Admit:
    def __init__(self, repo):
        self.repo = repo
        self.facts = shapes.Facts(repo)

    def admits(self, td, kind):
        """May a value of `kind` be bound to a parameter declared `td`?"""
        if td.hidden:
            return False
        if td.lazy:
            return True
        if kind == 'null':
            if td.python_types and 'builtins.NoneType' in td.python_types:
                return True
            return bool(td.nullable)
        short = (td.cls or '').rsplit('.', 1)[-1]
        if td.smart and short == 'AnyOf':
            return any(self.admits(s, kind) for s in td.sub)
        if td.smart and short == 'Chain':
            return all(self.admits(s, kind) for s in td.sub)
        if td.smart and short == 'NotOfType':
            return not (td.sub and self.admits(td.sub[0], kind))
        if td.smart and short in ('Constant', 'StringConstant', 'Keyword',
                                  'BooleanConstant', 'NumericConstant'):
            return True     # expression constants: decided at parse level
        if not td.python_types:
            return not td.smart or short in ('PythonType', 'GenericType')
        rep = REP[kind]
        ok = False
        for t in td.python_types:
            real = self.facts.real_class(t)
            if real is None:
                tgt = self.repo.lookup(t)
                if isinstance(tgt, model.ClassInfo):
                    continue     # a repo class: none of the scalar kinds
                if t.startswith('<type-of:'):
                    continue     # e.g. compiled regex type
                ok = ok or t == 'builtins.object'
                continue
            if issubclass(rep, real):
                ok = True
        if not ok:
            return False
        for t in td.excluded:
            real = self.facts.real_class(t)
            if real is not None and issubclass(rep, real):
                return False
        if td.requires_iterator:
            return False
        return True

    def admits_everything(self, td):
        return all(self.admits(td, k) for k in NONNULL)


def visible(ov):
    return [p for p in ov.params if not p.type.hidden]


def check_matrix(repo, rep, uni, ad):
    reg = uni.reg
    n = 0
    ops = {}
    for name in ORDERING + ARITH + UNARY:
        ovs = [o for o in reg.by_name(name) if o.ctx in ('default',)]
        if not ovs:
            raise AnalysisError('anchor vanished: no overload of ' + name)
        ops[name] = ovs
    # (1) bool is never a number
    for name, ovs in ops.items():
        for o in ovs:
            for p in visible(o):
                if p.type.lazy:
                    continue
                n += 1
                both = ad.admits(p.type, 'int') and ad.admits(p.type, 'bool')
                anyk = ad.admits_everything(p.type)
                site = '%s/%s[%s]' % (o.func.key, p.name, name)
                rep.ob('R15a', site, (not both) or anyk,
                       'parameter `%s` of %s is declared %s, which accepts '
                       'an int and therefore also true/false (bool is a '
                       'subclass of int in Python): a boolean is taken for '
                       'a number; declare it yaqltypes.Integer()/Number()' %
                       (p.name, name, p.type.text),
                       loc=o.func.module.loc(o.func.node),
                       construct=p.type.text)

    def admitted(name, kinds):
        for o in ops[name]:
            ps = visible(o)
            if ps and ps[-1].kind == 'vararg':
                fixed = ps[:-1]
                if len(kinds) < len(fixed):
                    continue
                ps = fixed + [ps[-1]] * (len(kinds) - len(fixed))
            if len(ps) != len(kinds):
                continue
            if all(ad.admits(p.type, k) for p, k in zip(ps, kinds)):
                return o
        return None
    # (2) number x number and str x str for ordering and +
    for name in ORDERING + ('#operator_+',):
        for pair in (('int', 'int'), ('int', 'float'), ('float', 'int'),
                     ('float', 'float'), ('str', 'str')):
            n += 1
            rep.ob('R15a', '%s/admits%s' % (name, list(pair)),
                   admitted(name, pair) is not None,
                   'no overload of %s accepts operands of kinds %s' % (
                       name, pair))
    for name in ('#operator_-', '#operator_*', '#operator_/',
                 '#operator_mod'):
        for pair in (('int', 'int'), ('int', 'float'), ('float', 'int'),
                     ('float', 'float')):
            n += 1
            rep.ob('R15a', '%s/admits%s' % (name, list(pair)),
                   admitted(name, pair) is not None,
                   'no overload of %s accepts operands of kinds %s' % (
                       name, pair))
    # (3) null rows of the ordering operators
    for name in ORDERING:
        for k in NONNULL:
            for pair in ((k, 'null'), ('null', k)):
                n += 1
                rep.ob('R15a', '%s/admits%s' % (name, list(pair)),
                       admitted(name, pair) is not None,
                       'ordering operator %s has no overload for %s: null '
                       'must order below every non-null value' % (
                           name.split('_')[-1], pair))
        n += 1
        rep.ob('R15a', '%s/admits[null, null]' % name,
               admitted(name, ('null', 'null')) is not None,
               '%s has no overload for (null, null)' % name)
    # (4) unrelated scalar kinds match nothing
    def related(a, b):
        num = ('int', 'float')
        return (a in num and b in num) or (a == b == 'str')
    for name in ORDERING + ARITH:
        for a in SCALARS:
            for b in SCALARS:
                if related(a, b):
                    continue
                if name == '#operator_*' and {a, b} == {'str', 'int'}:
                    continue        # repetition
                n += 1
                o = admitted(name, (a, b))
                rep.ob('R15a', '%s/rejects%s' % (name, [a, b]), o is None,
                       'operands of unrelated kinds %s are accepted by %s '
                       '(%s) instead of giving "no matching function"' % (
                           (a, b), name, o.func.key if o else ''),
                       loc=o.func.module.loc(o.func.node) if o else '')
    # (5) null is not an arithmetic operand ("operands of unrelated types
    # give a 'no matching function' error rather than a value")
    for name in ARITH:
        for a in ('null',) + SCALARS:
            for pair in ((a, 'null'), ('null', a)):
                n += 1
                o = admitted(name, pair)
                rep.ob('R15a', '%s/rejects%s' % (name, list(pair)),
                       o is None,
                       'the arithmetic operator %s accepts the operands %s '
                       '(%s): null must not be taken for a number or a '
                       'string' % (name.split('_')[-1], pair,
                                   o.func.key if o else ''),
                       loc=o.func.module.loc(o.func.node) if o else '')
    for name in UNARY:
        n += 1
        o = admitted(name, ('null',))
        rep.ob('R15a', '%s/rejects[null]' % name, o is None,
               '%s accepts null (%s)' % (name, o.func.key if o else ''))
    for name in UNARY:
        for a in ('bool', 'str'):
            n += 1
            o = admitted(name, (a,))
            rep.ob('R15a', '%s/rejects[%s]' % (name, a), o is None,
                   '%s accepts a %s operand (%s)' % (
                       name, a, o.func.key if o else ''))
    rep.floor('kind-matrix obligations', n, 250)
    return ops


def check_siblings(rep, ops):
    sigs = {}
    for name in ORDERING:
        sigs[name] = sorted(tuple(p.type.text for p in visible(o))
                            for o in ops[name])
    base = sigs[ORDERING[0]]
    for name in ORDERING[1:]:
        rep.ob('R15b', name, sigs[name] == base,
               'the overload signatures of %s differ from those of %s: '
               'only in %s: %s; only in %s: %s' % (
                   name, ORDERING[0], name,
                   [s for s in sigs[name] if s not in base], ORDERING[0],
                   [s for s in base if s not in sigs[name]]))
    rep.floor('ordering overloads per operator', len(base), 7)


def _constant_result(fi):
    """The constant a parameterless-in-effect overload returns (its body
    uses no argument): literal, or a look-up in module-level constant
    tables, decided by abstract evaluation with opaque arguments."""
    from sa import absint
    it = absint.Interp(fi.module.repo, fi.module)
    args = {p: absint.Sym(p) for p in fi.params()}
    try:
        out = it.run(fi.node, args)
    except (absint.Unsupported, absint._Raise):
        return 'undecided'
    if out[0] != 'return':
        return 'raises'
    return out[1]


def check_null_table(rep, ops, ad):
    n = 0
    for name in ORDERING:
        sym = name.split('_')[-1]
        for o in ops[name]:
            ps = visible(o)
            if len(ps) != 2:
                continue
            only_null = [ad.admits(p.type, 'null') and not any(
                ad.admits(p.type, k) for k in NONNULL) for p in ps]
            if not any(only_null):
                continue
            n += 1
            rets = [r for r in model.walk_shallow(o.func.node)
                    if isinstance(r, ast.Return)]
            key = (only_null[0], only_null[1])
            want = NULL_TABLE[key][sym]
            got = _constant_result(o.func)
            ok = got is want and isinstance(got, bool)
            rep.ob('R15c', '%s[%s]' % (o.func.key, name), ok,
                   '%s with %s must be %s (null orders below every value '
                   'and equals itself); the overload returns %s' % (
                       sym, 'null on the ' + ('left' if key == (True, False)
                                              else 'right' if key == (
                                                  False, True) else
                                              'both sides'), want,
                       model.norm(rets[0].value) if rets else 'nothing'),
                   loc=o.func.module.loc(o.func.node))
    rep.floor('null ordering overloads', n, 12)


def check_wrappers(repo, rep, ops, ad):
    n = 0
    for name, ovs in ops.items():
        sym = name.split('_')[-1]
        for o in ovs:
            ps = visible(o)
            fi = o.func
            body = model.strip_docstring(fi.node.body)
            if len(body) != 1 or not isinstance(body[0], ast.Return):
                continue
            v = body[0].value
            pnames = [p.name for p in ps]
            site = '%s[%s]' % (fi.key, name)
            if name in UNARY and isinstance(v, ast.UnaryOp) and \
                    isinstance(v.operand, ast.Name):
                n += 1
                want = ast.UAdd if sym == '+' else ast.USub
                rep.ob('R15d', site, isinstance(v.op, want) and
                       v.operand.id == pnames[0],
                       'unary %s must return %s%s' % (sym, sym, pnames[0]),
                       loc=fi.module.loc(v), construct=model.norm(v))
                continue
            if name in UNARY and isinstance(v, ast.Name):
                n += 1
                rep.ob('R15d', site, sym == '+' and v.id == pnames[0],
                       'unary %s returns its operand unchanged' % sym,
                       loc=fi.module.loc(v), construct=model.norm(v))
                continue
            if isinstance(v, ast.BinOp) and sym in BINOPS and \
                    isinstance(v.left, ast.Name) and isinstance(
                        v.right, ast.Name) and len(pnames) == 2:
                n += 1
                ok = isinstance(v.op, BINOPS[sym]) and \
                    [v.left.id, v.right.id] == pnames
                if sym in ('+', '*') and isinstance(v.op, BINOPS[sym]) and \
                        sorted([v.left.id, v.right.id]) == sorted(pnames):
                    # commutative only for numbers; operands of mixed
                    # declared kinds (ts + dt) keep python's own dispatch
                    ok = ok or ps[0].type.text != ps[1].type.text or \
                        'Number' in ps[0].type.text
                rep.ob('R15d', site, ok,
                       '%s must return `%s %s %s`; it returns `%s`' % (
                           fi.name, pnames[0], sym if sym != 'mod' else '%',
                           pnames[1], model.norm(v)),
                       loc=fi.module.loc(v), construct=model.norm(v))
                continue
            if isinstance(v, ast.Compare) and sym in CMPOPS and \
                    len(v.ops) == 1 and isinstance(v.left, ast.Name) and \
                    isinstance(v.comparators[0], ast.Name) and \
                    len(pnames) == 2:
                n += 1
                names = [v.left.id, v.comparators[0].id]
                op = type(v.ops[0])
                ok = (op is CMPOPS[sym] and names == pnames) or (
                    SWAP.get(op) is CMPOPS[sym] and names == pnames[::-1])
                rep.ob('R15d', site, ok,
                       '%s must return `%s %s %s` (or the mirrored form); '
                       'it returns `%s`' % (fi.name, pnames[0], sym,
                                            pnames[1], model.norm(v)),
                       loc=fi.module.loc(v), construct=model.norm(v))
                continue
            if isinstance(v, ast.Constant):
                continue      # null table, R15c
    rep.floor('plain operator wrappers', n, 30)


def _returned_expr(body, pnames):
    """Straight-line body (single-assignment locals, then a return): the
    returned expression with the locals substituted; else None."""
    env = {}

    class Sub(ast.NodeTransformer):
        def visit_Name(self, n):
            if isinstance(n.ctx, ast.Load) and n.id in env:
                return env[n.id]
            return n
    import copy
    for st in body[:-1]:
        if not (isinstance(st, ast.Assign) and len(st.targets) == 1 and
                isinstance(st.targets[0], ast.Name)):
            return None
        t = st.targets[0].id
        if t in env or t in pnames:
            return None
        env[t] = Sub().visit(copy.deepcopy(st.value))
    if not body or not isinstance(body[-1], ast.Return) or \
            body[-1].value is None:
        return None
    return Sub().visit(copy.deepcopy(body[-1].value))


def _is_plain(v, sym, pnames):
    if isinstance(v, ast.Compare) and sym in CMPOPS and len(v.ops) == 1 \
            and isinstance(v.left, ast.Name) and isinstance(
            v.comparators[0], ast.Name):
        names = [v.left.id, v.comparators[0].id]
        op = type(v.ops[0])
        return (op is CMPOPS[sym] and names == pnames) or (
            SWAP.get(op) is CMPOPS[sym] and names == pnames[::-1])
    if isinstance(v, ast.BinOp) and sym in BINOPS and isinstance(
            v.left, ast.Name) and isinstance(v.right, ast.Name):
        names = [v.left.id, v.right.id]
        if not isinstance(v.op, BINOPS[sym]):
            return False
        return names == pnames or (sym in ('+', '*') and
                                   names == pnames[::-1])
    return False


def check_scalar_overloads_plain(repo, rep, ops, ad, uni):
    """R15f: the overloads that number x number and str x str operands
    dispatch to ARE python's operation (shape required, not just checked
    when present); `=` and `!=` are python ==/!= and complements."""
    n = 0
    fam = {'int': 'number', 'float': 'number', 'str': 'string'}
    for name, ovs in ops.items():
        sym = name.split('_')[-1]
        if sym == '/' or name in UNARY:
            continue       # R15e / unary handled by R15d
        for o in ovs:
            ps = visible(o)
            if len(ps) != 2 or any(p.kind in ('vararg', 'varkw')
                                   for p in ps):
                continue
            kinds = [[k for k in NONNULL if ad.admits(p.type, k)]
                     for p in ps]
            if not all(kinds) or any(k not in fam for ks in kinds
                                     for k in ks):
                continue
            fams = {fam[k] for ks in kinds for k in ks}
            if len(fams) != 1:
                continue
            n += 1
            fi = o.func
            body = model.strip_docstring(fi.node.body)
            pnames = [p.name for p in ps]
            rv = _returned_expr(body, pnames)
            ok = rv is not None and _is_plain(rv, sym, pnames)
            rep.ob('R15f', '%s[%s]' % (fi.key, name), ok,
                   '%s is the overload %s x %s operands of `%s` dispatch to; '
                   'its body is not the plain python operation `%s %s %s` '
                   'on its parameters (%s): the ordering/arithmetic of '
                   'scalars is no longer python\'s, which the laws of the '
                   'statement are derived from' % (
                       fi.qualname, '/'.join(kinds[0]), '/'.join(kinds[1]),
                       sym, pnames[0], sym if sym != 'mod' else '%',
                       pnames[1], model.norm(body[-1]).split('\n')[0][:80]),
                   loc=fi.module.loc(fi.node),
                   construct=model.norm(body[-1]).split('\n')[0][:120])
    rep.floor('same-family scalar overloads required to be plain', n, 12)
    # equality pair
    want = {'*equal': ast.Eq, '*not_equal': ast.NotEq}
    found = 0
    for name, op in want.items():
        ovs = [o for o in uni.reg.by_name(name) if o.ctx == 'default']
        if not ovs:
            raise AnalysisError('anchor vanished: no overload of ' + name)
        for o in ovs:
            found += 1
            fi = o.func
            ps = [p.name for p in visible(o)]
            body = model.strip_docstring(fi.node.body)
            ok = False
            v = _returned_expr(body, ps)
            if v is not None:
                neg = False
                if isinstance(v, ast.UnaryOp) and isinstance(v.op, ast.Not):
                    v = v.operand
                    neg = True
                if isinstance(v, ast.Compare) and len(v.ops) == 1 and \
                        isinstance(v.left, ast.Name) and isinstance(
                        v.comparators[0], ast.Name) and sorted(
                        [v.left.id, v.comparators[0].id]) == sorted(ps):
                    t = type(v.ops[0])
                    if neg:
                        t = {ast.Eq: ast.NotEq, ast.NotEq: ast.Eq}.get(t)
                    ok = t is op
            rep.ob('R15f', '%s[%s]' % (fi.key, name), ok,
                   '`%s` (%s) must be python `%s` on its two operands: '
                   '"exactly one of <, =, > holds" and `=`/`!=` being '
                   'complements rest on it; its body is `%s`' % (
                       name, fi.qualname, '==' if op is ast.Eq else '!=',
                       ' ; '.join(model.norm(b).split('\n')[0][:60]
                                  for b in body)),
                   loc=fi.module.loc(fi.node),
                   construct=model.norm(body[0]).split('\n')[0][:120])
    rep.floor('equality overloads', found, 2)


def check_declared_types_decide(repo, rep, ops, uni, ad):
    """R15g: the kind matrix is computed from the *declared* types
    (python types, exclusions, validators) under the generic checker of
    PythonType / GenericType.  A scalar smart type that overrides check()
    may accept a value only when the inherited check accepts it too --
    otherwise what the declarations say is not what runs."""
    YT = 'yaql.language.yaqltypes'
    classes = {}
    for name, ovs in ops.items():
        for o in ovs:
            for p in visible(o):
                if p.type.lazy or not any(ad.admits(p.type, k)
                                          for k in SCALARS):
                    continue      # not a scalar operand
                todo = [p.type]
                while todo:
                    td = todo.pop()
                    todo.extend(td.sub or [])
                    ci = repo.lookup(td.cls) if td.cls else None
                    if isinstance(ci, model.ClassInfo):
                        classes[ci.key] = ci
    n = 0
    for ci in classes.values():
        for c in repo.mro(ci):
            if not isinstance(c, model.ClassInfo):
                continue
            if c.dotted in (YT + '.PythonType', YT + '.GenericType',
                            YT + '.SmartType'):
                break
            m = c.methods.get('check')
            if m is None:
                continue
            n += 1
            bad = []
            for r in model.walk_shallow(m.node):
                if not isinstance(r, ast.Return) or r.value is None:
                    continue
                v = norm.subst_locals(m.node, r.value, only_pure=False)
                if isinstance(v, ast.Constant) and not v.value:
                    continue

                def needs_super(e):
                    if isinstance(e, ast.BoolOp):
                        if isinstance(e.op, ast.And):
                            return any(needs_super(x) for x in e.values)
                        return all(needs_super(x) for x in e.values)
                    if isinstance(e, ast.IfExp):
                        return needs_super(e.body) and needs_super(e.orelse)
                    if isinstance(e, ast.Constant):
                        return not e.value
                    return isinstance(e, ast.Call) and isinstance(
                        e.func, ast.Attribute) and e.func.attr == 'check' \
                        and isinstance(e.func.value, ast.Call) and \
                        model.norm(e.func.value.func) == 'super'
                if not needs_super(v):
                    bad.append(model.norm(r).split('\n')[0][:80])
            rep.ob('R15g', c.key + '.check', not bad,
                   '%s.check can accept a value without the inherited '
                   'check accepting it (`%s`): the declared python types / '
                   'validators (e.g. "not a bool") no longer decide what '
                   'the operators admit' % (c.node.name, '; '.join(bad)),
                   loc=c.module.loc(m.node), construct='; '.join(bad))
    rep.ob('R15g', 'scalar-smart-types/analysed', True,
           '%d check() overrides among the types of the scalar operators' %
           n, nontrivial=False)


def check_int_division(repo, rep):
    """R15e by abstract evaluation of the division payload under the four
    answers to (is the left operand an int, is the right one): the value
    returned must be python // of the two operands exactly when both are
    int and python / otherwise."""
    from sa import absint
    m = repo.module('yaql.standard_library.math')
    div = m.func('division')
    ps = div.params()
    L, R = absint.Sym('left'), absint.Sym('right')
    OPS = {'operator.floordiv': 'FloorDiv', 'operator.truediv': 'Div',
           'operator.__floordiv__': 'FloorDiv',
           'operator.__truediv__': 'Div'}

    def oracle(name, args, kwargs):
        if name in OPS and len(args) == 2:
            return (('op', OPS[name], args[0], args[1]),)
        return None

    def verdict(li, ri):
        def inst(value, cls_expr):
            names = [model.norm(x) for x in (
                cls_expr.elts if isinstance(cls_expr, ast.Tuple)
                else [cls_expr])]
            if value is L or value is R:
                is_int = li if value is L else ri
                if names == ['int']:
                    return is_int
                if names == ['float']:
                    return not is_int
                if sorted(names) == ['float', 'int']:
                    return True
            raise absint.Unsupported('isinstance(%r, %s)' % (
                value, model.norm(cls_expr)))
        it = absint.Interp(repo, m, oracle, inst)
        it.symbolic_ops = True
        try:
            out = it.run(div.node, {ps[0]: L, ps[1]: R})
        except absint.Unsupported as e:
            raise AnalysisError('R15e: the division payload is not '
                                'decided: %s' % e)
        if out[0] != 'return':
            return None
        v = out[1]
        if isinstance(v, tuple) and len(v) == 4 and v[0] == 'op' and \
                v[2] is L and v[3] is R:
            return v[1]
        return None
    both = verdict(True, True)
    mixed = [verdict(a, b) for a, b in ((True, False), (False, True),
                                        (False, False))]
    rep.ob('R15e', div.key + '/int-floor', both == 'FloorDiv' and
           'FloorDiv' not in mixed,
           'integer / integer must be computed with // on the two operands '
           '(exact at any magnitude and paired with mod so that a = (a / b) '
           '* b + (a mod b)), and only then; found %s for int/int and %s '
           'otherwise' % (both, mixed), loc=m.loc(div.node))
    rep.ob('R15e', div.key + '/float-true-division',
           all(x == 'Div' for x in mixed),
           'mixed int/float division must be python true division of the '
           'two operands; found %s' % mixed, loc=m.loc(div.node))
    mod = m.func('modulo')
    body = model.strip_docstring(mod.node.body)
    v = body[0].value if len(body) == 1 and isinstance(
        body[0], ast.Return) else None
    rep.ob('R15e', mod.key, isinstance(v, ast.BinOp) and isinstance(
        v.op, ast.Mod) and [model.norm(v.left), model.norm(v.right)] ==
        mod.params(), 'mod must be python % on the two operands',
        loc=m.loc(mod.node))


def run(repo, rep):
    rep.rule('R15a', 'KIND-MATRIX: from the declared types of every '
             'overload of the arithmetic/ordering/repetition operators: '
             'bool is never admitted where int is; number x number and '
             'str x str are admitted; the null rows of the ordering '
             'operators are complete; unrelated scalar kinds match nothing')
    rep.rule('R15b', 'ORDERING-SIBLINGS: <, <=, >, >= have the same '
             'multiset of signatures')
    rep.rule('R15c', 'NULL-TRUTH-TABLE: the null overloads return the '
             'constants forced by "null below everything, equal to itself"')
    rep.rule('R15d', 'WRAPPERS-ARE-FAITHFUL: each plain wrapper returns the '
             'python operation of its own symbol on its parameters in '
             'declaration order (or the mirrored comparison)')
    rep.rule('R15e', 'INT-DIVISION: both-int division uses //, modulo uses '
             '%')
    rep.rule('R15g', 'DECLARED-TYPES-DECIDE: a check() override on a type '
             'used by the scalar operators only narrows the inherited '
             'check')
    rep.rule('R15f', 'SCALAR-OVERLOADS-ARE-PLAIN: the number x number and '
             'str x str overloads of the ordering and +,-,*,mod operators '
             'consist of the plain python operation; *equal/*not_equal are '
             'python ==/!= (complements)')
    rep.trusted += ['Python int/float/str semantics give the algebraic '
                    'laws once the wrappers are faithful']
    rep.explanation = (
        'The overload table of the scalar operators is recovered from the '
        'decorators; for every overload the set of scalar kinds each '
        'parameter admits is computed from its declared smart type (the '
        'type system the runtime enforces at every call), and the '
        'statement\'s requirements are checked on that matrix; bodies of '
        'plain wrappers are compared with the operator symbol.')
    uni = unimod.Universe(repo)
    ad = Admit(repo)
    ops = check_matrix(repo, rep, uni, ad)
    check_siblings(rep, ops)
    check_null_table(rep, ops, ad)
    check_wrappers(repo, rep, ops, ad)
    try:
        check_int_division(repo, rep)
    except AnalysisError as e:
        rep.error(str(e))      # the other rules do not depend on it
    from sa.rules import c02
    rep.rule('R02e', 'see C02: every operator symbol, aliased or not, '
             'is reduced to an operator call node (the premise of the kind '
             'matrix: no operator application bypasses the overloads)')
    c02.check_actions(repo, rep)
    check_scalar_overloads_plain(repo, rep, ops, ad, uni)
    check_declared_types_decide(repo, rep, ops, uni, ad)
    rep.count(operator_names=len(ops),
              overloads=sum(len(v) for v in ops.values()))
