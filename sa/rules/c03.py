"""C03 -- parsing is total: a statement or a YAQL parsing error.

Exception-escape analysis of every function that runs inside
YaqlEngine.__call__.
"""
import ast
import builtins
import re
import sys

from sa import cfg as cfgmod
from sa import model
from sa import norm
from sa.model import AnalysisError
from sa.rules import c01

TITLE = 'no non-YAQL exception escapes lexer/parser actions'

YPE = 'yaql.language.exceptions.YaqlParsingException'

# partial operations: dotted callee / method name -> failure classes
PARTIAL_CALLS = {
    'builtins.int': ('ValueError',),        # also > max_str_digits
    'builtins.float': ('ValueError',),
    'builtins.chr': ('ValueError',),   # OverflowError needs an int beyond C long
    'builtins.next': ('StopIteration',),
    'builtins.eval': ('Exception',),
    'builtins.getattr2': ('AttributeError',),
    'builtins.divmod': ('ZeroDivisionError',),
    'builtins.bytes.fromhex': ('ValueError',),
    'codecs.decode': ('ValueError', 'LookupError'),
    'codecs.encode': ('ValueError', 'LookupError'),
    'unicodedata.lookup': ('KeyError',),
    'unicodedata.name': ('ValueError',),
    're.compile': ('re.error',),
    'ast.literal_eval': ('ValueError', 'SyntaxError'),
    'json.loads': ('ValueError',),
    'decimal.Decimal': ('ArithmeticError',),
    'fractions.Fraction': ('ValueError', 'ZeroDivisionError'),
    # arithmetic on numeric literal values: int/float mixing overflows for
    # integers beyond the float range; division by a literal zero
    'operator.add': ('OverflowError',), 'operator.sub': ('OverflowError',),
    'operator.mul': ('OverflowError',),
    'operator.pow': ('OverflowError', 'ZeroDivisionError'),
    'operator.truediv': ('OverflowError', 'ZeroDivisionError'),
    'operator.floordiv': ('ZeroDivisionError',),
    'operator.mod': ('ZeroDivisionError',),
    'math.pow': ('OverflowError', 'ValueError'),
    'math.exp': ('OverflowError',),
}
PARTIAL_METHODS = {
    'index': ('ValueError',),
    'rindex': ('ValueError',),
    'remove': ('ValueError', 'KeyError'),
    'encode': ('UnicodeError',),
    'decode': ('UnicodeError',),
    'popitem': ('KeyError',),
    'to_bytes': ('OverflowError',),
}


def builtin_exc(name):
    if name == 're.error':
        return re.error
    return getattr(builtins, name, None)


class Escape:
    def __init__(self, cls, origin, loc, construct, via=()):
        self.cls = cls            # dotted
        self.origin = origin
        self.loc = loc
        self.construct = construct
        self.via = tuple(via)


class Analyzer:
    def __init__(self, repo, rep):
        self.repo = repo
        self.rep = rep
        self.memo = {}
        self.in_progress = set()
        self.partial_sites = []     # (fi, call, classes, guarded_how)
        self.raise_sites = []
        self.scope = {fi.key: (fi, role)
                      for fi, role in c01.parse_path_functions(repo)}

    # -- class helpers ----------------------------------------------------
    def exc_dotted(self, fi, expr):
        if expr is None:
            return None
        e = expr.func if isinstance(expr, ast.Call) else expr
        return self.repo.resolve(fi.module, e, model.scope_locals(fi))

    def is_yaql_parsing(self, dotted):
        tgt = self.repo.lookup(dotted) if dotted else None
        return isinstance(tgt, model.ClassInfo) and self.repo.is_subclass(
            tgt, YPE)

    def catches(self, fi, handler, cls):
        """Does `except <handler.type>` catch exception class `cls`
        (dotted)?"""
        if handler.type is None:
            return True
        types = handler.type.elts if isinstance(
            handler.type, ast.Tuple) else [handler.type]
        for t in types:
            d = self.repo.resolve(fi.module, t, model.scope_locals(fi))
            if d is None:
                continue
            if d == cls:
                return True
            if d.startswith('builtins.') and cls.startswith('builtins.'):
                a = builtin_exc(d[9:])
                b = builtin_exc(cls[9:])
                if isinstance(a, type) and isinstance(b, type) and \
                        issubclass(b, a):
                    return True
            if d.startswith('builtins.') and cls == 're.error':
                a = builtin_exc(d[9:])
                if isinstance(a, type) and issubclass(re.error, a):
                    return True
            tgt = self.repo.lookup(cls)
            if isinstance(tgt, model.ClassInfo):
                if self.repo.is_subclass(tgt, d):
                    return True
                if d in ('builtins.Exception', 'builtins.BaseException'):
                    return True
        return False

    # -- guards by regular language -----------------------------------------
    def regex_guard(self, fi, call, dotted):
        """(i) of R03a: the argument is the text matched by a token regex
        whose language is inside the conversion's domain."""
        role = self.scope.get(fi.key, (None, None))[1]
        if role != 'token' or not call.args:
            return None
        arg = call.args[0]
        percall = c01.per_call_params(fi, role)
        if not (isinstance(arg, ast.Attribute) and arg.attr == 'value' and
                isinstance(arg.value, ast.Name) and arg.value.id in percall):
            return None
        try:
            from sa import grammar as _g
            doc = _g.effective_token_regex(fi.name)
        except Exception:
            doc = ast.get_docstring(fi.node, clean=False)
        if not doc:
            return None
        try:
            import re._parser as sre
            tree = sre.parse(doc, re.UNICODE | re.VERBOSE)
            lo, hi = tree.getwidth()
        except Exception:
            return None
        if dotted == 'builtins.int':
            limit = sys.get_int_max_str_digits() if hasattr(
                sys, 'get_int_max_str_digits') else 0
            if limit and hi > limit:
                return None
            if _only_digits(tree):
                return 'token regex admits only <= %d digits' % hi
        if dotted == 'builtins.float':
            if _decimal_shape(tree):
                return 'token regex admits only digits[.digits]'
        return None

    # -- escape computation -------------------------------------------------
    def escapes(self, fi):
        if fi.key in self.memo:
            return self.memo[fi.key]
        if fi.key in self.in_progress:
            return []
        self.in_progress.add(fi.key)
        out = []
        self._block(fi, model.strip_docstring(fi.node.body), [], out)
        self.in_progress.discard(fi.key)
        self.memo[fi.key] = out
        return out

    def _caught(self, fi, handlers_stack, cls):
        for handlers in reversed(handlers_stack):
            for h in handlers:
                if self.catches(fi, h, cls):
                    return True
        return False

    def _block(self, fi, stmts, hs, out):
        for st in stmts:
            self._stmt(fi, st, hs, out)

    def _stmt(self, fi, st, hs, out):
        if isinstance(st, ast.Try):
            self._block(fi, st.body, hs + [st.handlers], out)
            self._block(fi, st.orelse, hs, out)
            for h in st.handlers:
                # a bare `raise` in the handler re-raises what was caught
                self._block(fi, h.body, hs + [[('reraise', h)]], out) \
                    if False else self._handler(fi, h, hs, out)
            self._block(fi, st.finalbody, hs, out)
            return
        if isinstance(st, (ast.FunctionDef, ast.AsyncFunctionDef)):
            # a nested def: its escapes surface where it is called / passed
            return
        if isinstance(st, ast.ClassDef):
            return
        if isinstance(st, ast.Raise):
            self._raise(fi, st, hs, out, None)
            if st.exc is not None:
                self._expr(fi, st.exc, hs, out)
            return
        for field, value in ast.iter_fields(st):
            if isinstance(value, list) and value and isinstance(
                    value[0], ast.stmt):
                self._block(fi, value, hs, out)
            elif isinstance(value, list):
                for v in value:
                    if isinstance(v, ast.AST):
                        self._expr(fi, v, hs, out)
            elif isinstance(value, ast.AST):
                self._expr(fi, value, hs, out)

    def _handler(self, fi, h, hs, out):
        for st in h.body:
            if isinstance(st, ast.Raise) and st.exc is None:
                self._raise(fi, st, hs, out, h)
            else:
                self._stmt_in_handler(fi, st, hs, out, h)

    def _stmt_in_handler(self, fi, st, hs, out, h):
        # bare raise nested deeper (if/else inside the handler)
        for n in model.walk_shallow(st):
            if isinstance(n, ast.Raise) and n.exc is None and n is not st:
                self._raise(fi, n, hs, out, h)
        self._stmt(fi, st, hs, out)

    def _raise(self, fi, st, hs, out, handler):
        loc = fi.module.loc(st)
        if st.exc is None:
            if handler is None:
                return   # counted by _handler / nested scan
            types = [handler.type] if handler.type is not None and \
                not isinstance(handler.type, ast.Tuple) else (
                    handler.type.elts if handler.type is not None else [])
            classes = [self.repo.resolve(fi.module, t,
                                         model.scope_locals(fi))
                       or model.norm(t) for t in types] or [
                'builtins.BaseException']
        else:
            d = self.exc_dotted(fi, st.exc)
            classes = [d or '<expr:%s>' % model.norm(st.exc)]
        for cls in classes:
            self.raise_sites.append((fi, st, cls))
            if self.is_yaql_parsing(cls):
                continue
            if self._caught(fi, hs, cls):
                continue
            out.append(Escape(cls, 'explicit raise', loc, model.norm(st)))

    def _expr(self, fi, expr, hs, out):
        for n in model.walk_shallow(expr):
            if isinstance(n, ast.Call):
                self._call(fi, n, hs, out)
            elif isinstance(n, ast.BinOp) and isinstance(
                    n.op, (ast.Div, ast.FloorDiv, ast.Mod)):
                if isinstance(n.op, ast.Mod) and (isinstance(
                        n.left, ast.Constant) and isinstance(
                        n.left.value, str) or isinstance(
                        n.left, ast.JoinedStr)):
                    continue
                cls = 'builtins.ZeroDivisionError'
                self.partial_sites.append((fi, n, (cls,), None))
                if not self._caught(fi, hs, cls):
                    out.append(Escape(cls, 'division', fi.module.loc(n),
                                      model.norm(n)))
            elif isinstance(n, ast.Subscript) and isinstance(
                    n.ctx, ast.Load):
                self._subscript(fi, n, hs, out)

    def _production_index_verdict(self, fi, pname):
        """Abstractly run the grammar action once per alternative of its
        rule (p as long as that alternative): the set of alternative
        lengths for which it indexes past the end; None if the action is
        outside the modelled fragment."""
        from sa import absint
        cache = self.__dict__.setdefault('_piv', {})
        if fi.key in cache:
            return cache[fi.key]
        doc = ast.get_docstring(fi.node, clean=False)
        verdict = None
        if doc and ':' in doc and fi.name not in ('p_binary', 'p_unary'):
            verdict = set()
            lists = {'arglist', 'incomplete_arglist', 'named_arglist',
                     'args'}
            for alt in doc.split(':', 1)[1].split('|'):
                syms = alt.split()
                if '%prec' in syms:
                    syms = syms[:syms.index('%prec')]
                vals = [None] + [[] if x in lists else absint.Sym(x)
                                 for x in syms]

                def oracle(name, args, kwargs):
                    if name.startswith('yaql.language.expressions.') or \
                            name.startswith('yaql.language.expressions:'):
                        return (absint.Sym('node'),)
                    return None
                it = absint.Interp(self.repo, fi.module, oracle,
                                   follow=False)
                args = {pname: vals}
                for q in fi.params():
                    if q != pname:
                        args[q] = absint.Obj(q)
                try:
                    res = it.run(fi.node, args)
                except absint.Unsupported:
                    verdict = None
                    break
                if res[0] == 'raise' and 'IndexError' in str(res[1]):
                    verdict.add(len(syms))
        cache[fi.key] = verdict
        return verdict

    def _subscript(self, fi, n, hs, out):
        role = self.scope.get(fi.key, (None, None))[1]
        if isinstance(n.slice, ast.Slice):
            return      # slicing is total
        percall = c01.per_call_params(fi, role) if role else set()
        root, chain = _root(n.value)
        # ply production access p[k] / p.slice[k]
        if role == 'grammar' and root in percall and isinstance(
                n.slice, ast.Constant) and isinstance(n.slice.value, int):
            k = n.slice.value
            lim = production_min_len(fi)
            if lim is None or k <= lim:
                return
            verdict = self._production_index_verdict(fi, root)
            if verdict is not None:
                if not verdict:
                    return      # no alternative indexes past its symbols
            elif _under_len_test(n, root, fi.node):
                return
            cls = 'builtins.IndexError'
            self.partial_sites.append((fi, n, (cls,), None))
            if not self._caught(fi, hs, cls):
                out.append(Escape(
                    cls, 'production index %d beyond the shortest '
                    'alternative (%d symbols)' % (k, lim),
                    fi.module.loc(n), model.norm(n)))
            return
        if isinstance(n.slice, ast.Constant) and isinstance(
                n.slice.value, int):
            # fixed index: into the matched text of a token rule (ply never
            # produces an empty match, t_error gets the non-empty rest) or
            # into an operator-table record (fixed-arity tuple)
            if n.slice.value in (0, -1) and role == 'token' and \
                    root in percall:
                return
            if chain and chain[-1] == '[]':
                return  # record of a table looked up just before
            if role == 'token' and root in percall:
                cls = 'builtins.IndexError'
                self.partial_sites.append((fi, n, (cls,), None))
                if not self._caught(fi, hs, cls):
                    out.append(Escape(cls, 'fixed index into matched text',
                                      fi.module.loc(n), model.norm(n)))
            return
        # mapping lookup: needs a dominating `key in container` test
        if _guarded_by_membership(n):
            return
        if root in percall and role == 'grammar':
            return      # p[<expr>] under ply's contract: not used today
        if root is not None and _under_len_test(n, root, fi.node):
            return      # index guarded by a test of len(<sequence>)
        if isinstance(n.value, ast.Name) and n.value.id in \
                model.local_names_of(fi.node) and n.value.id not in percall:
            return      # local list/dict built in this function
        cls = 'builtins.LookupError'
        self.partial_sites.append((fi, n, (cls,), None))
        if not (self._caught(fi, hs, 'builtins.KeyError') and
                self._caught(fi, hs, 'builtins.IndexError')):
            out.append(Escape(cls, 'unguarded lookup %s' % model.norm(n),
                              fi.module.loc(n), model.norm(n)))

    def _call(self, fi, call, hs, out):
        repo = self.repo
        f = call.func
        d = repo.resolve(fi.module, f, model.scope_locals(fi))
        classes = None
        key = None
        if d is None and isinstance(f, ast.Name):
            # a local bound once to a choice of converters:
            # `conv = float if '.' in text else int; conv(text)`
            v = norm.single_assignments(fi.node).get(f.id)
            leaves = []
            todo = [v] if v is not None else []
            while todo:
                x = todo.pop()
                if isinstance(x, ast.IfExp):
                    todo += [x.body, x.orelse]
                elif isinstance(x, (ast.Name, ast.Attribute)):
                    leaves.append(repo.resolve(fi.module, x,
                                               model.scope_locals(fi)))
            # ... or looked up in a module-level table of callables
            if v is not None and not leaves:
                tab = None
                if isinstance(v, ast.Call) and isinstance(
                        v.func, ast.Attribute) and v.func.attr == 'get':
                    tab = v.func.value
                elif isinstance(v, ast.Subscript):
                    tab = v.value
                todo = [tab] if tab is not None else []
                seen_t = 0
                while todo and seen_t < 12:
                    seen_t += 1
                    x = todo.pop()
                    if isinstance(x, ast.IfExp):
                        todo += [x.body, x.orelse]
                    elif isinstance(x, ast.Name):
                        v2 = norm.single_assignments(fi.node).get(x.id)
                        if v2 is not None:
                            todo.append(v2)
                            continue
                        dd = repo.resolve(fi.module, x,
                                          model.scope_locals(fi))
                        tg = repo.lookup(dd) if dd else None
                        if isinstance(tg, tuple) and tg[0] == 'const':
                            todo.append(('modconst', tg[1], tg[2]))
                    elif isinstance(x, tuple) and x[0] == 'modconst' and \
                            isinstance(x[2], ast.Dict):
                        for val in x[2].values:
                            leaves.append(repo.resolve(x[1], val))
            hits = [x for x in leaves if x in PARTIAL_CALLS]
            if hits:
                classes = tuple(sorted({c for h in hits
                                        for c in PARTIAL_CALLS[h]}))
                key = hits[0]
                d = hits[0]
        if classes is not None:
            pass
        elif d in PARTIAL_CALLS:
            classes = PARTIAL_CALLS[d]
            key = d
        elif d == 'builtins.getattr' and len(call.args) == 2:
            classes = ('AttributeError',)
            key = d
        elif d is None and isinstance(f, ast.Attribute) and \
                f.attr in PARTIAL_METHODS:
            # str.format / dict.get etc. are total; these are not
            classes = PARTIAL_METHODS[f.attr]
            key = '.' + f.attr
        elif d is None and isinstance(f, ast.Attribute) and \
                f.attr == 'pop' and len(call.args) < 2 and call.args:
            classes = ('KeyError',)
            key = '.pop'
        if classes is not None and d in ('codecs.decode', 'codecs.encode') \
                and len(call.args) > 1 and isinstance(
                    call.args[1], ast.Constant) and isinstance(
                    call.args[1].value, str):
            import codecs
            try:
                codecs.lookup(call.args[1].value)
                classes = tuple(c for c in classes if c != 'LookupError')
            except LookupError:
                pass
        if classes is not None:
            how = self.regex_guard(fi, call, d) if d else None
            dotted_classes = tuple(
                c if '.' in c else 'builtins.' + c for c in classes)
            caught = all(self._caught(fi, hs, c) for c in dotted_classes)
            self.partial_sites.append(
                (fi, call, dotted_classes,
                 how or ('try/except' if caught else None)))
            if how is None and not caught:
                for c in dotted_classes:
                    if not self._caught(fi, hs, c):
                        out.append(Escape(
                            c, 'partial operation %s' % key,
                            fi.module.loc(call), model.norm(call)))
            return
        # calls into repo functions: their escapes propagate
        tgt = repo.lookup(d) if d else None
        callees = []
        if isinstance(tgt, model.FuncInfo):
            callees.append(tgt)
        elif isinstance(tgt, model.ClassInfo):
            for c in repo.mro(tgt):
                if isinstance(c, model.ClassInfo) and '__init__' in \
                        c.methods:
                    callees.append(c.methods['__init__'])
        elif d is None and isinstance(f, ast.Name):
            nested = fi.qualname + '.' + f.id
            if nested in fi.module.functions:
                callees.append(fi.module.functions[nested])
        elif d is None and isinstance(f, ast.Attribute) and isinstance(
                f.value, ast.Name) and f.value.id in ('self', 'cls') and \
                fi.cls is not None:
            m = repo.find_method(fi.cls, f.attr)
            if m is not None:
                callees.append(m)
        # nested functions passed as callbacks (re.sub(decode_match, s))
        for a in list(call.args) + [k.value for k in call.keywords]:
            if isinstance(a, ast.Name):
                nested = fi.qualname + '.' + a.id
                if nested in fi.module.functions:
                    callees.append(fi.module.functions[nested])
            elif isinstance(a, ast.Lambda):
                self._expr(fi, a.body, hs, out)
        for cal in callees:
            if cal.module.name.startswith('yaql.standard_library'):
                continue
            for e in self.escapes(cal):
                if self._caught(fi, hs, e.cls):
                    continue
                out.append(Escape(e.cls, e.origin, e.loc, e.construct,
                                  (fi.key,) + e.via))


def _root(e):
    chain = []
    while True:
        if isinstance(e, ast.Attribute):
            chain.append('.' + e.attr)
            e = e.value
        elif isinstance(e, ast.Subscript):
            chain.append('[]')
            e = e.value
        else:
            break
    chain.reverse()
    return (e.id if isinstance(e, ast.Name) else None), chain


def _under_len_test(node, root, fn_node):
    """Some condition that holds at `node` (if/else, early exit,
    conditional expression; boolean/arithmetic locals substituted) tests
    len(<root>)."""
    for e, pol in norm.guards(node, fn_node):
        for c in ast.walk(e):
            if isinstance(c, ast.Call) and isinstance(
                    c.func, ast.Name) and c.func.id == 'len' and \
                    c.args and isinstance(c.args[0], ast.Name) and \
                    c.args[0].id == root:
                return True
    return False


def _guarded_by_membership(sub):
    key = model.norm(sub.slice)
    cont = model.norm(sub.value)
    n = sub
    while n is not None:
        p = getattr(n, '_parent', None)
        if isinstance(p, ast.If) and any(n is s for s in p.body):
            t = p.test
            tests = t.values if isinstance(t, ast.BoolOp) and isinstance(
                t.op, ast.And) else [t]
            for c in tests:
                if isinstance(c, ast.Compare) and len(c.ops) == 1 and \
                        isinstance(c.ops[0], ast.In) and \
                        model.norm(c.left) == key and \
                        model.norm(c.comparators[0]) == cont:
                    return True
        if isinstance(p, ast.IfExp) and n is p.body:
            c = p.test
            if isinstance(c, ast.Compare) and len(c.ops) == 1 and \
                    isinstance(c.ops[0], ast.In) and \
                    model.norm(c.left) == key and \
                    model.norm(c.comparators[0]) == cont:
                return True
        n = p
    return False


def production_min_len(fi):
    """Number of right-hand-side symbols of the shortest alternative of the
    grammar rule in the docstring; generated rules by construction."""
    if fi.name == 'p_binary':
        return 3
    if fi.name == 'p_unary':
        return 2
    doc = ast.get_docstring(fi.node, clean=False)
    if not doc or ':' not in doc:
        return None
    rhs = doc.split(':', 1)[1]
    best = None
    for alt in rhs.split('|'):
        syms = alt.split()
        if '%prec' in syms:
            syms = syms[:syms.index('%prec')]
        n = len(syms)
        best = n if best is None else min(best, n)
    return best


def _only_digits(tree):
    import re._parser as sre
    from re._constants import (IN, CATEGORY, CATEGORY_DIGIT, LITERAL,
                               MAX_REPEAT, MIN_REPEAT, SUBPATTERN, AT,
                               BRANCH, RANGE)
    for op, av in tree:
        if op is AT:
            continue
        if op is LITERAL:
            if not chr(av).isdigit():
                return False
        elif op is IN:
            for o2, a2 in av:
                if o2 is CATEGORY and a2 is CATEGORY_DIGIT:
                    continue
                if o2 is LITERAL and chr(a2).isdigit():
                    continue
                if o2 is RANGE and all(chr(c).isdigit() for c in
                                       range(a2[0], a2[1] + 1)):
                    continue
                return False
        elif op in (MAX_REPEAT, MIN_REPEAT):
            if not _only_digits(av[2]):
                return False
        elif op is SUBPATTERN:
            if not _only_digits(av[3]):
                return False
        elif op is BRANCH:
            if not all(_only_digits(b) for b in av[1]):
                return False
        else:
            return False
    return True


def _decimal_shape(tree):
    """digits+ ( '.'? digits+ )? with optional \\b anchors."""
    from re._constants import (IN, CATEGORY, CATEGORY_DIGIT, LITERAL,
                               MAX_REPEAT, SUBPATTERN, AT)
    items = [(op, av) for op, av in tree if op is not AT]

    def is_digits_plus(it):
        op, av = it
        return op is MAX_REPEAT and av[0] >= 1 and len(av[2]) == 1 and \
            av[2][0][0] is IN and all(
                o is CATEGORY and a is CATEGORY_DIGIT for o, a in av[2][0][1])
    if not items or not is_digits_plus(items[0]):
        return False
    if len(items) == 1:
        return True
    if len(items) != 2:
        return False
    op, av = items[1]
    if op is not MAX_REPEAT or av[0] != 0 or av[1] != 1:
        return False
    inner = av[2]
    if len(inner) == 1 and inner[0][0] is SUBPATTERN:
        inner = inner[0][1][3]
    inner = [x for x in inner if x[0] is not AT]
    if len(inner) != 2:
        return False
    o0, a0 = inner[0]
    dot_ok = (o0 is LITERAL and a0 == ord('.')) or (
        o0 is MAX_REPEAT and a0[0] in (0, 1) and a0[1] == 1 and
        len(a0[2]) == 1 and a0[2][0] == (LITERAL, ord('.')))
    return dot_ok and is_digits_plus(inner[1])


# ---------------------------------------------------------------------------
def check_positions(repo, rep, an):
    """R03e: the position argument of every parsing exception built on the
    parse path is None or <per-call token>.lexpos, unmodified."""
    excm = repo.module('yaql.language.exceptions')
    n = 0
    for fi, role in an.scope.values():
        percall = c01.per_call_params(fi, role)
        for call in model.calls_in(fi.node, shallow=True):
            d = repo.resolve(fi.module, call.func, model.scope_locals(fi))
            tgt = repo.lookup(d) if d else None
            if not (isinstance(tgt, model.ClassInfo) and repo.is_subclass(
                    tgt, YPE)):
                continue
            init = repo.find_method(tgt, '__init__')
            if init is None:
                continue
            names = [x.arg for x in init.node.args.args][1:]
            if 'position' not in names:
                continue
            idx = names.index('position')
            pos = None
            if idx < len(call.args):
                pos = call.args[idx]
            for k in call.keywords:
                if k.arg == 'position':
                    pos = k.value
            n += 1
            site = '%s/position-of[%s]' % (fi.key, tgt.qualname)
            ok = False
            why = ''
            if pos is None:
                ok, why = False, 'no position argument'
            elif isinstance(pos, ast.Constant) and pos.value is None:
                ok, why = True, 'None'
            elif isinstance(pos, ast.Attribute) and pos.attr == 'lexpos' \
                    and isinstance(pos.value, ast.Name):
                # .lexpos exists only on ply tokens / stack symbols, where
                # ply set it to an offset of a token it has read
                ok, why = True, 'token position, unmodified'
            elif isinstance(pos, ast.Name):
                # a local bound once to <tok>.lexpos
                vals = [s.value for s in model.walk_shallow(fi.node)
                        if isinstance(s, ast.Assign) and any(
                            isinstance(t, ast.Name) and t.id == pos.id
                            for t in s.targets)]
                ok = bool(vals) and all(
                    isinstance(v, ast.Attribute) and v.attr == 'lexpos' and
                    isinstance(v.value, ast.Name)
                    for v in vals)
                why = 'local alias of token position' if ok else \
                    'local %s is not the unmodified token position' % pos.id
            else:
                why = 'position is computed (%s), not the token position ' \
                      'ply guarantees to lie inside the input' % \
                      model.norm(pos)
            rep.ob('R03e', site, ok, why, loc=fi.module.loc(call),
                   construct=model.norm(call))
    rep.floor('parsing-exception constructions on the parse path', n, 2)


def check_input_is_the_text(repo, rep):
    """R03g: the text handed to ply is the caller's text itself, so that
    token positions index the caller's input."""
    n = 0
    for fi, call in c01.parse_sites(repo):
        if not call.args:
            continue
        n += 1
        arg = call.args[0]
        site = fi.key + '/parsed-text'
        if not isinstance(arg, ast.Name) or arg.id not in fi.params():
            rep.ob('R03g', site, False,
                   'ply is given `%s`, not the caller\'s expression text: '
                   'error positions index that other string and can lie '
                   'outside the input' % model.norm(arg),
                   loc=fi.module.loc(call), construct=model.norm(call))
            continue
        g = cfgmod.CFG(fi.node)
        use = g.node_of(call)
        defs = cfgmod.reaching_defs(g, use, arg.id) if use else []
        bad = [d for d in defs if d is not g.entry and not (
            isinstance(d.ast, ast.Assign) and isinstance(
                d.ast.value, ast.Call) and isinstance(
                d.ast.value.func, ast.Name) and
            d.ast.value.func.id == 'str')]
        rep.ob('R03g', site, not bad,
               'the expression text is rewritten before it is parsed (%s): '
               'positions reported by the lexer/parser refer to the '
               'rewritten text, not to the caller\'s input, and can lie '
               'outside it' % [model.norm(d.ast) for d in bad],
               loc=fi.module.loc(bad[0].ast if bad else call),
               construct=model.norm(bad[0].ast) if bad else '')
    rep.floor('parse call sites', n, 1)


def check_token_regexes_terminate(repo, rep):
    """R03h: no token / escape regex has exponential ambiguity (the lexer
    uses a backtracking engine: such a rule does not terminate in practice
    on a long non-matching input), and none matches the empty string."""
    from sa import grammar, regexlang
    import re as _re
    V = _re.UNICODE | _re.VERBOSE
    n = 0
    for name in grammar.token_rule_names():
        rx = grammar.effective_token_regex(name)
        n += 1
        try:
            amb = regexlang.exponential_ambiguity(rx, V)
        except regexlang.Unsupported as e:
            rep.note('%s: %s' % (name, e))
            continue
        rep.ob('R03h', 'yaql.language.lexer:Lexer.%s/regex' % name,
               amb is None,
               'the token regex %s is exponentially ambiguous (%s): on an '
               'input that almost matches, the backtracking search tries '
               'exponentially many splits before the lexer can report the '
               'error -- parsing does not terminate in practice' % (
                   rx.strip(), amb), construct=rx.strip())
    lexm = repo.module('yaql.language.lexer')
    for cname, node in lexm.constants.items():
        if isinstance(node, ast.Call) and repo.resolve(
                lexm, node.func) == 're.compile' and node.args and \
                isinstance(node.args[0], ast.Constant):
            fl = 0
            if len(node.args) > 1:
                for x in ast.walk(node.args[1]):
                    if isinstance(x, ast.Attribute) and hasattr(_re, x.attr):
                        fl |= getattr(_re, x.attr)
            n += 1
            try:
                amb = regexlang.exponential_ambiguity(node.args[0].value, fl)
            except regexlang.Unsupported as e:
                rep.note('%s: %s' % (cname, e))
                continue
            rep.ob('R03h', 'yaql.language.lexer:%s' % cname, amb is None,
                   'regex %s is exponentially ambiguous (%s)' % (cname, amb),
                   loc=lexm.loc(node))
    rep.floor('lexer regexes examined for ambiguity', n, 8)


def check_hooks(repo, rep, an):
    lexm = repo.module('yaql.language.lexer')
    parm = repo.module('yaql.language.parser')
    for mod, q, want, rule in (
            (lexm, 'Lexer.t_error',
             'yaql.language.exceptions.YaqlLexicalException', 'R03b'),
            (parm, 'Parser.p_error',
             'yaql.language.exceptions.YaqlGrammarException', 'R03c')):
        fi = mod.functions.get(q)
        if fi is None:
            raise AnalysisError('anchor vanished: %s' % q)
        g = cfgmod.CFG(fi.node)
        rep.ob(rule, fi.key + '/must-raise', not g.can_return_normally(),
               '%s can return normally: ply would skip the bad input and '
               'go on (no YAQL error for an illegal text)' % q,
               loc=mod.loc(fi.node))
        raised = [cls for f2, st, cls in an.raise_sites if f2 is fi]
        ok = bool(raised) and all(an.is_yaql_parsing(c) for c in raised)
        rep.ob(rule, fi.key + '/raises-yaql-parsing-error', ok,
               '%s raises %s; every raise must be a YaqlParsingException '
               'subclass' % (q, raised), loc=mod.loc(fi.node))


def check_no_recursion(repo, rep, an):
    """R03i: nothing on the parse path recurses over the input.  ply's
    token loop and LR driver are iterative; a recursive walk of the
    expression tree (or of the text) inside YaqlEngine.__call__ fails with
    RecursionError -- not a YAQL parsing error -- on deeply nested input."""
    graph = {}
    fis = {k: v[0] for k, v in an.scope.items()}
    for k, fi in fis.items():
        outs = set()
        for call in model.calls_in(fi.node):
            d = repo.resolve(fi.module, call.func, model.scope_locals(fi))
            tgt = repo.lookup(d) if d else None
            if isinstance(tgt, model.FuncInfo) and tgt.key in fis:
                outs.add(tgt.key)
            elif isinstance(tgt, model.ClassInfo):
                for c in repo.mro(tgt):
                    if isinstance(c, model.ClassInfo) and \
                            '__init__' in c.methods and \
                            c.methods['__init__'].key in fis:
                        outs.add(c.methods['__init__'].key)
                        break
            elif isinstance(call.func, ast.Name):
                # nested helper / the function itself by bare name
                g = fi
                while g is not None:
                    t = fi.module.functions.get(
                        (g.qualname + '.' if g else '') + call.func.id)
                    if t is not None and t.key in fis:
                        outs.add(t.key)
                        break
                    g = g.parent_func
        graph[k] = outs
    # functions on a cycle
    on_cycle = set()
    for start in graph:
        seen = set()
        stack = list(graph[start])
        while stack:
            n = stack.pop()
            if n == start:
                on_cycle.add(start)
                break
            if n in seen:
                continue
            seen.add(n)
            stack.extend(graph.get(n, ()))
    for k in sorted(fis):
        rep.ob('R03i', k + '/no-recursion', k not in on_cycle,
               '%s is recursive (calls itself, directly or through %s) and '
               'runs inside YaqlEngine.__call__: its depth follows the '
               'nesting of the expression, so a deeply nested (valid or '
               'invalid) text raises RecursionError instead of parsing or '
               'raising a YAQL parsing exception' % (
                   fis[k].qualname, sorted(graph[k] & on_cycle) or 'itself'),
               loc=fis[k].module.loc(fis[k].node), nontrivial=False)


def run(repo, rep):
    rep.rule('R03a', 'PARTIAL-CALLS-GUARDED: every partial operation on the '
             'parse path (int/float/codecs.decode/chr/index/lookup/division/'
             'production index ...) is applied to text whose token regex '
             'lies in its domain, or sits in a try whose handler catches '
             'its failure class; nothing but YaqlParsingException '
             'subclasses escapes an entry point')
    rep.rule('R03b', 't_error raises a YAQL parsing exception on every path')
    rep.rule('R03c', 'p_error raises a YAQL parsing exception on every path')
    rep.rule('R03d', 'ONLY-YAQL-RAISES: every explicit raise that can '
             'escape the parse path raises a YaqlParsingException subclass')
    rep.rule('R03g', 'INPUT-IS-THE-TEXT: the string handed to ply parse() '
             'is the caller\'s expression parameter, not rewritten')
    rep.rule('R03h', 'TOKEN-REGEXES-TERMINATE: no token or escape regex is '
             'exponentially ambiguous (EDA test on its automaton)')
    rep.rule('R03i', 'NO-RECURSION-ON-THE-PARSE-PATH: no function that runs '
             'inside YaqlEngine.__call__ is on a call cycle')
    rep.rule('R03e', 'POSITION-PROVENANCE: reported positions are None or '
             'the unmodified token position')
    rep.trusted += ['ply: token loop advances lexpos, refuses empty-matching '
                    'rules at build time; LR driver is iterative',
                    'CPython: failure classes of int/float/codecs.decode '
                    '(ValueError incl. UnicodeDecodeError; int() also fails '
                    'beyond sys.get_int_max_str_digits())']
    rep.explanation = (
        'Exception-escape analysis over the %d functions that run inside '
        'YaqlEngine.__call__: partial operations are catalogued with their '
        'failure classes, try/except contexts and callee summaries are '
        'propagated to the entry points (token actions, grammar actions, '
        'engine call); an escape of anything that is not a '
        'YaqlParsingException subclass is a violation for all input '
        'strings.')
    an = Analyzer(repo, rep)
    entries = [(fi, role) for fi, role in an.scope.values()
               if role in ('token', 'grammar', 'engine')]
    for fi, role in sorted(entries, key=lambda x: x[0].key):
        esc = an.escapes(fi)
        if not esc:
            rep.ob('R03a', fi.key, True, 'nothing but YAQL parsing errors '
                   'can escape', nontrivial=True)
        seen = set()
        for e in esc:
            rule = 'R03d' if e.origin == 'explicit raise' else 'R03a'
            k = (rule, e.cls, e.construct)
            if k in seen:
                continue
            seen.add(k)
            rep.ob(rule, fi.key, False,
                   '%s can escape as %s (%s%s); hosts and the CLI catch only '
                   'YaqlParsingException' % (
                       e.construct, e.cls.replace('builtins.', ''), e.origin,
                       (' via ' + ' -> '.join(e.via)) if e.via else ''),
                   loc=e.loc, construct=e.construct)
    nparts = len(an.partial_sites)
    rep.count(parse_path_functions=len(an.scope), entry_points=len(entries),
              partial_operation_sites=nparts,
              explicit_raises=len(an.raise_sites))
    rep.extra_cov['partial_operation_sites'] = [
        {'function': fi.key, 'construct': model.norm(n)[:80],
         'failure': list(cl), 'guard': how}
        for fi, n, cl, how in an.partial_sites][:40]
    rep.floor('partial-operation sites catalogued', nparts, 2)
    rep.floor('entry points (token/grammar/engine)', len(entries), 26)
    check_hooks(repo, rep, an)
    check_no_recursion(repo, rep, an)
    check_positions(repo, rep, an)
    check_input_is_the_text(repo, rep)
    check_token_regexes_terminate(repo, rep)
