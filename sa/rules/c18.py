"""C18 -- concurrent evaluations do not interfere.

Sufficient condition: no per-call information is ever stored in a location
that outlives the call.
"""
import ast

from sa import effects
from sa import model
from sa import norm
from sa import origins
from sa import universe as unimod
from sa.rules import c09

TITLE = 'no per-call data stored in shared objects or globals'

PERCALL = ('param', 'derived', 'ctx', 'ctxchild', 'ctxdata', 'lazy',
           'lazyres', 'hidden', 'ctxattr')

CONTEXT_WRITE_API = {'register_function', 'delete_function', '__setitem__',
                     '__delitem__', '__init__'}

HOSTAPI_GLOBALS = {
    ('yaql', '_cached_engine'):
        'lazily initialised engine; value does not depend on the call',
    ('yaql', '_default_context'):
        'lazily initialised default context; value does not depend on the '
        'call; every call evaluates in its own child',
    ('yaql', '_cached_expressions'):
        'memo keyed by the whole expression text (parse is a function of '
        'the text, C01)',
}


_callers_cache = {}


def construction_only_methods(repo, ci):
    """Methods of ci that run only as part of constructing an instance:
    every call site `<x>.name(...)` in the repository is in __init__ of the
    class or in another such method (helpers __init__ was split into)."""
    if 'idx' not in _callers_cache:
        idx = {}
        for f in repo.all_functions():
            for c in model.calls_in(f.node, shallow=True):
                if isinstance(c.func, ast.Attribute):
                    idx.setdefault(c.func.attr, []).append((f, c))
                elif isinstance(c.func, ast.Name):
                    idx.setdefault(c.func.id, []).append((f, c))
        _callers_cache['idx'] = idx
    idx = _callers_cache['idx']
    ok = {'__init__'}
    changed = True
    while changed:
        changed = False
        for name, m in ci.methods.items():
            if name in ok or name.startswith('__'):
                continue
            sites = idx.get(name, [])
            if sites and all(
                    f.cls is ci and f.name in ok and isinstance(
                        c.func, ast.Attribute) and isinstance(
                        c.func.value, ast.Name) and
                    c.func.value.id == 'self' for f, c in sites):
                ok.add(name)
                changed = True
    return ok


def stateful_classes(repo, uni):
    """Classes with a non-constructor method that stores into self."""
    out = {}
    for ci in repo.all_classes():
        if ci.module.name in ('yaql.language.contexts',) or \
                ci.module.name.startswith('yaql.cli'):
            continue
        construct = construction_only_methods(repo, ci)
        for name, m in ci.methods.items():
            if name in construct:
                continue
            if hasattr(uni, 'role') and uni.role(m) in (
                    'construction', 'hostapi', 'register', 'cli'):
                continue
            env = uni.env(m)
            for w in effects.writes_in(m.node):
                if w.kind == 'aug-name':
                    continue
                tags = env.ev(w.target).tags
                if any(t[0] in ('self', 'selfattr') for t in tags):
                    if w.kind in ('attr', 'aug-attr') and \
                            idempotent_memo(env, w)[0] and \
                            ci.module.name.startswith('yaql.language') and \
                            m.parent_func is None and \
                            ci.node in ci.module.tree.body:
                        continue   # memo on a module-level core class
                    out.setdefault(ci.key, (ci, []))[1].append(
                        '%s: %s' % (name, model.norm(w.node)[:60]))
    return out


def idempotent_memo(env, w):
    val = env.ev(w.value) if w.value is not None else origins.Val()
    dep = [t for t in val.tags | val.c1 if t[0] in PERCALL]
    return not dep, dep


def check_r18a(repo, rep, uni, local):
    local_classes = set(local)
    n = 0
    for fi, role in uni.evaluation_time():
        mod = fi.module.name
        if mod in ('yaql.language.lexer', 'yaql.language.parser'):
            continue    # parse path: C01
        if role == 'init':
            continue
        env = uni.env(fi)
        in_local_class = fi.cls is not None and fi.cls.key in local_classes
        for w in effects.writes_in(fi.node):
            if w.kind in ('aug-name',):
                continue
            site = fi.key
            construct = model.norm(w.node)
            loc = fi.module.loc(w.node)
            if w.kind in ('global', 'nonlocal'):
                n += 1
                if w.kind == 'nonlocal':
                    # a cell of the enclosing call: per call unless the
                    # enclosing function is module level construction
                    rep.ob('R18a', site, True, 'nonlocal cell of the '
                           'enclosing call', loc=loc, construct=construct)
                    continue
                key = (fi.module.name, model.norm(w.target))
                # listed lazily initialised globals: assigned only when
                # still None, with a value that does not depend on the call
                gname = model.norm(w.target)
                lazy_init = norm.literal_polarity(
                    w.node, fi.node, lambda e: isinstance(e, ast.Compare)
                    and len(e.ops) == 1 and isinstance(e.ops[0], ast.Is) and
                    model.norm(e.left) == gname and isinstance(
                        e.comparators[0], ast.Constant) and
                    e.comparators[0].value is None) is True
                indep = w.value is None or not (
                    {x.id for x in ast.walk(w.value)
                     if isinstance(x, ast.Name)} & set(fi.params()))
                ok = key in HOSTAPI_GLOBALS and lazy_init and indep
                rep.ob('R18b', '%s/global[%s]' % (site,
                                                  model.norm(w.target)), ok,
                       ('listed: ' + HOSTAPI_GLOBALS[key]) if ok else
                       'evaluation-time code rebinds module global %s: '
                       'shared by every thread and evaluation' %
                       model.norm(w.target), loc=loc, construct=construct)
                continue
            v = env.ev(w.target)
            tags = v.tags
            gl = [t for t in tags if t[0] == 'global']
            if gl:
                n += 1
                key = (fi.module.name, gl[0][1])
                ok = key in HOSTAPI_GLOBALS and w.kind == 'subscript' and \
                    isinstance(w.key, ast.Name) and w.key.id in fi.params()
                rep.ob('R18b', '%s/global-object[%s]' % (site, gl[0][1]), ok,
                       ('listed: ' + HOSTAPI_GLOBALS[key]) if ok else
                       'evaluation-time code writes into module-level '
                       'object %s (module globals, class attributes and '
                       'module-level containers are shared by all '
                       'evaluations)' % gl[0][1], loc=loc,
                       construct=construct)
                continue
            selfish = [t for t in tags if t[0] in ('self', 'selfattr')]
            if selfish:
                n += 1
                if in_local_class:
                    rep.ob('R18a', site, True, 'state of a call-local lazy '
                           'object (R18c checks where it is instantiated)',
                           loc=loc, construct=construct)
                    continue
                if mod == 'yaql.language.contexts' and \
                        fi.name in CONTEXT_WRITE_API:
                    rep.ob('R18a', site, True, 'context write API (callers '
                           'are constrained by R09c)', loc=loc,
                           construct=construct, nontrivial=False)
                    continue
                if mod == 'yaql.yaql_interface' and fi.name == '__setitem__':
                    rep.ob('R18a', site, True, 'host API: explicit write '
                           'by the host', loc=loc, construct=construct,
                           nontrivial=False)
                    continue
                memo, dep = idempotent_memo(env, w)
                rep.ob('R18a', site, memo and w.kind in (
                    'attr', 'aug-attr'),
                    'idempotent memo depending only on the object' if (
                        memo and w.kind in ('attr', 'aug-attr')) else
                    'method of a shared object writes into a container it '
                    'holds on self' if memo else 'method of a shared object stores per-call data '
                    '(%s) on self: another thread evaluating the same '
                    'statement / definition sees it' % sorted(dep),
                    loc=loc, construct=construct)
                continue
            hidden = [t for t in tags if t[0] == 'hidden']
            if hidden:
                n += 1
                rep.ob('R18a', site, False,
                       'write into an injected shared object (%s)' %
                       hidden, loc=loc, construct=construct)
                continue
            data = [t for t in tags if t[0] in ('param', 'derived')]
            if data and mod.startswith('yaql.language') and any(
                    c.startswith('.') for c in w.chain) and \
                    w.kind != 'attr':
                # a field of an object received as parameter in core code:
                # definitions, smart types, mappings are shared
                n += 1
                rep.ob('R18a', site, False,
                       'core code mutates a field of an object it received '
                       '(%s): definitions/smart types/nodes are shared '
                       'between evaluations' % model.norm(w.target),
                       loc=loc, construct=construct)
                continue
            # mutable default argument
            if w.root is not None:
                a = fi.node.args
                pos = a.posonlyargs + a.args
                defaults = [None] * (len(pos) - len(a.defaults)) + list(
                    a.defaults)
                for p, d in list(zip(pos, defaults)) + list(
                        zip(a.kwonlyargs, a.kw_defaults)):
                    if p.arg == w.root and d is not None and isinstance(
                            d, (ast.List, ast.Dict, ast.Set, ast.Call)) and \
                            p.arg not in {s.targets[0].id for s in
                                          env.killed}:
                        n += 1
                        rep.ob('R18b', '%s/mutable-default[%s]' % (
                            site, p.arg), False,
                            'write through parameter %s whose default is a '
                            'mutable object created once at import' % p.arg,
                            loc=loc, construct=construct)
    return n


FACTORY_TAKERS = ('functools.partial', 'builtins.map',
                  'itertools.starmap', 'functools.cmp_to_key')


def instantiation_sites(repo, uni, ci):
    """(module, call node, where) for every constructor call of ci; where is
    'evaluation' | 'construction' | 'module-level' | 'default-argument'."""
    out = []
    dotted = ci.dotted
    for mod in repo.modules.values():
        for node in ast.walk(mod.tree):
            if isinstance(node, ast.Call):
                ref = node.func
            elif isinstance(node, (ast.Name, ast.Attribute)) and \
                    isinstance(node.ctx, ast.Load):
                # the class handed on as a factory: key=Cls,
                # functools.partial(Cls, ...), map(Cls, ...): whoever
                # receives it instantiates it there
                par = getattr(node, '_parent', None)
                if isinstance(par, ast.keyword):
                    if par.arg != 'key':
                        continue
                elif not (isinstance(par, ast.Call) and par.args and
                          par.args[0] is node and repo.resolve(
                              mod, par.func) in FACTORY_TAKERS):
                    continue
                ref = node
            else:
                continue
            d = repo.resolve(mod, ref)
            if d != dotted and not (
                    mod is ci.module and isinstance(ref, ast.Name)
                    and ref.id == ci.qualname.split('.')[-1]):
                continue
            # functools.partial(Cls, ...) bound to a local: instances are
            # made where that local is called, not where it is built
            par = getattr(node, '_parent', None)
            if not isinstance(node, ast.Call) and isinstance(
                    par, ast.Call) and repo.resolve(
                        mod, par.func) == 'functools.partial':
                asg = getattr(par, '_parent', None)
                scope = model.enclosing(par, (ast.FunctionDef,
                                              ast.AsyncFunctionDef))
                if isinstance(asg, ast.Assign) and len(
                        asg.targets) == 1 and isinstance(
                        asg.targets[0], ast.Name) and scope is not None:
                    nm = asg.targets[0].id
                    uses = [c for c in ast.walk(scope)
                            if isinstance(c, ast.Call) and isinstance(
                                c.func, ast.Name) and c.func.id == nm]
                    loads = [x for x in ast.walk(scope)
                             if isinstance(x, ast.Name) and x.id == nm and
                             isinstance(x.ctx, ast.Load)]
                    if uses and len(uses) == len(loads):
                        for u in uses:
                            out.append((mod, u, _where(repo, uni, mod, u)))
                        continue
            out.append((mod, node, _where(repo, uni, mod, node)))
    return out


def _where(repo, uni, mod, node):
            f = model.enclosing(node, (ast.FunctionDef,
                                       ast.AsyncFunctionDef))
            in_default = False
            p = node
            while p is not None and not isinstance(
                    p, (ast.FunctionDef, ast.Lambda)):
                par = getattr(p, '_parent', None)
                if isinstance(par, ast.arguments):
                    in_default = True
                p = par
            # decorators run at import
            in_decorator = False
            if f is not None:
                p = node
                while p is not None and p is not f:
                    par = getattr(p, '_parent', None)
                    if par is f and any(p is dd for dd in f.decorator_list):
                        in_decorator = True
                    p = par
            if in_default:
                where = 'default-argument'
            elif f is None or in_decorator and model.enclosing(
                    f, (ast.FunctionDef, ast.AsyncFunctionDef)) is None:
                where = 'module-level'
            else:
                fi = None
                for cand in mod.functions.values():
                    if cand.node is f:
                        fi = cand
                role = uni.role(fi) if fi is not None and hasattr(
                    uni, 'role') else 'helper'
                where = 'construction' if role in (
                    'construction', 'register', 'hostapi', 'cli',
                    'parse') else 'evaluation'
            return where


def _confined(node):
    """Is the instance made by this constructor call bound to one local
    name that is only ever used as the receiver of attribute accesses
    (x.method(..), x.field) in the function that made it?  Such an
    instance lives and dies inside one call of that function, whatever the
    function's role."""
    par = getattr(node, '_parent', None)
    if not (isinstance(node, ast.Call) and isinstance(par, ast.Assign) and
            len(par.targets) == 1 and isinstance(par.targets[0], ast.Name)
            and par.value is node):
        return False
    scope = model.enclosing(node, (ast.FunctionDef, ast.AsyncFunctionDef))
    if scope is None:
        return False
    nm = par.targets[0].id
    if nm in {a.arg for a in scope.args.posonlyargs + scope.args.args +
              scope.args.kwonlyargs} or any(
            isinstance(x, (ast.Global, ast.Nonlocal)) and nm in x.names
            for x in ast.walk(scope)):
        return False
    for x in ast.walk(scope):
        if not (isinstance(x, ast.Name) and x.id == nm):
            continue
        if model.enclosing(x, (ast.FunctionDef, ast.AsyncFunctionDef,
                               ast.Lambda)) is not scope:
            return False        # captured by a closure
        if isinstance(x.ctx, ast.Store):
            if x is not par.targets[0]:
                return False
        elif isinstance(x.ctx, ast.Load):
            p = getattr(x, '_parent', None)
            if not (isinstance(p, ast.Attribute) and p.value is x):
                return False
        else:
            return False
    return True


def split_stateful(repo, uni, stateful):
    """call-local classes (every instance is born inside an evaluation-time
    function body) vs. shared ones."""
    local, shared = {}, {}
    for key, (ci, why) in stateful.items():
        sites = instantiation_sites(repo, uni, ci)
        bad = [s for s in sites if s[2] != 'evaluation' and
               not _confined(s[1])]
        outer = model.enclosing(ci.node, (ast.FunctionDef,
                                          ast.AsyncFunctionDef))
        born_in_call = False
        if outer is not None:
            for cand in ci.module.functions.values():
                if cand.node is outer and (not hasattr(uni, 'role') or
                                           uni.role(cand) not in (
                        'construction', 'register', 'hostapi', 'cli')):
                    born_in_call = True   # the class object itself is
                    #                       created per call
        if (sites or born_in_call) and not bad:
            local[key] = (ci, why, sites)
        else:
            shared[key] = (ci, why, sites)
    return local, shared


def check_r18c(repo, rep, uni, local, shared):
    n = 0
    for key, (ci, why, sites) in sorted(local.items()):
        rep.ob('R18c', key, True, '%d instantiation sites, all inside '
               'evaluation-time function bodies or confined to a local of '
               'the function that makes the instance' % len(sites))
    for key, (ci, why, sites) in sorted(shared.items()):
        for mod, node, where in sites:
            if where == 'evaluation':
                continue
            n += 1
            rep.ob('R18c', '%s/instantiated[%s]' % (key, where), False,
                   'class %s stores into self after construction (%s) and '
                   'is instantiated at %s: that instance is shared by all '
                   'evaluations' % (ci.qualname, why[0], where),
                   loc=mod.loc(node), construct=model.norm(node))
        if not sites:
            rep.ob('R18c', key, True, 'never instantiated in the library',
                   nontrivial=False)
    return n


ONE_SHOT_BUILDERS = (
    'builtins.map', 'builtins.filter', 'builtins.zip', 'builtins.iter',
    'builtins.enumerate', 'builtins.reversed', 'itertools.chain',
    'itertools.chain.from_iterable', 'itertools.islice',
    'itertools.starmap', 'itertools.filterfalse', 'itertools.takewhile',
    'itertools.dropwhile', 'itertools.accumulate', 'itertools.compress',
    'itertools.zip_longest', 'itertools.groupby', 'itertools.pairwise',
    'itertools.product', 'itertools.permutations', 'itertools.combinations')


def check_no_captured_iterators(repo, rep, rule='R18h', modules=None):
    """A nested function (or lambda) that is handed out of the call that
    defines it -- returned, stored on an object, registered -- and reads a
    variable of that call bound to a one-shot iterator (map / filter / zip /
    a generator expression ...) shares one cursor among all its later calls:
    the first call consumes what the next one needs, so the function's
    answer depends on how often it ran before (and on other threads).  A
    closure that is only called inside the defining call is exempt."""
    n = 0
    for fi in repo.all_functions():
        if modules is not None and fi.module.name not in modules:
            continue
        inner = [g for g in fi.module.functions.values()
                 if g.parent_func is fi]
        lambdas = [x for x in model.walk_shallow(fi.node)
                   if isinstance(x, ast.Lambda)]
        if not inner and not lambdas:
            continue
        shots = {}
        for st in model.walk_shallow(fi.node):
            if isinstance(st, ast.Assign) and len(st.targets) == 1 and \
                    isinstance(st.targets[0], ast.Name):
                v = st.value
                if isinstance(v, ast.GeneratorExp) or (
                        isinstance(v, ast.Call) and repo.resolve(
                            fi.module, v.func, model.scope_locals(fi))
                        in ONE_SHOT_BUILDERS):
                    shots[st.targets[0].id] = st
        # rebound elsewhere to something re-iterable: not decided here
        for nm in list(shots):
            stores = [x for x in model.walk_shallow(fi.node)
                      if isinstance(x, ast.Name) and x.id == nm and
                      isinstance(x.ctx, ast.Store)]
            if len(stores) != 1:
                del shots[nm]
        if not shots:
            continue
        for g in [x.node for x in inner] + lambdas:
            own = model.local_names_of(g) if not isinstance(
                g, ast.Lambda) else {a.arg for a in g.args.args}
            used = {x.id for x in ast.walk(g) if isinstance(x, ast.Name) and
                    isinstance(x.ctx, ast.Load)} - own
            hit = sorted(used & set(shots))
            if not hit:
                continue
            # does the closure leave the call?
            name = getattr(g, 'name', None)
            escapes = False
            if name is None:
                par = getattr(g, '_parent', None)
                escapes = not (isinstance(par, ast.Call) and par.func is g)
                # a lambda passed to a consumer inside the call
                if isinstance(par, ast.Call) and g in par.args and \
                        repo.resolve(fi.module, par.func,
                                     model.scope_locals(fi)) in (
                            'builtins.sorted', 'builtins.min',
                            'builtins.max', 'builtins.any', 'builtins.all',
                            'builtins.list', 'builtins.tuple'):
                    escapes = False
            else:
                for x in model.walk_shallow(fi.node):
                    if isinstance(x, ast.Name) and x.id == name and \
                            isinstance(x.ctx, ast.Load):
                        par = getattr(x, '_parent', None)
                        if not (isinstance(par, ast.Call) and
                                par.func is x):
                            escapes = True
            if not escapes:
                continue
            for nm in hit:
                n += 1
                rep.ob(rule, '%s/%s captures %s' % (
                    fi.key, name or 'lambda', nm), False,
                    '`%s` is a one-shot iterator (%s) made once per call of '
                    '%s, and the function `%s`, which is handed out of that '
                    'call, reads it every time it runs: the first run '
                    'consumes what later runs (and other threads) need' % (
                        nm, model.norm(shots[nm].value)[:60], fi.qualname,
                        name or 'lambda'),
                    loc=fi.module.loc(shots[nm]),
                    construct=model.norm(shots[nm])[:120])
    if not n:
        rep.ob(rule, 'closures/no-captured-iterator', True,
               'no escaping closure reads a one-shot iterator of the call '
               'that made it')
    return n


PROCESS_SETTERS = (
    'sys.setrecursionlimit', 'sys.set_int_max_str_digits',
    'sys.setswitchinterval', 'sys.settrace', 'sys.setprofile',
    'sys.set_asyncgen_hooks', 'os.chdir', 'os.putenv', 'os.unsetenv',
    'os.umask', 'locale.setlocale', 'signal.signal',
    'socket.setdefaulttimeout', 'random.seed', 'decimal.setcontext',
    'gc.disable', 'gc.enable', 'gc.set_threshold', 'threading.settrace',
    'threading.setprofile', 'warnings.simplefilter',
    'warnings.filterwarnings', 'time.tzset')
PROCESS_OBJECTS = ('os.environ', 'sys.path', 'sys.modules', 'sys.argv',
                   'sys.flags')


def process_global_writes(repo, mod, fnode, locals_=()):
    out = []
    for c in ast.walk(fnode):
        if isinstance(c, ast.Call):
            d = repo.resolve(mod, c.func, locals_)
            if d in PROCESS_SETTERS:
                out.append((c, d))
    for w in effects.writes_in(fnode):
        tgt = w.target
        base = tgt
        while isinstance(base, (ast.Subscript, ast.Attribute)):
            d = repo.resolve(mod, base, locals_) if isinstance(
                base, ast.Attribute) else None
            if d in PROCESS_OBJECTS:
                out.append((w.node, d))
                break
            base = base.value
    return out


def check_no_process_global_setters(repo, rep, rule):
    """Interpreter-wide settings (integer digit limit, recursion limit,
    environment, locale ...) are one per process: code that sets one, even
    "temporarily" with a restore in `finally`, is a write to state shared by
    every thread and every engine -- two overlapping uses restore each
    other's value."""
    n = 0
    for mod in repo.modules.values():
        if mod.name.startswith('yaql.cli'):
            continue
        for fi in mod.functions.values():
            if fi.parent_func is not None:
                continue
            n += 1
            for node, what in process_global_writes(
                    repo, mod, fi.node, model.scope_locals(fi)):
                rep.ob(rule, '%s/%s' % (fi.key, what), False,
                       '`%s` changes %s, a setting of the whole process: '
                       'concurrent parses / evaluations (and the host '
                       'application) see it change under them, and two '
                       'overlapping save-and-restore pairs leave the wrong '
                       'value behind' % (model.norm(node)[:70], what),
                       loc=mod.loc(node), construct=model.norm(node)[:120])
    from sa.rules import c09
    fm = c09.load_fixture(repo, 'c18_globals_fixture.py')
    flagged = {f.name for f in fm.functions.values()
               if f.parent_func is None and process_global_writes(
                   repo, fm, f.node, model.scope_locals(f))}
    rep.ob(rule, 'fixtures/c18_globals_fixture.py/positive-control',
           flagged == {'bad_unlimited_digits', 'bad_environment'},
           'positive control: expected the two bad_* functions flagged and '
           'ok_reads_only silent; flagged %s' % sorted(flagged))
    rep.ob(rule, 'library', True, '%d functions scanned' % n,
           nontrivial=True)


def check_r18e(repo, rep, uni):
    """Every evaluate() issued by the library / host API itself runs in a
    private child of the shared context."""
    n = 0
    for fi, role in uni.evaluation_time():
        if fi.module.name.startswith('yaql.cli'):
            continue
        env = uni.env(fi)
        for call in model.calls_in(fi.node, shallow=True):
            if not (isinstance(call.func, ast.Attribute) and
                    call.func.attr == 'evaluate'):
                continue
            if fi.cls is not None and fi.params() and isinstance(
                    call.func.value, ast.Name) and \
                    call.func.value.id == fi.params()[0] and \
                    'evaluate' in fi.cls.methods and \
                    fi.cls.node.name != 'Statement':
                continue     # a method of the same name on another class
            ctx = None
            for k in call.keywords:
                if k.arg == 'context':
                    ctx = k.value
            if ctx is None and len(call.args) > 1:
                ctx = call.args[1]
            if ctx is None:
                continue
            n += 1
            v = env.ev(ctx)
            shared = [t for t in v.tags if t[0] in ('global', 'selfattr',
                                                    'self')]
            rep.ob('R18e', '%s/evaluate-context' % fi.key, not shared,
                   'evaluate() is given the shared context %s itself (%s): '
                   'Statement.evaluate binds `$` in the context it is '
                   'given, so concurrent calls overwrite each other\'s '
                   'input; pass <context>.create_child_context()' % (
                       model.norm(ctx), sorted(shared)),
                   loc=fi.module.loc(call), construct=model.norm(call))
    rep.floor('library evaluate() call sites', n, 2)


def positive_control(repo, rep, uni, stateful):
    from sa import report as repmod
    m = c09.load_fixture(repo, 'c18_fixture.py')
    tmp = repmod.Report('C18-fixture', 'quick')
    repo.modules[m.name] = m
    try:
        funcs = list(m.functions.values())
        fu = FixtureUniverse(uni, funcs)
        st = stateful_classes(repo, uni)
        st = {k: v for k, v in st.items() if k.startswith('fixtures.')}
        loc, sh = split_stateful(repo, fu, st)
        check_r18a(repo, tmp, fu, loc)
        check_r18c(repo, tmp, fu, loc, sh)
    finally:
        del repo.modules[m.name]
        for f in m.functions.values():
            uni._envs.pop(f.key, None)
    flagged = set()
    for v in tmp.violations:
        flagged.add(v['site'].split(':')[-1].split('/')[0])
    want = {'bad_global_list', 'bad_global_rebind', 'bad_default',
            'Scratch'}
    rep.ob('R18b', 'fixtures/c18_fixture.py/positive-control',
           want <= flagged and not any(x.startswith('ok_') for x in flagged),
           'positive control: expected %s flagged, ok_* silent; flagged %s'
           % (sorted(want), sorted(flagged)))


class FixtureUniverse:
    def __init__(self, uni, funcs):
        self.uni = uni
        self.funcs = funcs

    def role(self, fi):
        return 'helper'

    def evaluation_time(self):
        return [(f, 'helper') for f in self.funcs]

    def env(self, fi):
        return self.uni.env(fi)


def run(repo, rep):
    rep.rule('R18a', 'NO-PER-CALL-TAINT-INTO-SHARED-OBJECTS: no store on '
             'self of a shared class (nodes, definitions, smart types, '
             'engine, context read API), on injected shared objects, or on '
             'fields of received objects in core code, unless the value '
             'depends only on the object (idempotent memo)')
    rep.rule('R18b', 'NO-GLOBAL-WRITES: no global rebinding, no write into '
             'module-level objects / class attributes / mutable defaults in '
             'evaluation-time code (yaql.eval caches listed with reason)')
    rep.rule('R18e', 'PRIVATE-CHILD: evaluate() calls issued by the library '
             '/ host API pass a child context, never a shared one')
    rep.rule('R18h', 'NO-CAPTURED-ITERATORS: no function that outlives the '
             'call that made it reads a one-shot iterator of that call')
    check_no_captured_iterators(repo, rep)
    rep.rule('R18c', 'STATEFUL-LAZY-OBJECTS-ARE-CALL-LOCAL: classes whose '
             'methods store to self after construction are instantiated '
             'only inside function bodies')
    rep.trusted += ['CPython makes individual attribute/dict reads atomic',
                    'context discipline is R09c; parse side is C01']
    rep.explanation = (
        'Effect analysis of every evaluation-time function: each write site '
        'is classified by the origin of the written object; per-call '
        'information may only be written into objects created in the call '
        '(locals, fresh containers, the call\'s child context, call-local '
        'lazy objects). With no shared mutable location written during '
        'evaluation, concurrent evaluations cannot interfere for any '
        'schedule.')
    uni = unimod.Universe(repo)
    stateful = stateful_classes(repo, uni)
    positive_control(repo, rep, uni, stateful)
    local, shared = split_stateful(repo, uni, stateful)
    n = check_r18a(repo, rep, uni, local)
    check_r18c(repo, rep, uni, local, shared)
    check_r18e(repo, rep, uni)
    rep.rule('R18g', 'NO-PROCESS-GLOBAL-SETTERS: no library code sets an '
             'interpreter-wide setting (sys.set*, os.environ, locale, '
             'signal ...)')
    check_no_process_global_setters(repo, rep, 'R18g')
    # data that two evaluations can both reach (a document, values stored
    # in a shared context) is shared state too: no in-place write on
    # argument data (decided by C09's rule)
    from sa.rules import c09
    rep.rule('R09a', 'see C09: no in-place write on a value reachable from '
             'an argument (the data two evaluations may share)')
    eff = c09.Effects(repo, uni)
    c09.check_r09a(repo, rep, uni, eff, c09.r09a_scope(uni))
    # a lambda stored by def() in a prepared context is reachable from every
    # evaluation: the scope its arguments are published into must be made
    # per invocation
    from sa.rules import c04
    rep.rule('R04b', 'see C04: the callable built for a lambda publishes '
             'its arguments into a child context created per invocation')
    c04.check_r04b(repo, rep)
    funcs = uni.evaluation_time()
    rep.count(evaluation_time_functions=len(funcs), classified_writes=n,
              stateful_classes=sorted(stateful))
    rep.floor('evaluation-time functions', len(funcs), 500)
    rep.floor('stateful call-local classes', len(local), 3)
