"""C04 (scope-discipline clauses) -- each call runs in a fresh child
context, lambdas evaluate in a child of their defining context, writers write
their own context."""
import ast

from sa import cfg as cfgmod
from sa import effects
from sa import model
from sa import universe as unimod
from sa.model import AnalysisError
from sa.rules import c09
from sa.rules import c17
from sa.rules.c17 import tri, reachable_with

TITLE = 'scope discipline: fresh child per call, lexical lambdas'

SPECS = 'yaql.language.specs'
YT = 'yaql.language.yaqltypes'


def child_of(expr, name):
    """expr is `<name>.create_child_context()`"""
    return isinstance(expr, ast.Call) and isinstance(
        expr.func, ast.Attribute) and expr.func.attr == \
        'create_child_context' and isinstance(
        expr.func.value, ast.Name) and expr.func.value.id == name and \
        not expr.args


def check_r04a(repo, rep):
    mod = repo.module(SPECS)
    gd = mod.func('FunctionDefinition.get_delegate')
    ctx_param = None
    for p in gd.params():
        if p == 'context':
            ctx_param = p
    if ctx_param is None:
        raise AnalysisError('get_delegate lost its context parameter')
    # the function that performs the payload call
    callers = []
    for q, f in mod.functions.items():
        top = f
        while top.parent_func is not None:
            top = top.parent_func
        if top is not gd and f is not gd:
            continue
        for c in model.calls_in(f.node, shallow=True):
            if isinstance(c.func, ast.Attribute) and c.func.attr == \
                    'payload' and isinstance(c.func.value, ast.Name) and \
                    c.func.value.id == 'self':
                callers.append((f, c))
    rep.ob('R04a', gd.key + '/payload-call', len(callers) == 1,
           'expected exactly one call of self.payload inside get_delegate, '
           'found %d' % len(callers), loc=mod.loc(gd.node))
    for f, call in callers:
        rep.ob('R04a', gd.key + '/per-invocation', f is not gd,
               'the payload must be called from the returned thunk, not '
               'while the delegate is being built', loc=mod.loc(call))
        # names handed to the argument thunks
        ctx_names = set()
        for n in ast.walk(call):
            if isinstance(n, ast.Call) and n is not call and n.args and \
                    isinstance(n.args[0], ast.Name) and isinstance(
                        n.func, (ast.Name, ast.Subscript)) and \
                    not isinstance(n.func, ast.Attribute):
                fn = n.func.id if isinstance(n.func, ast.Name) else None
                if fn in ('tuple', 'dict', 'map', 'list'):
                    continue
                ctx_names.add(n.args[0].id)
        rep.ob('R04a', gd.key + '/thunks-get-a-context', bool(ctx_names),
               'no context is handed to the argument converters',
               loc=mod.loc(call))
        g = cfgmod.CFG(f.node)
        use = g.node_of(call)
        for name in sorted(ctx_names):
            defs = cfgmod.reaching_defs(g, use, name) if use else []
            ok = bool(defs) and all(
                d is not g.entry and isinstance(d.ast, ast.Assign) and
                child_of(d.ast.value, ctx_param) for d in defs)
            rep.ob('R04a', gd.key + '/fresh-child[%s]' % name, ok,
                   'the context `%s` in which arguments are converted and '
                   'the payload runs must be created by '
                   '%s.create_child_context() inside the thunk, once per '
                   'invocation; its reaching definitions are %s: bindings '
                   'made by the callee (let, def, $-parameters) would '
                   'leak into the caller\'s scope or between calls' % (
                       name, ctx_param, [model.norm(d.ast) if d.ast else
                                         'parameter/closure' for d in defs]
                       or 'outside the thunk'), loc=mod.loc(call))
    # convert_arg_func hands *its* context to value_type.convert
    for q, f in mod.functions.items():
        if f.name == 'convert_arg_func':
            p = f.params()[0]
            ok = False
            for c in model.calls_in(f.node):
                if isinstance(c.func, ast.Attribute) and \
                        c.func.attr == 'convert' and len(c.args) >= 3:
                    ok = isinstance(c.args[2], ast.Name) and \
                        c.args[2].id == p
            rep.ob('R04a', f.key, ok,
                   'the argument converter must convert in the context it '
                   'is given (the fresh child), not a captured one',
                   loc=mod.loc(f.node))


def check_r04b(repo, rep):
    mod = repo.module(YT)
    conv = mod.func('Lambda.convert')
    fn = mod.functions.get('Lambda.convert.func')
    if fn is None:
        raise AnalysisError('anchor vanished: Lambda.convert.func')
    cparam = 'context'
    if cparam not in conv.params():
        raise AnalysisError('Lambda.convert lost its context parameter')
    # every assignment of the context handed to _call
    calls = [c for c in model.calls_in(fn.node, shallow=True)
             if isinstance(c.func, ast.Attribute) and c.func.attr == '_call']
    rep.ob('R04b', fn.key + '/calls-_call', len(calls) == 1 and len(
        calls[0].args) >= 3 and isinstance(calls[0].args[2], ast.Name),
        'the lambda callable must evaluate through self._call(value, '
        'receiver, <context>, ...)', loc=mod.loc(fn.node))
    if not calls or len(calls[0].args) < 3 or not isinstance(
            calls[0].args[2], ast.Name):
        return
    cname = calls[0].args[2].id
    g = cfgmod.CFG(fn.node)
    n = 0
    for wc in (False, True):
        reach = reachable_with(g, {})
        for nd in g.nodes:
            if nd.kind != 'stmt' or not isinstance(nd.ast, ast.Assign):
                continue
            tgt = nd.ast.targets[0]
            val = nd.ast.value
            value = None
            if isinstance(tgt, ast.Name) and tgt.id == cname:
                value = val
            elif isinstance(tgt, ast.Tuple) and isinstance(val, ast.Tuple):
                for t, v in zip(tgt.elts, val.elts):
                    if isinstance(t, ast.Name) and t.id == cname:
                        value = v
            elif isinstance(tgt, ast.Tuple) and any(
                    isinstance(t, ast.Name) and t.id == cname
                    for t in tgt.elts):
                value = val        # new_receiver, new_context = args[:2]
            if value is None:
                continue
            # under which with_context value is this assignment reachable?
            conds = []
            p = nd.ast
            while p is not None and p is not fn.node:
                par = getattr(p, '_parent', None)
                if isinstance(par, ast.If):
                    in_body = any(p is s for s in par.body)
                    conds.append((par.test, in_body))
                p = par

            def holds(env):
                for test, pos in conds:
                    # elif chains: the negations of earlier tests are
                    # implied by nesting in orelse
                    v = tri_attr(test, env)
                    if v is None:
                        continue
                    if v != pos:
                        return False
                return True
            if wc is False and holds({'with_context': False}):
                n += 1
                ok = child_of(value, cparam)
                rep.ob('R04b', fn.key + '/lexical-scope', ok,
                       'when the lambda is not given an explicit context '
                       'it must evaluate in a child of the context it was '
                       'created in (%s.create_child_context()); this branch '
                       'uses %s: `$`/named arguments would be published '
                       'into, and free variables resolved in, the wrong '
                       'scope' % (cparam, model.norm(value)),
                       loc=mod.loc(nd.ast), construct=model.norm(nd.ast))
            if wc is True and holds({'with_context': True}) and \
                    not holds({'with_context': False}):
                n += 1
                ok = 'args' in model.names_loaded(value) or child_of(
                    value, cparam)
                rep.ob('R04b', fn.key + '/explicit-context', ok,
                       'with with_context the context is the caller\'s '
                       'explicit first argument', loc=mod.loc(nd.ast))
    rep.floor('lambda context branches', n, 4)


def tri_attr(test, env):
    """tri() with `self.<name>` looked up like a plain name."""
    class Rw(ast.NodeTransformer):
        def visit_Attribute(self, node):
            if isinstance(node.value, ast.Name) and node.value.id == 'self':
                return ast.copy_location(ast.Name(id=node.attr,
                                                  ctx=ast.Load()), node)
            return node
    import copy
    t = Rw().visit(copy.deepcopy(test))
    return tri(t, env)


def check_r04c(repo, rep):
    mod = repo.module(YT)
    pub = mod.func('Lambda._publish_params')
    ctx = pub.params()[0] if not pub.is_method else pub.params()[0]
    ps = pub.params()
    cname = 'context' if 'context' in ps else ps[0]
    stores = [w for w in effects.writes_in(pub.node)
              if w.kind in ('subscript',)]
    ok = bool(stores) and all(w.root == cname and not w.chain
                              for w in stores)
    rep.ob('R04c', pub.key, ok,
           '_publish_params must store $1..$n / $name into the context it '
           'is given and nowhere else', loc=mod.loc(pub.node))
    keys_ok = all('$' in model.norm(w.key) for w in stores)
    rep.ob('R04c', pub.key + '/names', keys_ok,
           'arguments are published as $<index> / $<name>',
           loc=mod.loc(pub.node))
    call = mod.func('Lambda._call')
    cps = call.params()
    ok1 = ok2 = False
    for c in model.calls_in(call.node, shallow=True):
        if isinstance(c.func, ast.Attribute) and \
                c.func.attr == '_publish_params' and c.args:
            ok1 = isinstance(c.args[0], ast.Name) and \
                c.args[0].id == 'context'
        if len(c.args) == 3 and isinstance(c.args[1], ast.Name) and \
                c.args[1].id == 'context' and isinstance(
                    c.func, ast.Name) and c.func.id == cps[1]:
            ok2 = True
    g = cfgmod.CFG(call.node)
    rep.ob('R04c', call.key, ok1 and ok2,
           '_call must publish the arguments into, and evaluate the '
           'expression in, the same context it was handed',
           loc=mod.loc(call.node))


def check_r04d(repo, rep):
    uni = unimod.Universe(repo)
    from sa import report as repmod
    tmp = repmod.Report('C04-r09c', 'quick')
    n = c09.check_r09c(repo, tmp, uni)
    for o in tmp.obligations:
        rep.ob('R04d', o['site'], o['verdict'] == 'ok', o.get('detail', ''),
               loc=o.get('loc', ''), construct=o.get('construct', ''))
    for e in tmp.errors:
        rep.error(e)
    # the context-constructing functions of the language
    sysm = repo.module('yaql.standard_library.system')
    for name in ('let', 'with_', 'unpack', 'def_'):
        f = sysm.func(name)
        rets = [r for r in model.walk_shallow(f.node)
                if isinstance(r, ast.Return)]
        ov = uni.payload_ov[f.key][0]
        ctxp = [p.name for p in ov.params if p.type.hidden and
                (p.type.cls or '').endswith('.Context')]
        ok = bool(ctxp) and bool(rets) and all(
            isinstance(r.value, ast.Name) and r.value.id == ctxp[0]
            for r in rets)
        rep.ob('R04d', f.key + '/returns-its-context', ok,
               '%s must return the (child) context it wrote into, so that '
               '`->` evaluates its right side there' % name,
               loc=sysm.loc(f.node))
    gc = sysm.func('get_context_data')
    rets = [r for r in model.walk_shallow(gc.node)
            if isinstance(r, ast.Return)]
    ok = len(rets) == 1 and model.norm(rets[0].value) in (
        'context[name]', 'context.get_data(name)')
    rep.ob('R04d', gc.key, ok, '$name must read the variable from the '
           'injected context (lookup walks the enclosing scopes)',
           loc=sysm.loc(gc.node))
    return n


def run(repo, rep):
    rep.rule('R04a', 'CALL-IN-FRESH-CHILD: get_delegate converts arguments '
             'and runs the payload in context.create_child_context() '
             'created inside the thunk, per invocation')
    rep.rule('R04b', 'LAMBDA-LEXICAL: the callable built by Lambda.convert '
             'evaluates in a child of the context captured at conversion '
             '(definition scope), or in the caller\'s explicit context only '
             'when with_context')
    rep.rule('R04c', 'PUBLISH-INTO-THAT-CONTEXT: arguments are published '
             'into the context the expression is evaluated in')
    rep.rule('R04d', 'WRITERS-WRITE-THEIR-OWN: every library function that '
             'stores into a context stores into its injected context or a '
             'child it created; let/with/unpack/def return that context')
    rep.trusted += ['values computed by member access, indexers and '
                    'operators are not decided']
    rep.explanation = (
        'Necessary scope-discipline clauses named in the statement '
        '("innermost lambda", "never leaking outward", "closures keep '
        'their defining scope"), decided by reaching definitions of the '
        'context value at the payload call, in the lambda callable and at '
        'every context store of the library.')
    check_r04a(repo, rep)
    check_r04b(repo, rep)
    check_r04c(repo, rep)
    n = check_r04d(repo, rep)
    # R04e: bindings shadow, missing is null, `$` is `$1` -- the context
    # classes' clauses (decided by C17's rules, repeated here because the
    # statement of C04 names them)
    cm = repo.module(c17.CTX)
    rep.rule('R17a', 'see C17: key normalisation (`$` = `$1` = empty name)')
    rep.rule('R17c', 'see C17: lookup walks outward, missing is null')
    rep.rule('R17e', 'see C17: every assignment stores into the own layer '
             'on every path (a binding always shadows)')
    c17.check_normalise(repo, rep, cm)
    c17.check_get_data(repo, rep, cm)
    c17.check_store_on_all_paths(repo, rep, cm)
    # let(name => value) must bind every name an expression can write
    from sa.rules import c12
    from sa import universe as unimod
    rep.rule('R12e', 'see C12: a function taking arbitrary keyword '
             'arguments (let) has no hidden parameter whose python name an '
             'expression can write')
    c12.check_varkw_collisions(repo, rep, unimod.Universe(repo))
    rep.count(context_store_sites=n)
