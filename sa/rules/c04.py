"""C04 (scope-discipline clauses) -- each call runs in a fresh child
context, lambdas evaluate in a child of their defining context, writers write
their own context."""
import ast

from sa import cfg as cfgmod
from sa import effects
from sa import model
from sa import norm
from sa import universe as unimod
from sa.model import AnalysisError
from sa.rules import c09
from sa.rules import c17
from sa.rules.c17 import tri, reachable_with

TITLE = 'scope discipline: fresh child per call, lexical lambdas'

SPECS = 'yaql.language.specs'
YT = 'yaql.language.yaqltypes'


def child_of(expr, name):
    """expr is `<name>.create_child_context()`"""
    return isinstance(expr, ast.Call) and isinstance(
        expr.func, ast.Attribute) and expr.func.attr == \
        'create_child_context' and isinstance(
        expr.func.value, ast.Name) and expr.func.value.id == name and \
        not expr.args


def check_r04a(repo, rep):
    mod = repo.module(SPECS)
    gd = mod.func('FunctionDefinition.get_delegate')
    ctx_param = None
    for p in gd.params():
        if p == 'context':
            ctx_param = p
    if ctx_param is None:
        raise AnalysisError('get_delegate lost its context parameter')
    # the function that performs the payload call
    callers = []
    for q, f in mod.functions.items():
        top = f
        while top.parent_func is not None:
            top = top.parent_func
        if top is not gd and f is not gd:
            continue
        for c in model.calls_in(f.node, shallow=True):
            if isinstance(c.func, ast.Attribute) and c.func.attr == \
                    'payload' and isinstance(c.func.value, ast.Name) and \
                    c.func.value.id == 'self':
                callers.append((f, c))
    rep.ob('R04a', gd.key + '/payload-call', len(callers) == 1,
           'expected exactly one call of self.payload inside get_delegate, '
           'found %d' % len(callers), loc=mod.loc(gd.node))
    for f, call in callers:
        rep.ob('R04a', gd.key + '/per-invocation', f is not gd,
               'the payload must be called from the returned thunk, not '
               'while the delegate is being built', loc=mod.loc(call))
        # names handed to the argument thunks: a call, anywhere in the
        # thunk, of something that is itself a parameter of a nested
        # lambda/def or a comprehension variable (the stored converters
        # reach the call only as such), with a plain name as first argument
        ctx_names = set()
        bound = set()
        for n in ast.walk(f.node):
            if n is f.node:
                continue
            if isinstance(n, (ast.Lambda, ast.FunctionDef)):
                bound |= {a.arg for a in n.args.posonlyargs + n.args.args +
                          n.args.kwonlyargs}
            elif isinstance(n, ast.comprehension):
                bound |= {t.id for t in ast.walk(n.target)
                          if isinstance(t, ast.Name)}
            elif isinstance(n, ast.For):
                bound |= {t.id for t in ast.walk(n.target)
                          if isinstance(t, ast.Name)}
        for n in ast.walk(f.node):
            if isinstance(n, ast.Call) and n is not call and n.args and \
                    isinstance(n.args[0], ast.Name):
                fn = n.func
                while isinstance(fn, ast.Subscript):
                    fn = fn.value
                if isinstance(fn, ast.Name) and fn.id in bound:
                    ctx_names.add(n.args[0].id)
        rep.ob('R04a', gd.key + '/thunks-get-a-context', bool(ctx_names),
               'no context is handed to the argument converters',
               loc=mod.loc(call))
        g = cfgmod.CFG(f.node)
        use = g.node_of(call)
        for name in sorted(ctx_names):
            defs = cfgmod.reaching_defs(g, use, name) if use else []
            ok = bool(defs) and all(
                d is not g.entry and isinstance(d.ast, ast.Assign) and
                child_of(d.ast.value, ctx_param) for d in defs)
            rep.ob('R04a', gd.key + '/fresh-child[%s]' % name, ok,
                   'the context `%s` in which arguments are converted and '
                   'the payload runs must be created by '
                   '%s.create_child_context() inside the thunk, once per '
                   'invocation; its reaching definitions are %s: bindings '
                   'made by the callee (let, def, $-parameters) would '
                   'leak into the caller\'s scope or between calls' % (
                       name, ctx_param, [model.norm(d.ast) if d.ast else
                                         'parameter/closure' for d in defs]
                       or 'outside the thunk'), loc=mod.loc(call))
    # convert_arg_func hands *its* context to value_type.convert
    for q, f in mod.functions.items():
        if f.name == 'convert_arg_func':
            p = f.params()[0]
            ok = False
            for c in model.calls_in(f.node):
                if isinstance(c.func, ast.Attribute) and \
                        c.func.attr == 'convert' and len(c.args) >= 3:
                    ok = isinstance(c.args[2], ast.Name) and \
                        c.args[2].id == p
            rep.ob('R04a', f.key, ok,
                   'the argument converter must convert in the context it '
                   'is given (the fresh child), not a captured one',
                   loc=mod.loc(f.node))


def check_r04b(repo, rep):
    """R04b by abstract evaluation of the callable Lambda.convert returns,
    for the four (method, with_context) kinds of lambda: which receiver and
    which context reach the evaluation, and which arguments are left."""
    from sa import absint
    import itertools
    mod = repo.module(YT)
    conv = mod.func('Lambda.convert')
    lam = mod.cls('Lambda')
    returned = {r.value.id for r in model.walk_shallow(conv.node)
                if isinstance(r, ast.Return) and isinstance(
                    r.value, ast.Name)}
    fns = [f for f in mod.functions.values()
           if f.parent_func is conv and f.name in returned]
    if len(fns) != 1:
        raise AnalysisError('anchor vanished: the callable returned by '
                            'Lambda.convert')
    fn = fns[0]
    if 'context' not in conv.params():
        raise AnalysisError('Lambda.convert lost its context parameter')
    callm = lam.methods.get('_call')
    if callm is None:
        raise AnalysisError('anchor vanished: Lambda._call')
    n = 0
    for method, with_ctx in itertools.product((False, True), repeat=2):
        A = [absint.Sym('arg%d' % i) for i in range(3)]
        seen = []
        children = []

        def oracle(callee, args, kwargs):
            if callee == callm.key:
                seen.append(list(args))
                return (absint.Sym('result'),)
            if callee == '.create_child_context':
                c = absint.Sym('child-of-%r' % (args[0],))
                children.append((args[0], c))
                return (c,)
            return None
        defctx = absint.Sym('definition-context')
        slf = absint.Obj('lambda-type', method=method,
                         with_context=with_ctx, __class__=lam)
        expr = absint.Sym('expression')

        def oracle2(callee, args, kwargs, _o=oracle):
            if callee == 'builtins.super':
                return (absint.Sym('super'),)
            if callee == '.convert':
                return (None,)
            if callee == 'builtins.callable':
                return (False,)
            if callee == 'builtins.hasattr':
                return (False,)
            return _o(callee, args, kwargs)
        it = absint.Interp(repo, mod, oracle2)
        try:
            # build the callable the way Lambda.convert does (so that what
            # it closes over is there), then invoke it twice
            cargs = {'self': slf, 'value': expr,
                     'receiver': absint.Sym('receiver-at-conversion'),
                     'context': defctx,
                     'function_spec': absint.Sym('spec'),
                     'engine': absint.Sym('engine')}
            built = it.run(conv.node, {q: cargs.get(q, absint.Sym(q))
                                       for q in conv.params()})
            if built[0] != 'return' or not isinstance(built[1],
                                                      absint.Closure):
                raise absint.Unsupported('Lambda.convert did not return a '
                                         'local function')
            clo = built[1]
            out = it.apply(clo.node, clo.env, list(A), {})
            first_children = list(children)
            out2 = it.apply(clo.node, clo.env, list(A), {})
        except absint.Unsupported as e:
            raise AnalysisError('R04b: the lambda callable uses a construct '
                                'outside the modelled fragment (%s)' % e)
        except absint._Raise as e:
            raise AnalysisError('R04b: the lambda callable raises %s on '
                                'three arguments' % e.v)
        n += 1
        kind = '%s%s' % ('method ' if method else 'plain ',
                         'with_context' if with_ctx else 'lambda')
        site = '%s/%s' % (fn.key, kind.replace(' ', '-'))
        if len(seen) != 2 or len(seen[0]) < 6:
            rep.ob('R04b', site, False,
                   'a %s must evaluate through self._call(value, receiver, '
                   '<context>, engine, args, kwargs) exactly once per '
                   'invocation (calls seen in two invocations: %d)' % (
                       kind, len(seen)), loc=mod.loc(fn.node))
            continue
        _, recv, ctx, _, rest, _ = seen[0][:6]
        ctx2 = seen[1][2]
        if not with_ctx:
            rep.ob('R04b', site + '/fresh-scope-per-invocation',
                   ctx2 is not ctx and any(
                       c is ctx2 and parent is defctx
                       for parent, c in children[len(first_children):]),
                   'every invocation of a %s must get its own new child '
                   'context; the second invocation evaluates in %r (the '
                   'first in %r): the arguments of one invocation stay '
                   'visible to / are overwritten by the next' % (
                       kind, ctx2, ctx), loc=mod.loc(fn.node))
        k = (1 if method else 0) + (1 if with_ctx else 0)
        want_rest = A[k:]
        want_recv = A[0] if method else None
        if with_ctx:
            want_ctx = A[1] if method else A[0]
            ctx_ok = ctx is want_ctx
            ctx_why = 'the caller\'s explicit context argument'
        else:
            ctx_ok = any(c is ctx and parent is defctx
                         for parent, c in children)
            ctx_why = 'a new child of the context the lambda was created ' \
                      'in (context.create_child_context())'
        recv_ok = recv is want_recv if method else (
            isinstance(recv, tuple) and str(recv[-1]).endswith('NO_VALUE'))
        rest_ok = list(rest) == want_rest
        rep.ob('R04b', site + '/context', ctx_ok,
               'a %s must evaluate in %s; it evaluates in %r: `$`/named '
               'arguments would be published into, and free variables '
               'resolved in, the wrong scope' % (kind, ctx_why, ctx),
               loc=mod.loc(fn.node))
        rep.ob('R04b', site + '/receiver-and-arguments',
               recv_ok and rest_ok,
               'a %s must pass receiver %s and the remaining arguments %r; '
               'it passes %r and %r' % (
                   kind, want_recv if method else 'NO_VALUE', want_rest,
                   recv, list(rest)), loc=mod.loc(fn.node))
    rep.floor('lambda kinds evaluated', n, 4)


def tri_attr(test, env):
    """tri() with `self.<name>` looked up like a plain name."""
    class Rw(ast.NodeTransformer):
        def visit_Attribute(self, node):
            if isinstance(node.value, ast.Name) and node.value.id == 'self':
                return ast.copy_location(ast.Name(id=node.attr,
                                                  ctx=ast.Load()), node)
            return node
    import copy
    t = Rw().visit(copy.deepcopy(test))
    return tri(t, env)


def check_r04c(repo, rep):
    mod = repo.module(YT)
    inline = mod.functions.get('Lambda._publish_params') is None
    # (the publishing may be written out in _call itself)
    pub = mod.func('Lambda._call' if inline else 'Lambda._publish_params')
    ctx = pub.params()[0] if not pub.is_method else pub.params()[0]
    ps = pub.params()
    cname = 'context' if 'context' in ps else ps[0]
    stores = [w for w in effects.writes_in(pub.node)
              if w.kind in ('subscript',)]
    ok = bool(stores) and all(w.root == cname and not w.chain
                              for w in stores)
    rep.ob('R04c', pub.key, ok,
           '_publish_params must store $1..$n / $name into the context it '
           'is given and nowhere else', loc=mod.loc(pub.node))
    keys_ok = all('$' in model.norm(w.key) for w in stores)
    rep.ob('R04c', pub.key + '/names', keys_ok,
           'arguments are published as $<index> / $<name>',
           loc=mod.loc(pub.node))
    call = mod.func('Lambda._call')
    cps = call.params()
    ok1 = ok2 = False
    for c in model.calls_in(call.node, shallow=True):
        if isinstance(c.func, ast.Attribute) and \
                c.func.attr == '_publish_params' and c.args:
            ok1 = isinstance(c.args[0], ast.Name) and \
                c.args[0].id == 'context'
        if inline:
            ok1 = ok      # the stores above ARE into `context`
        if len(c.args) == 3 and isinstance(c.args[1], ast.Name) and \
                c.args[1].id == 'context' and isinstance(
                    c.func, ast.Name) and c.func.id == cps[1]:
            ok2 = True
    g = cfgmod.CFG(call.node)
    rep.ob('R04c', call.key, ok1 and ok2,
           '_call must publish the arguments into, and evaluate the '
           'expression in, the same context it was handed',
           loc=mod.loc(call.node))


def check_r04d(repo, rep):
    uni = unimod.Universe(repo)
    from sa import report as repmod
    tmp = repmod.Report('C04-r09c', 'quick')
    n = c09.check_r09c(repo, tmp, uni)
    for o in tmp.obligations:
        rep.ob('R04d', o['site'], o['verdict'] == 'ok', o.get('detail', ''),
               loc=o.get('loc', ''), construct=o.get('construct', ''))
    for e in tmp.errors:
        rep.error(e)
    # the context-constructing functions of the language
    sysm = repo.module('yaql.standard_library.system')
    for name in ('let', 'with_', 'unpack', 'def_'):
        f = sysm.func(name)
        rets = [r for r in model.walk_shallow(f.node)
                if isinstance(r, ast.Return)]
        ov = uni.payload_ov[f.key][0]
        ctxp = [p.name for p in ov.params if p.type.hidden and
                (p.type.cls or '').endswith('.Context')]
        ok = bool(ctxp) and bool(rets) and all(
            isinstance(r.value, ast.Name) and r.value.id == ctxp[0]
            for r in rets)
        rep.ob('R04d', f.key + '/returns-its-context', ok,
               '%s must return the (child) context it wrote into, so that '
               '`->` evaluates its right side there' % name,
               loc=sysm.loc(f.node))
    gc = sysm.func('get_context_data')
    rets = [r for r in model.walk_shallow(gc.node)
            if isinstance(r, ast.Return)]
    ok = len(rets) == 1 and model.norm(rets[0].value) in (
        'context[name]', 'context.get_data(name)')
    rep.ob('R04d', gc.key, ok, '$name must read the variable from the '
           'injected context (lookup walks the enclosing scopes)',
           loc=sysm.loc(gc.node))
    return n


def check_list_literal(repo, rep, uni):
    """R04i: `[a, b, c]` is the list of the values of its three element
    expressions.  The function the parser's list node calls (`#list`) is
    applied abstractly to three elements each of which claims to be an
    iterator / iterable / sequence: the result must be exactly those three
    values, in order -- an element is never spliced, unpacked or dropped."""
    from sa import absint
    n = 0
    for ov in uni.reg.by_name('#list', 'default'):
        fi = ov.func
        va = fi.node.args.vararg.arg if fi.node.args.vararg else None
        if va is None:
            continue
        n += 1
        elems = [absint.Obj('element%d' % i, __items__=[
            absint.Sym('inside-element%d' % i)]) for i in range(3)]

        def oracle(callee, args, kwargs):
            tail = callee.rsplit('.', 1)[-1].rsplit(':', 1)[-1]
            if tail in ('is_iterator', 'is_iterable', 'is_sequence',
                        'is_mutable') and args and any(
                    args[0] is e for e in elems):
                return (True,)
            if tail == 'limit_memory_usage':
                return (None,)
            if callee.startswith('arg-') and len(args) == 1:
                # an injected delegate (to_list ...): the sequence it is
                # given, as a sequence
                return (args[0],)
            return None

        def inst(value, cls_expr):
            return any(value is e for e in elems)
        args = {}
        fixed = fi.params()
        for p in fixed:
            args[p] = absint.Sym('arg-' + p)
        for i, e in enumerate(elems):
            args[len(fixed) + i] = e
        it = absint.Interp(repo, fi.module, oracle, inst)
        it.shared['eager-generators'] = True   # only the result is read
        verdict, why = None, ''
        try:
            out = it.run(fi.node, args)
            if out[0] == 'return':
                got = [it.force(x) for x in it.iterate(out[1])]
                verdict = len(got) == 3 and all(
                    a is b for a, b in zip(got, elems))
                why = 'applied to three elements that are iterators it ' \
                    'gives %r' % (got,)
        except (absint.Unsupported, absint._Raise, RecursionError,
                TypeError) as e:
            rep.note('R04i: %s not interpretable (%s)' % (fi.key, e))
        if verdict is None:
            continue
        rep.ob('R04i', fi.key + '/list-of-its-elements', verdict,
               'the list expression `[a, b]` must be the list of the values '
               'of a and b; %s, the function behind `[...]`, %s: an element '
               'that is itself a lazy sequence (the result of select / '
               'where / .name on a collection) is spliced into the list' % (
                   fi.qualname, why), loc=fi.module.loc(fi.node))
    rep.floor('functions behind the list expression', n, 1)


def _attribution_by_evaluation(repo, fi, ov, D, C):
    """The collection overload of `.` applied abstractly to a collection of
    three opaque elements with an uninterpreted delegate: the result, read
    to its end, is the delegate's answer for each element, in order, and
    the delegate was asked about each element exactly once.  None when the
    body is outside the evaluator's fragment."""
    from sa import absint
    elems = [absint.Sym('element%d' % i) for i in range(3)]
    answers = {e.name: absint.Sym('answer-for-' + e.name) for e in elems}
    asked = []

    def oracle(callee, args, kwargs):
        if callee == 'the-delegate':
            asked.append(list(args))
            if args and isinstance(args[0], absint.Sym) and \
                    args[0].name in answers:
                return (answers[args[0].name],)
            return (absint.Sym('answer-for-something-else'),)
        return None
    args = {}
    for p in fi.params():
        if p == D:
            args[p] = absint.Sym('the-delegate')
        elif p == C:
            args[p] = list(elems)
        else:
            args[p] = absint.Sym('arg-' + p)
    it = absint.Interp(repo, fi.module, oracle)
    try:
        out = it.run(fi.node, args)
        if out[0] != 'return':
            return None
        got = [it.force(x) for x in it.iterate(out[1])]
    except (absint.Unsupported, absint._Raise, RecursionError, TypeError):
        return None
    want = [answers[e.name] for e in elems]
    if len(got) != len(want) or any(a is not b for a, b in zip(got, want)):
        return False, 'on three elements %s yields %r, not the ' \
            'delegate\'s answers %r' % (fi.qualname, got, want)
    firsts = [a[0] if a else None for a in asked]
    if len(firsts) != 3 or any(a is not b for a, b in zip(firsts, elems)):
        return False, '%s asks the delegate about %r' % (fi.qualname,
                                                         asked)
    return True, ''


def check_collection_attribution(repo, rep, uni):
    """R04e: `.name` on a collection maps `.name` over its elements: every
    per-element result of the collection overload of `.` is the `.`
    delegate applied to that element (no element is answered by a shortcut
    that the single-value overloads would answer differently)."""
    n = 0
    for ov in uni.reg.by_name('#operator_.', 'default'):
        fi = ov.func
        dparam = [p.name for p in ov.params if (p.type.cls or '').endswith(
            '.Delegate')]
        coll = [p.name for p in ov.params if p.type.limiting]
        if not dparam or not coll:
            continue
        D, C = dparam[0], coll[0]
        verdict = _attribution_by_evaluation(repo, fi, ov, D, C)
        if verdict is not None:
            n += 1
            rep.ob('R04e', fi.key + '/maps-the-delegate', verdict[0],
                   '`collection.name` must be `.name` of every element, '
                   'i.e. the `.` delegate `%s` applied to the element; %s'
                   % (D, verdict[1]), loc=fi.module.loc(fi.node))
            continue
        leaves = []     # (element variable, expression)
        found = False

        def fn_leaves(f, arg_index=0):
            if isinstance(f, ast.Lambda):
                ps = [a.arg for a in f.args.args]
                return [(ps[arg_index] if ps else None, f.body)]
            if isinstance(f, ast.Name):
                if f.id == D:
                    return []
                for g in fi.module.functions.values():
                    if g.parent_func is fi and g.name == f.id:
                        ps = g.params()
                        return [(ps[arg_index] if ps else None,
                                 norm.subst_locals(g.node, r.value))
                                for r in model.walk_shallow(g.node)
                                if isinstance(r, ast.Return) and
                                r.value is not None]
            return None
        for x in ast.walk(fi.node):
            if isinstance(x, ast.Call) and isinstance(
                    x.func, ast.Name) and x.func.id == 'map' and \
                    len(x.args) == 2 and isinstance(
                        x.args[1], ast.Name) and x.args[1].id == C:
                got = fn_leaves(x.args[0])
                if got is None:
                    raise AnalysisError('R04e: cannot read the per-element '
                                        'function of %s' % fi.key)
                leaves += got
                found = True
            elif isinstance(x, (ast.GeneratorExp, ast.ListComp)) and \
                    isinstance(x.generators[0].iter, ast.Name) and \
                    x.generators[0].iter.id == C and isinstance(
                        x.generators[0].target, ast.Name):
                leaves.append((x.generators[0].target.id, x.elt))
                found = True
            elif isinstance(x, ast.For) and isinstance(
                    x.iter, ast.Name) and x.iter.id == C and isinstance(
                    x.target, ast.Name):
                for y in ast.walk(x):
                    if isinstance(y, ast.Yield) and y.value is not None:
                        leaves.append((x.target.id, norm.subst_locals(
                            fi.node, y.value)))
                        found = True
        if not found:
            raise AnalysisError('R04e: no per-element mapping found in %s'
                                % fi.key)
        n += 1
        bad = []
        flat = []
        for var, e in leaves:
            st = [e]
            while st:
                y = st.pop()
                if isinstance(y, ast.IfExp):
                    st += [y.body, y.orelse]
                else:
                    flat.append((var, y))
        for var, e in flat:
            ok = isinstance(e, ast.Call) and isinstance(
                e.func, ast.Name) and e.func.id == D and e.args and \
                isinstance(e.args[0], ast.Name) and e.args[0].id == var
            if not ok:
                bad.append(e)
        rep.ob('R04e', fi.key + '/maps-the-delegate', not bad,
               '`collection.name` must be `.name` of every element, i.e. '
               'the `.` delegate `%s` applied to the element; %s answers an '
               'element with `%s`, which need not be what the single-value '
               'overloads of `.` give (missing key, yaqlized object, '
               'host-overridden `.`)' % (
                   D, fi.qualname, model.norm(bad[0]) if bad else ''),
               loc=fi.module.loc(bad[0] if bad else fi.node),
               construct=model.norm(bad[0]) if bad else '')
    rep.floor('collection overloads of the member operator', n, 1)


def _names_given_oracle(names):
    """Truth of a test under "the caller passed at least one name"."""
    def o(e):
        if isinstance(e, ast.Name) and e.id == names:
            return True
        if isinstance(e, ast.Compare):
            def val(x, k):
                if isinstance(x, ast.Constant) and isinstance(
                        x.value, int):
                    return x.value
                if isinstance(x, ast.Call) and isinstance(
                        x.func, ast.Name) and x.func.id == 'len' and \
                        len(x.args) == 1 and isinstance(
                            x.args[0], ast.Name) and x.args[0].id == names:
                    return k
                return None
            res = set()
            for k in (1, 2, 7):
                seq = [val(x, k) for x in [e.left] + e.comparators]
                if any(v is None for v in seq):
                    return None
                ok = True
                for op, a, b in zip(e.ops, seq, seq[1:]):
                    r = {ast.Gt: a > b, ast.GtE: a >= b, ast.Lt: a < b,
                         ast.LtE: a <= b, ast.Eq: a == b,
                         ast.NotEq: a != b}.get(type(op))
                    if r is None:
                        return None
                    ok = ok and r
                res.add(ok)
            return res.pop() if len(res) == 1 else None
        return None
    return o


def check_named_unpack_binds_names_only(repo, rep):
    """R04f: `seq.unpack(a, b)` binds exactly $a and $b.  A store under a
    positional key ($1, $2 ... and with them `$`) in that case shadows the
    `$` of the enclosing lambda and the positional variables of enclosing
    with()/let(): positional stores -- made by unpack itself or by a
    positional binder it hands its context to -- are reachable only when no
    names were given."""
    mod = repo.module('yaql.standard_library.system')
    fi = mod.functions.get('unpack')
    if fi is None or fi.node.args.vararg is None:
        raise AnalysisError('anchor vanished: system.unpack(*names)')
    names = fi.node.args.vararg.arg

    def is_str_call(e):
        return isinstance(e, ast.Call) and isinstance(
            e.func, ast.Name) and e.func.id == 'str'

    def key_is_positional(f, key):
        """str(i), or a loop variable ranging over pairs whose first
        component is str(i) (a generator of (str(i), value) pairs, alone
        or chained with other pairs)."""
        if is_str_call(key):
            return True
        if not isinstance(key, ast.Name):
            return False
        for lp in ast.walk(f.node):
            if not isinstance(lp, (ast.For, ast.comprehension)):
                continue
            tg = lp.target
            elts = tg.elts if isinstance(tg, (ast.Tuple, ast.List)) \
                else [tg]
            idx = [i for i, t in enumerate(elts)
                   if isinstance(t, ast.Name) and t.id == key.id]
            if not idx:
                continue
            src = norm.subst_locals(f.node, lp.iter, only_pure=False)
            for g in ast.walk(src):
                if isinstance(g, (ast.GeneratorExp, ast.ListComp)) and \
                        isinstance(g.elt, ast.Tuple) and \
                        idx[0] < len(g.elt.elts) and is_str_call(
                            g.elt.elts[idx[0]]):
                    return True
        return False

    def positional_stores(f):
        out = []
        for w in effects.writes_in(f.node):
            if w.kind == 'subscript' and w.key is not None and \
                    key_is_positional(f, w.key):
                out.append(w.node)
        return out
    writers = {f.name for f in mod.functions.values()
               if f.parent_func is None and f is not fi and
               positional_stores(f)}
    # ... and whoever hands its context on to one of them
    changed = True
    while changed:
        changed = False
        for f in mod.functions.values():
            if f.parent_func is None and f is not fi and \
                    f.name not in writers and any(
                        isinstance(c.func, ast.Name) and
                        c.func.id in writers
                        for c in model.calls_in(f.node)):
                writers.add(f.name)
                changed = True
    sites = list(positional_stores(fi))
    for c in model.calls_in(fi.node):
        if isinstance(c.func, ast.Name) and c.func.id in writers:
            sites.append(c)
    rep.floor('positional binders in system.py', len(writers), 2)
    rep.count(positional_binders=sorted(writers))
    if not sites:
        raise AnalysisError('anchor vanished: positional stores of unpack')
    o = _names_given_oracle(names)
    for sx in sites:
        ok = not norm.reachable_under(sx, fi.node, o)
        rep.ob('R04f', '%s/positional-store[%s]' % (
            fi.key, model.norm(sx).split('\n')[0][:40]), ok,
            'unpack(%s...) with names given must bind only those names; '
            'this positional binding ($1, $2 ... and so `$`) is also made '
            'when names are given and shadows the `$` / $1..$n of the '
            'enclosing lambda, with() or let()' % names,
            loc=mod.loc(sx), construct=model.norm(sx).split('\n')[0])


# lambdas that are, by design, evaluated in a context the *callee* chooses
# (reviewed one by one; every other lambda is lexically scoped by R04b)
WITH_CONTEXT_LAMBDAS = {
    ('yaql.standard_library.system:send_context', 'right'):
        '`ctx -> expr`: the right operand is evaluated in the context the '
        'left operand produced -- that is the operator',
    ('yaql.standard_library.regex:search', 'selector'):
        'match variables ($1, $name) are published into a child context',
    ('yaql.standard_library.regex:search_all', 'selector'):
        'as search',
    ('yaql.standard_library.regex:replace_by', 'repl'):
        'as search',
    ('yaql.standard_library.regex:replace_by_string', 'repl'):
        'as search',
    ('yaql.standard_library.legacy:switch', 'conditions'):
        'legacy (0.2) switch: conditions see the receiver as $',
    ('yaql.standard_library.legacy:op_dot_context', 'expr'):
        'legacy (0.2) `.`: the right operand is evaluated with the left '
        'value as $',
}


def check_scopes_of_lazy_parameters(repo, rep, uni):
    """R04h.  (1) Which lambdas a callee may evaluate in a context of its own
    choosing is a closed, reviewed list: a lambda parameter declared
    with_context=True anywhere else (the body of def(), a selector) is
    evaluated where it is *called*, i.e. dynamically scoped.  (2) The values
    that let / with / unpack store under context keys are ordinary, eagerly
    evaluated arguments: declared lazy they would be evaluated by the
    binder, inside the very context it is filling (so `$` would mean the
    first value given to with())."""
    seen = set()
    n = 0
    for o in uni.reg.overloads:
        for p in o.params:
            if p.type.lazy and 'with_context=True' in p.type.text.replace(
                    ' ', ''):
                k = (o.func.key, p.name)
                if k in seen:
                    continue
                seen.add(k)
                n += 1
                rep.ob('R04h', '%s/%s/with-context' % k,
                       k in WITH_CONTEXT_LAMBDAS,
                       'parameter `%s` of %s is declared %s: the lambda is '
                       'then evaluated in a context chosen at the call, not '
                       'in the scope it was written in (closures keep their '
                       'defining scope); only the reviewed context '
                       'operators may do that' % (p.name, o.func.qualname,
                                                  p.type.text),
                       loc=o.func.module.loc(o.func.node))
    for k in WITH_CONTEXT_LAMBDAS:
        if k not in seen:
            rep.note('reviewed with_context lambda %s/%s no longer exists'
                     % k)
    # (2) binders store eagerly evaluated values
    sysm = repo.module('yaql.standard_library.system')
    m = 0
    done = set()
    for fi in sysm.functions.values():
        if fi.key in done:
            continue
        done.add(fi.key)
        env = None
        for w in effects.writes_in(fi.node):
            if w.kind != 'subscript' or w.value is None:
                continue
            env = env or uni.env(fi)
            tv = env.ev(w.target)
            if not any(t[0] in ('ctx', 'ctxchild') for t in tv.tags):
                continue
            m += 1
            v = env.ev(w.value)
            lazy = [t for t in v.tags | v.c1 if t[0] in ('lazy', 'lazyres')]
            rep.ob('R04h', '%s/stores-eager-values' % fi.key, not lazy,
                   '%s stores the result of a lazily evaluated argument '
                   '(%s) under a context key: the argument is then '
                   'evaluated by the binder inside the context it is '
                   'filling, where `$` / $1 already mean the values being '
                   'bound' % (fi.qualname, model.norm(w.value)),
                   loc=sysm.loc(w.node), construct=model.norm(w.node))
    rep.floor('with_context lambda parameters reviewed', n, 5)
    rep.floor('context stores of the binders', m, 3)


def run(repo, rep):
    rep.rule('R04h', 'SCOPES-OF-LAZY-PARAMETERS: with_context lambdas are a '
             'closed reviewed list; binders store eagerly evaluated values')
    rep.rule('R04e', 'COLLECTION-MEMBER-IS-A-MAP: the collection overload '
             'of `.` answers every element through the `.` delegate')
    rep.rule('R04f', 'NAMED-UNPACK-BINDS-NAMES-ONLY: positional stores of '
             'unpack are unreachable when names are given')
    rep.rule('R04a', 'CALL-IN-FRESH-CHILD: get_delegate converts arguments '
             'and runs the payload in context.create_child_context() '
             'created inside the thunk, per invocation')
    rep.rule('R04b', 'LAMBDA-LEXICAL: the callable built by Lambda.convert '
             'evaluates in a child of the context captured at conversion '
             '(definition scope), or in the caller\'s explicit context only '
             'when with_context')
    rep.rule('R04c', 'PUBLISH-INTO-THAT-CONTEXT: arguments are published '
             'into the context the expression is evaluated in')
    rep.rule('R04d', 'WRITERS-WRITE-THEIR-OWN: every library function that '
             'stores into a context stores into its injected context or a '
             'child it created; let/with/unpack/def return that context')
    rep.trusted += ['values computed by member access, indexers and '
                    'operators are not decided']
    rep.explanation = (
        'Necessary scope-discipline clauses named in the statement '
        '("innermost lambda", "never leaking outward", "closures keep '
        'their defining scope"), decided by reaching definitions of the '
        'context value at the payload call, in the lambda callable and at '
        'every context store of the library.')
    from sa import resmodel
    resmodel.install(repo, rep)
    resmodel.guarded_specs(repo, rep, 'R04a', check_r04a, repo, rep)
    rep.rule('R04g', 'DELEGATE-SITUATIONS: get_delegate evaluated '
             'abstractly on definition/call situations creates one child '
             'context per invocation, converts every argument in it and '
             'converts nothing while the delegate is built')
    resmodel.report_situations(repo, rep, 'R04g', (
        'no-conversion-before-invocation', 'fresh-child-per-invocation',
        'converted-in-that-child', 'payload-gets-converted-slots'),
        'the scope a call runs in')
    check_r04b(repo, rep)
    check_r04c(repo, rep)
    n = check_r04d(repo, rep)
    from sa import universe as _u
    check_collection_attribution(repo, rep, _u.Universe(repo))
    check_named_unpack_binds_names_only(repo, rep)
    rep.rule('R04i', 'LIST-EXPRESSION-KEEPS-ITS-ELEMENTS: the function behind '
             '`[...]` returns exactly its argument values, never splicing '
             'one that is a sequence')
    check_list_literal(repo, rep, _u.Universe(repo))
    check_scopes_of_lazy_parameters(repo, rep, _u.Universe(repo))
    # R04e: bindings shadow, missing is null, `$` is `$1` -- the context
    # classes' clauses (decided by C17's rules, repeated here because the
    # statement of C04 names them)
    cm = repo.module(c17.CTX)
    rep.rule('R17a', 'see C17: key normalisation (`$` = `$1` = empty name)')
    rep.rule('R17c', 'see C17: lookup walks outward, missing is null')
    rep.rule('R17e', 'see C17: every assignment stores into the own layer '
             'on every path (a binding always shadows)')
    c17.check_normalise(repo, rep, cm)
    c17.check_get_data(repo, rep, cm)
    c17.check_store_on_all_paths(repo, rep, cm)
    # let(name => value) must bind every name an expression can write
    from sa.rules import c12
    from sa import universe as unimod
    rep.rule('R12e', 'see C12: a function taking arbitrary keyword '
             'arguments (let) has no hidden parameter whose python name an '
             'expression can write')
    c12.check_varkw_collisions(repo, rep, unimod.Universe(repo))
    rep.count(context_store_sites=n)
