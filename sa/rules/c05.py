"""C05 -- overload resolution follows the documented rules (the structural
skeleton of the procedure; NOT its input/output relation)."""
import ast
import copy

from sa import cfg as cfgmod
from sa import model
from sa import norm
from sa.model import AnalysisError

TITLE = 'resolution skeleton: error classes, unconditional type check, ' \
        'first layer wins, shared sweep, layer walk'

RUNNER = 'yaql.language.runner'
SPECS = 'yaql.language.specs'
EXC = 'yaql.language.exceptions'
RESOLUTION = {
    'NoFunctionRegisteredException': ('function', 'unknown'),
    'NoMethodRegisteredException': ('method', 'unknown'),
    'NoMatchingFunctionException': ('function', 'no-match'),
    'NoMatchingMethodException': ('method', 'no-match'),
    'AmbiguousFunctionException': ('function', 'ambiguous'),
    'AmbiguousMethodException': ('method', 'ambiguous'),
}


def _receiver_polarity(test):
    """`receiver is NO_VALUE` -> True (function side in the body),
    `receiver is not NO_VALUE` -> False, else None."""
    neg = False
    if isinstance(test, ast.UnaryOp) and isinstance(test.op, ast.Not):
        neg = True
        test = test.operand
    if isinstance(test, ast.Compare) and len(test.ops) == 1 and isinstance(
            test.left, ast.Name) and test.left.id == 'receiver' and \
            model.norm(test.comparators[0]).endswith('NO_VALUE'):
        if isinstance(test.ops[0], ast.Is):
            return not neg
        if isinstance(test.ops[0], ast.IsNot):
            return neg
    return None


def _branch_of(node, ifnode):
    for s in ifnode.body:
        if any(x is node for x in ast.walk(s)):
            return 'body'
    for s in ifnode.orelse:
        if any(x is node for x in ast.walk(s)):
            return 'orelse'
    return None


def is_receiver_test(e):
    """`receiver is <...>NO_VALUE` (atoms() has already turned `is not`
    into `is` with the opposite polarity)."""
    return isinstance(e, ast.Compare) and len(e.ops) == 1 and isinstance(
        e.ops[0], ast.Is) and isinstance(e.left, ast.Name) and \
        e.left.id == 'receiver' and model.norm(
            e.comparators[0]).endswith('NO_VALUE')


def receiver_side(node, fn_node):
    """On which side of a `receiver is NO_VALUE` test does `node` execute?
    True = no receiver, False = receiver, None = untested.  if/else,
    early-exit, conditional-expression and boolean-local spellings are all
    understood (sa.norm.guards); a nested def / lambda inherits the guards
    of its definition site because `receiver` is never re-bound."""
    return norm.literal_polarity(node, fn_node, is_receiver_test)


def _resolution_class(repo, mod, fi, expr):
    e = expr.func if isinstance(expr, ast.Call) else expr
    d = repo.resolve(mod, e, model.scope_locals(fi))
    if d and d.startswith(EXC + '.') and d.rsplit('.', 1)[1] in RESOLUTION:
        return d.rsplit('.', 1)[1]
    return None


def error_factories(repo, mod):
    """Module-level functions whose returns construct resolution errors
    (`def _ambiguity_error(name, receiver): ... return Ambiguous...`):
    {factory key: [(return node, class name)]}."""
    out = {}
    for fi in mod.functions.values():
        rets = []
        for st in model.walk_shallow(fi.node):
            if isinstance(st, ast.Return) and st.value is not None:
                v = st.value
                leaves = [v]
                if isinstance(v, ast.IfExp):
                    leaves = [v.body, v.orelse]
                for leaf in leaves:
                    c = _resolution_class(repo, mod, fi, leaf)
                    if c:
                        rets.append((leaf if leaf is not v else st, c))
        if rets:
            out[fi.key] = (fi, rets)
    return out


def resolution_raises(repo, mod):
    """(FuncInfo, node, class name, [(FuncInfo, raise statement)]) for every
    place a resolution error is produced in the runner: a `raise X(...)`,
    or the `return X(...)` of an error factory together with the
    `raise factory(...)` statements that use it."""
    out = []
    facts = error_factories(repo, mod)
    for fi in mod.functions.values():
        for st in model.walk_shallow(fi.node):
            if not isinstance(st, ast.Raise) or st.exc is None:
                continue
            c = _resolution_class(repo, mod, fi, st.exc)
            if c:
                out.append((fi, st, c, [(fi, st)]))
    for key, (ffi, rets) in facts.items():
        users = []
        for fi in mod.functions.values():
            for st in model.walk_shallow(fi.node):
                if isinstance(st, ast.Raise) and isinstance(
                        st.exc, ast.Call):
                    d = repo.resolve(mod, st.exc.func,
                                     model.scope_locals(fi))
                    t = repo.lookup(d) if d else None
                    if t is ffi:
                        users.append((fi, st))
        for node, c in rets:
            out.append((ffi, node, c, users))
    return out


def raises_ambiguity(repo, mod, fi):
    """Statements / calls in fi that raise an Ambiguous* error: direct
    raises, raises of an error factory's result, calls of local
    never-returning helpers that do."""
    out = []
    sites = resolution_raises(repo, mod)
    for f2, node, cn, users in sites:
        if not cn.startswith('Ambiguous'):
            continue
        for uf, ust in users:
            if uf is fi and ust not in out:
                out.append(ust)
    for c in model.calls_in(fi.node, shallow=True):
        if isinstance(c.func, ast.Name):
            h = mod.functions.get(fi.qualname + '.' + c.func.id)
            if h is not None and any(
                    cn.startswith('Ambiguous') and any(
                        uf is h for uf, _ in users)
                    for f2, node, cn, users in sites):
                out.append(c)
    return out


def check_error_kinds(repo, rep):
    """R05a: a *Function* resolution error is raised only where the call has
    no receiver, a *Method* one only where it has."""
    mod = repo.module(RUNNER)
    exc = repo.module(EXC)
    # the table above must agree with the hierarchy in exceptions.py
    for name, (kind, _) in RESOLUTION.items():
        ci = exc.classes.get(name)
        if ci is None:
            raise AnalysisError('anchor vanished: exceptions.' + name)
        base = EXC + ('.FunctionResolutionError' if kind == 'function'
                      else '.MethodResolutionError')
        if not repo.is_subclass(ci, base):
            raise AnalysisError('exceptions.%s is no longer a %s' % (
                name, base))
    sites = resolution_raises(repo, mod)
    for fi, st, cname, users in sites:
        kind, stage = RESOLUTION[cname]
        site = '%s/raise[%s]' % (fi.key, cname)
        top = fi
        while top.parent_func is not None:
            top = top.parent_func
        no_receiver_side = receiver_side(st, top.node)
        if no_receiver_side is None:
            rep.ob('R05a', site, False,
                   '%s is raised without a test of `receiver`: calls of '
                   'the other kind get a %s error' % (cname, kind),
                   loc=mod.loc(st), construct=model.norm(st))
            continue
        ok = no_receiver_side == (kind == 'function')
        rep.ob('R05a', site, ok,
               '%s (a %s resolution error) is raised on the side where the '
               'call %s a receiver: %s calls report the wrong error class' %
               (cname, kind, 'has no' if no_receiver_side else 'has',
                'function' if no_receiver_side else 'method'),
               loc=mod.loc(st), construct=model.norm(st))
    rep.floor('raise sites of resolution errors in the runner', len(sites),
              6)
    # R05b: stages
    call = mod.func('call')
    choose = mod.func('choose_overload')
    flat = []
    for fi, st, cname, users in sites:
        for uf, ust in users:
            flat.append((uf, ust, cname))
    for fi, st, cname in flat:
        kind, stage = RESOLUTION[cname]
        top = fi
        while top.parent_func is not None:
            top = top.parent_func
        site = '%s/stage[%s]' % (fi.key, cname)
        if stage == 'unknown':
            ok = top is call
            why = '"unknown function/method" is the verdict for an empty ' \
                  'collection; it is raised in %s' % top.qualname
            if ok:
                # guarded by emptiness of the collect_functions result
                coll = None
                for s in model.walk_shallow(call.node):
                    if isinstance(s, ast.Assign) and isinstance(
                            s.value, ast.Call) and isinstance(
                            s.value.func, ast.Attribute) and \
                            s.value.func.attr == 'collect_functions' and \
                            isinstance(s.targets[0], ast.Name):
                        coll = s.targets[0].id
                def is_collection_nonempty(e, _c=coll):
                    # atom meaning "the collection is non-empty"
                    if isinstance(e, ast.Name) and e.id == _c:
                        return True
                    return False

                def emptiness(e, _c=coll):
                    """atom -> True if it means non-empty, False if it
                    means empty, None otherwise"""
                    if isinstance(e, ast.Name) and e.id == _c:
                        return True
                    if isinstance(e, ast.Compare) and len(e.ops) == 1 and \
                            isinstance(e.left, ast.Call) and model.norm(
                            e.left.func) == 'len' and e.left.args and \
                            isinstance(e.left.args[0], ast.Name) and \
                            e.left.args[0].id == _c and isinstance(
                            e.comparators[0], ast.Constant):
                        k = e.comparators[0].value
                        op = type(e.ops[0])
                        if k == 0 and op is ast.Eq:
                            return False
                        if k == 0 and op is ast.Gt:
                            return True
                        if k == 1 and op is ast.Lt:
                            return False
                        if k == 1 and op is ast.GtE:
                            return True
                    return None
                ok = False
                for e, pol in norm.literals(st, call.node):
                    m = emptiness(e)
                    if m is None:
                        continue
                    # (non-empty, False) or (empty, True): collection empty
                    if m != pol:
                        ok = True
                why = '"unknown function/method" must be raised exactly ' \
                      'when collect_functions found nothing (`not %s`)' % \
                      coll
            rep.ob('R05b', site, ok, why, loc=mod.loc(st),
                   construct=model.norm(st))
        else:
            ok = top is choose
            rep.ob('R05b', site, ok,
                   '%s belongs to overload choice (candidates exist); it '
                   'is raised in %s' % (cname, top.qualname),
                   loc=mod.loc(st), construct=model.norm(st))
    return len(sites)


def _subst_locals(fn_node, expr):
    """Substitute single-assignment locals of fn_node into expr."""
    env = {}
    counts = {}
    for s in model.walk_shallow(fn_node):
        if isinstance(s, ast.Assign) and len(s.targets) == 1 and isinstance(
                s.targets[0], ast.Name):
            counts[s.targets[0].id] = counts.get(s.targets[0].id, 0) + 1
            env[s.targets[0].id] = s.value

    class Sub(ast.NodeTransformer):
        def visit_Name(self, n):
            if isinstance(n.ctx, ast.Load) and counts.get(n.id) == 1:
                return copy.deepcopy(env[n.id])
            return n
    return Sub().visit(copy.deepcopy(expr))


def _is_check_call(n):
    return isinstance(n, ast.Call) and isinstance(
        n.func, ast.Attribute) and n.func.attr == 'check' and isinstance(
        n.func.value, ast.Attribute) and n.func.value.attr == 'value_type'


def _guard_is_exactly_check(fn_node, ifnode, want_fail_branch_node):
    """The If decides on nothing but the outcome of value_type.check():
    test is `not check(..)` with the failure action in the body, or
    `check(..)` with it in the orelse."""
    t = _subst_locals(fn_node, ifnode.test)
    br = _branch_of(want_fail_branch_node, ifnode)
    if isinstance(t, ast.UnaryOp) and isinstance(t.op, ast.Not) and \
            _is_check_call(t.operand):
        return br == 'body', t.operand
    if _is_check_call(t):
        return br == 'orelse', t
    return False, None


def _through_checker(mod, gd, checker, expr, seen):
    """The value of `expr` is produced by the checker: it contains a call
    of it, or a call of a local helper of get_delegate every return of
    which is produced by the checker."""
    for c in ast.walk(expr):
        if not (isinstance(c, ast.Call) and isinstance(c.func, ast.Name)):
            continue
        if c.func.id == checker.name:
            return True
        helper = mod.functions.get(gd.qualname + '.' + c.func.id)
        if helper is not None and helper.key not in seen:
            seen.add(helper.key)
            rets = [r for r in model.walk_shallow(helper.node)
                    if isinstance(r, ast.Return)]
            if rets and all(
                    r.value is not None and _through_checker(
                        mod, gd, checker, r.value, seen) for r in rets):
                return True
    return False


def check_type_checks(repo, rep):
    """R05c: every argument value is type-checked, unconditionally, in both
    phases (map_args on what is known before evaluation, get_delegate on the
    evaluated values), and failing the check is the only thing that decides
    exclusion."""
    mod = repo.module(SPECS)
    gd = mod.func('FunctionDefinition.get_delegate')
    ma = norm.inline_tail_calls(repo, mod.func(
        'FunctionDefinition.map_args'))
    # -- get_delegate: the local checker
    checker = None
    for q, f in mod.functions.items():
        if f.parent_func is gd and any(
                _is_check_call(c) for c in model.calls_in(f.node,
                                                          shallow=True)):
            checker = f
    if checker is None:
        rep.ob('R05c', gd.key + '/checker', False,
               'get_delegate no longer has a local function that applies '
               'value_type.check to an argument', loc=mod.loc(gd.node))
        return 0
    n = 0
    val = checker.params()[0]
    raises = [s for s in model.walk_shallow(checker.node)
              if isinstance(s, ast.Raise)]
    checks = [c for c in model.calls_in(checker.node, shallow=True)
              if _is_check_call(c)]
    site = checker.key + '/check-decides'
    ok = False
    why = 'no raise guarded by the check'
    for r in raises:
        i = model.enclosing(r, ast.If)
        if i is None or model.enclosing_function(i) is not checker.node:
            continue
        good, call = _guard_is_exactly_check(checker.node, i, r)
        if good:
            a0 = call.args[0] if call.args else None
            if isinstance(a0, ast.Name) and a0.id == val:
                ok = True
            else:
                why = 'the check is applied to `%s`, not to the argument ' \
                      'value `%s`' % (model.norm(a0) if a0 is not None
                                      else '?', val)
        else:
            why = 'the test `%s` guarding `%s` is not exactly the outcome ' \
                  'of %s.value_type.check(%s, ...): some values skip the ' \
                  'type check (or are rejected although they pass it)' % (
                      model.norm(i.test), model.norm(r).split('\n')[0],
                      checker.params()[1] if len(checker.params()) > 1
                      else 'param', val)
    n += 1
    rep.ob('R05c', site, ok,
           'get_delegate: %s. An overload that is not type-compatible with '
           'the evaluated arguments is then not excluded (rule 5 of the '
           'documented resolution rules)' % why,
           loc=mod.loc(checker.node), construct=model.norm(
               raises[0]).split('\n')[0] if raises else '')
    # the check must dominate the construction of the converter thunk
    g = cfgmod.CFG(checker.node)
    rets = [s for s in model.walk_shallow(checker.node)
            if isinstance(s, ast.Return)]
    for r in rets:
        rn = g.node_of(r)
        cn = [g.node_of(c) for c in checks]
        dom = rn is not None and any(c is not None and g.dominates(c, rn)
                                     for c in cn)
        n += 1
        rep.ob('R05c', checker.key + '/check-dominates-return', dom,
               'a converter is handed out on a path that did not run '
               'value_type.check', loc=mod.loc(r))
    # -- every slot handed to the payload is produced by the checker
    payload_call = None
    for f in mod.functions.values():
        if f.parent_func is gd:
            for c in model.calls_in(f.node, shallow=True):
                if isinstance(c.func, ast.Attribute) and \
                        c.func.attr == 'payload':
                    payload_call = c
    if payload_call is None:
        raise AnalysisError('anchor vanished: self.payload(...) call in '
                            'get_delegate')
    locs = model.local_names_of(gd.node)
    containers = {x.id for x in ast.walk(payload_call)
                  if isinstance(x, ast.Name) and x.id in locs and
                  x.id not in ('context', 'engine', 'receiver')}
    stores = 0
    for s in model.walk_shallow(gd.node):
        val_expr = None
        what = None
        if isinstance(s, ast.Assign) and isinstance(
                s.targets[0], ast.Subscript) and isinstance(
                s.targets[0].value, ast.Name) and \
                s.targets[0].value.id in containers:
            val_expr, what = s.value, s.targets[0].value.id
        elif isinstance(s, ast.Expr) and isinstance(s.value, ast.Call) and \
                isinstance(s.value.func, ast.Attribute) and isinstance(
                s.value.func.value, ast.Name) and \
                s.value.func.value.id in containers and \
                s.value.func.attr in ('append', 'extend', 'update',
                                      'insert', 'setdefault'):
            val_expr, what = s.value, s.value.func.value.id
        if val_expr is None:
            continue
        stores += 1
        n += 1
        through = _through_checker(mod, gd, checker, val_expr, set())
        rep.ob('R05c', '%s/slot[%s]' % (gd.key, model.norm(s)[:60]),
               through,
               'an argument slot of `%s` is filled without going through '
               '%s(): that argument reaches the payload unchecked, so an '
               'overload whose declared type it does not satisfy still '
               'matches' % (what, checker.name),
               loc=mod.loc(s), construct=model.norm(s).split('\n')[0][:120])
    rep.floor('argument slots filled in get_delegate', stores, 6)
    # -- map_args: every check guards `return None` and nothing else
    mchecks = [c for c in model.calls_in(ma.node, shallow=True)
               if _is_check_call(c)]
    for c in mchecks:
        i = model.enclosing(c, ast.If)
        n += 1
        site = '%s/check[%s]' % (ma.key, model.norm(c.args[0])[:30]
                                 if c.args else '?')
        ok = False
        if i is not None and any(x is c for x in ast.walk(i.test)):
            rets = [x for x in i.body + i.orelse
                    if isinstance(x, ast.Return)]
            if rets:
                good, _ = _guard_is_exactly_check(ma.node, i, rets[0])
                v = rets[0].value
                ok = good and (v is None or (isinstance(v, ast.Constant)
                                             and v.value is None))
        rep.ob('R05c', site, ok,
               'map_args: the test `%s` is not exactly "the value fails '
               'value_type.check -> this overload is not a candidate"' %
               (model.norm(i.test) if i is not None else model.norm(c)),
               loc=mod.loc(c), construct=model.norm(i.test) if i is not None
               else '')
    rep.floor('type checks in map_args (positional, keyword)', len(mchecks),
              2)
    return n


def check_first_layer_wins(repo, rep):
    """R05d/R05e: the layer loop leaves at the first layer with a match;
    only ArgumentException means "this overload does not match"."""
    mod = repo.module(RUNNER)
    fi = mod.func('choose_overload')
    gcalls = [c for c in model.calls_in(fi.node, shallow=True)
              if isinstance(c.func, ast.Attribute) and
              c.func.attr == 'get_delegate']
    if not gcalls:
        raise AnalysisError('anchor vanished: get_delegate call in '
                            'choose_overload')
    g = cfgmod.CFG(fi.node)
    n = 0
    for gc in gcalls:
        loops = []
        l = model.enclosing(gc, (ast.For, ast.While))
        while l is not None and model.enclosing_function(l) is fi.node:
            loops.append(l)
            l = model.enclosing(l, (ast.For, ast.While))
        if not loops:
            rep.ob('R05d', fi.key + '/layer-loop', False,
                   'get_delegate is not called in a loop over layers',
                   loc=mod.loc(gc))
            continue
        outer = loops[-1]
        # statements of the outer loop that select the result: assignments
        # (or returns) whose value derives from the get_delegate results
        derived = set()
        changed = True
        while changed:
            changed = False
            for s in ast.walk(outer):
                tgts = []
                val = None
                if isinstance(s, ast.Assign):
                    for t in s.targets:
                        tgts += [x.id for x in ast.walk(t)
                                 if isinstance(x, ast.Name)]
                    val = s.value
                elif isinstance(s, ast.Expr) and isinstance(
                        s.value, ast.Call) and isinstance(
                        s.value.func, ast.Attribute) and isinstance(
                        s.value.func.value, ast.Name) and \
                        s.value.func.attr in ('append', 'add', 'extend',
                                              'insert'):
                    tgts, val = [s.value.func.value.id], s.value
                elif isinstance(s, (ast.comprehension, ast.For)):
                    tgts = [x.id for x in ast.walk(s.target)
                            if isinstance(x, ast.Name)]
                    val = s.iter
                if val is None:
                    continue
                if any(x is gc for x in ast.walk(val)) or any(
                        isinstance(x, ast.Name) and x.id in derived
                        for x in ast.walk(val)):
                    for t in tgts:
                        if t not in derived:
                            derived.add(t)
                            changed = True
        # names read after the loop = the verdict
        after = set()
        parent_body = getattr(outer, '_parent', None)
        for s in model.walk_shallow(fi.node):
            if getattr(s, 'lineno', 0) > outer.end_lineno:
                for x in ast.walk(s):
                    if isinstance(x, ast.Name) and isinstance(
                            x.ctx, ast.Load) and x.id in derived:
                        after.add(x.id)
        sel = []
        for s in ast.walk(outer):
            if isinstance(s, ast.Assign) and not isinstance(
                    s.value, ast.Constant):
                names = {x.id for t in s.targets for x in ast.walk(t)
                         if isinstance(x, ast.Name)}
                if names & after and any(
                        isinstance(x, ast.Name) and x.id in derived
                        for x in ast.walk(s.value)):
                    sel.append(s)
            elif isinstance(s, ast.Return) and s.value is not None and any(
                    isinstance(x, ast.Name) and x.id in derived
                    for x in ast.walk(s.value)):
                sel.append(s)
        n += 1
        if not sel:
            raise AnalysisError(
                'R05d: cannot find where the loop over layers in '
                'choose_overload selects the delegate (no verdict)')
        header = g.node_of(outer)
        for s in sel:
            if isinstance(s, ast.Return):
                rep.ob('R05d', fi.key + '/first-layer-wins', True,
                       'returns from inside the layer loop')
                continue
            sn = g.node_of(s)
            reach = g.reachable_from(sn) if sn is not None else set()
            back = header is not None and header.id in reach
            rep.ob('R05d', fi.key + '/first-layer-wins', not back,
                   'after a layer produced the winner (`%s`) the loop goes '
                   'on to the outer layers: an overload from a parent '
                   'context can replace (or be preferred to) the match of '
                   'the nearest layer -- "the first layer with a match '
                   'wins" is lost' % model.norm(s).split('\n')[0],
                   loc=mod.loc(s), construct=model.norm(s).split('\n')[0])
        # R05e
        t = model.enclosing(gc, ast.Try)
        site = fi.key + '/only-argument-errors-exclude'
        if t is None or not any(any(x is gc for x in ast.walk(b))
                                for b in t.body):
            rep.ob('R05e', site, False,
                   'get_delegate is not called under a handler for '
                   'ArgumentException: one type-incompatible overload '
                   'aborts the whole call instead of being excluded',
                   loc=mod.loc(gc))
        else:
            bad = []
            for h in t.handlers:
                types = []
                if h.type is None:
                    bad.append('bare except')
                    continue
                for e in (h.type.elts if isinstance(h.type, ast.Tuple)
                          else [h.type]):
                    d = repo.resolve(mod, e, model.scope_locals(fi))
                    types.append(d or model.norm(e))
                for d in types:
                    ci = repo.lookup(d) if d else None
                    if not (isinstance(ci, model.ClassInfo) and
                            repo.is_subclass(ci, EXC +
                                             '.ArgumentException')):
                        bad.append(d)
            rep.ob('R05e', site, not bad,
                   'the handler around get_delegate also catches %s: an '
                   'error other than "argument does not fit" silently turns '
                   'into "no matching function"' % bad,
                   loc=mod.loc(t), construct=', '.join(bad))
    return n


def check_lazy_across_layers(repo, rep):
    """R05f: the agreed lazy set is established once for all layers."""
    mod = repo.module(RUNNER)
    fi = mod.func('choose_overload')
    from sa.rules import c11
    var, _ = c11.lazy_agreement_vars(fi)
    if var is None:
        rep.ob('R05f', fi.key + '/lazy-agreement', False,
               'choose_overload no longer compares the candidates\' lazy '
               'argument sets', loc=mod.loc(fi.node))
        return
    bad = []
    for s in model.walk_shallow(fi.node):
        if isinstance(s, ast.Assign) and any(
                isinstance(t, ast.Name) and t.id == var for t in s.targets):
            lp = model.enclosing(s, (ast.For, ast.While))
            if lp is None or model.enclosing_function(lp) is not fi.node:
                continue
            i = model.enclosing(s, ast.If)
            guarded = False
            while i is not None:
                t = model.norm(i.test)
                if t in ('%s is None' % var, 'not %s' % var) and \
                        _branch_of(s, i) == 'body':
                    guarded = True
                i = model.enclosing(i, ast.If)
            if not guarded:
                bad.append(s)
    rep.ob('R05f', fi.key + '/lazy-agreement-across-layers', not bad,
           'the agreed lazy set `%s` is re-assigned inside the candidate '
           'loops (%s): laziness is then validated per layer/candidate, '
           'not across all overloads as rule 4 demands' % (
               var, '; '.join(model.norm(s) for s in bad[:2])),
           loc=mod.loc(bad[0]) if bad else mod.loc(fi.node),
           construct=model.norm(bad[0]) if bad else '')


def check_lazy_agreement_symmetric(repo, rep, rule='R05f'):
    """Whenever an agreed lazy set exists and a candidate's set differs
    from it, the ambiguity error is raised -- whatever else is true of the
    two sets.  (An extra conjunct such as "and the candidate's set is
    non-empty" makes the verdict depend on which candidate came first.)"""
    from sa.rules import c11
    mod = repo.module(RUNNER)
    fi = mod.func('choose_overload')
    agreed, cand = c11.lazy_agreement_vars(fi)
    if agreed is None:
        return
    cmp_nodes = [n for n in model.walk_shallow(fi.node)
                 if isinstance(n, ast.Compare) and len(n.ops) == 1 and
                 isinstance(n.ops[0], (ast.NotEq, ast.Eq)) and
                 {model.norm(n.left), model.norm(n.comparators[0])} ==
                 {agreed, cand}]

    def oracle(e):
        if isinstance(e, ast.Compare) and len(e.ops) == 1:
            names = {model.norm(e.left), model.norm(e.comparators[0])}
            if names == {agreed, cand}:
                if isinstance(e.ops[0], ast.NotEq):
                    return True
                if isinstance(e.ops[0], ast.Eq):
                    return False
            if model.norm(e.left) == agreed and isinstance(
                    e.comparators[0], ast.Constant) and \
                    e.comparators[0].value is None:
                if isinstance(e.ops[0], ast.Is):
                    return False
                if isinstance(e.ops[0], ast.IsNot):
                    return True
        if isinstance(e, ast.Name) and e.id == agreed:
            return None      # an agreed set may be empty: truthiness open
        return None
    # the statements that raise the ambiguity error
    raisers = raises_ambiguity(repo, mod, fi)
    ok = False
    why = 'no ambiguity error is tied to the comparison'
    for r in raisers:
        gs = norm.guards(r, fi.node)
        if not any(any(x is c or model.norm(x) == model.norm(c)
                       for x in ast.walk(e)) for e, p in gs
                   for c in cmp_nodes):
            continue
        good, first = True, None
        for e, pol in gs:
            if not ({x.id for x in ast.walk(e) if isinstance(x, ast.Name)}
                    & {agreed, cand}):
                continue    # whether this candidate is considered at all
            v = norm.eval3(e, oracle)
            if v is None or v != pol:
                good, first = False, (e, pol, v)
                break
        if good:
            ok = True
        else:
            why = 'whether the ambiguity error is raised for differing ' \
                  'lazy sets also depends on `%s`' % model.norm(first[0])
    rep.ob(rule, fi.key + '/lazy-agreement-is-symmetric', ok,
           'two candidates whose lazy argument sets differ must always be '
           'reported as ambiguous: %s -- the verdict then depends on '
           'which candidate the layer enumerated first' % why,
           loc=mod.loc(cmp_nodes[0]) if cmp_nodes else mod.loc(fi.node),
           construct=model.norm(cmp_nodes[0]) if cmp_nodes else '')


def check_python_type_checker(repo, rep):
    """R05i: the declared type of most parameters is a PythonType(cls,
    validators=...).  Its check(), interpreted abstractly on an opaque
    non-null value, accepts exactly when the value is an instance of the
    class AND every validator accepts it -- whether or not the value's class
    is the declared class itself.  (Integer / Number exclude booleans with a
    validator; a fast path around the validators admits them again and
    changes which overload is chosen.)"""
    import itertools
    from sa import absint
    mod = repo.module('yaql.language.yaqltypes')
    ci = mod.classes.get('PythonType')
    if ci is None:
        raise AnalysisError('anchor vanished: yaqltypes.PythonType')
    chk = repo.find_method(ci, 'check')
    if chk is None:
        raise AnalysisError('anchor vanished: PythonType.check')
    n = 0
    bad = None
    undecided = None
    shapes = [('two validators', 2), ('one validator, not in a list', 1),
              ('no validators', 0)]
    for (label, nv), is_inst, exact in itertools.product(
            shapes, (True, False), (True, False)):
        if exact and not is_inst:
            continue
        for answers in itertools.product((True, False), repeat=nv):
            PT = absint.Sym('the-declared-class')
            value = absint.Obj('value')

            def oracle(callee, args, kwargs):
                if callee.startswith('validator#'):
                    return (answers[int(callee[-1])],)
                if callee == 'builtins.type' and args and args[0] is value:
                    return (PT if exact else absint.Sym('a-subclass'),)
                return None

            def inst(v, cls_expr):
                text = model.norm(cls_expr)
                if v is value:
                    if text.endswith('python_type'):
                        return is_inst
                    return False        # Constant, Expression ...
                if isinstance(v, (list, tuple)):
                    return 'list' in text or 'tuple' in text
                if v is None:
                    return False
                if isinstance(v, absint.Sym):
                    return False
                raise absint.Unsupported('isinstance(%r, %s)' % (v, text))
            vals = [absint.Sym('validator#%d' % i) for i in range(nv)]
            arg = None if nv == 0 else (vals[0] if nv == 1 else vals)
            it = absint.Interp(repo, mod, oracle, inst)
            try:
                obj = it.invoke(('global', ci.dotted), [PT, True, arg], {})
                got = it.invoke(('bound', chk, obj), [
                    value, absint.Sym('context'), absint.Sym('engine')], {})
            except (absint.Unsupported, RecursionError) as e:
                undecided = str(e)
                continue
            except absint._Raise as e:
                got = 'raises %s' % e.v
            n += 1
            want = is_inst and all(answers)
            if bool(got) is not want or not isinstance(got, bool):
                bad = bad or (
                    'with %s answering %s, a value that %s an instance of '
                    'the declared class%s is %s' % (
                        label, list(answers), 'is' if is_inst else 'is not',
                        ' (its class is exactly that class)' if exact
                        else '', 'accepted' if got is True else
                        'rejected' if got is False else got))
    if undecided and not n:
        rep.note('R05i: PythonType.check not interpretable (%s)' % undecided)
        return
    rep.ob('R05i', ci.key + '/accepts-iff-instance-and-validators',
           bad is None,
           'PythonType.check must accept a value iff it is an instance of '
           'the declared class and every validator accepts it; %s -- the '
           'overloads this type was meant to exclude (validators tell '
           'booleans from integers, ports from integers ...) match again' %
           bad, loc=mod.loc(ci.node))
    rep.floor('PythonType scenarios', n, 12)


def _pairing_by_evaluation(repo, mod, fi):
    """_is_specialization_of applied abstractly to two mappings of one call
    f(x, k1=.., k2=.., k3=..) whose keyword parameters are listed in
    different orders: every type comparison it makes must be between the
    two parameters bound to the SAME keyword (and the same position).  None
    when the function is outside the evaluator's fragment."""
    import itertools
    from sa import absint
    from sa import delegmodel
    make = delegmodel.mapping_shape(repo)[0]
    keys = ('k1', 'k2', 'k3')
    for answer in (False, True):
        for order2 in itertools.permutations(keys):
            compared = []

            def param(tag):
                t = absint.Obj('type:' + tag, tag=tag,
                               is_specialization_of=absint.Sym(
                                   'spec#' + tag))
                return absint.Obj('param:' + tag, value_type=t, name=tag,
                                  alias=None)

            def oracle(callee, args, kwargs):
                if callee.startswith('spec#') and args and isinstance(
                        args[0], absint.Obj) and 'tag' in args[0].attrs:
                    compared.append((callee[5:], args[0].attrs['tag']))
                    return (answer and callee.startswith('spec#1'),)
                return None
            m1 = make((param('1.pos0'),), {k: param('1.' + k)
                                           for k in keys})
            m2 = make((param('2.pos0'),), {k: param('2.' + k)
                                           for k in order2})
            it = absint.Interp(repo, mod, oracle)
            try:
                it.run(fi.node, {fi.params()[0]: m1, fi.params()[1]: m2})
            except (absint.Unsupported, RecursionError):
                return None
            except absint._Raise as e:
                return False, 'comparing two mappings of the same call ' \
                    'raises %s' % e.v
            for a, b in compared:
                if a.split('.', 1)[1] != b.split('.', 1)[1]:
                    return False, 'the parameter bound to `%s` in one ' \
                        'mapping is compared with the one bound to `%s` ' \
                        'in the other' % (a.split('.', 1)[1],
                                          b.split('.', 1)[1])
            if not any(a.split('.', 1)[1] in keys for a, b in compared):
                return False, 'the keyword parameters are not compared ' \
                    'at all'
    return True, ''


def check_keywords_paired_by_name(repo, rep):
    """R05g: when two candidate mappings of one call are compared for
    specificity, the keyword parameters are paired by keyword *name*.  The
    two mappings list their keyword parameters each in its own overload's
    declaration order, so pairing them by position (zip of the two views)
    compares unrelated parameters."""
    mod = repo.module('yaql.language.runner')
    fi = mod.functions.get('_is_specialization_of')
    if fi is None:
        raise AnalysisError('anchor vanished: runner._is_specialization_of')
    verdict = _pairing_by_evaluation(repo, mod, fi)
    if verdict is not None:
        rep.ob('R05g', fi.key + '/keywords-paired-by-name', verdict[0],
               'the keyword parameters of the two mappings must be paired '
               'by keyword name; %s: each mapping lists them in its own '
               'overload\'s declaration order, so a more specific overload '
               'is then missed or an unrelated pair decides' % verdict[1],
               loc=mod.loc(fi.node))
        return
    # the pairing may live in a helper the two mappings are handed to
    cands = [fi]
    for c in model.calls_in(fi.node):
        if isinstance(c.func, ast.Name) and sum(
                1 for a in c.args if isinstance(a, ast.Name) and
                a.id in fi.params()) >= 2:
            h = mod.functions.get(c.func.id)
            if h is not None and h.parent_func is None:
                cands.append(h)
    for cand in cands:
        if any(isinstance(st, ast.Assign) and isinstance(
                st.value, ast.Name) and st.value.id in cand.params() and
                isinstance(st.targets[0], ast.Tuple)
                for st in model.walk_shallow(cand.node)):
            fi = cand
            break
    ps = fi.params()
    kw = {}
    for st in model.walk_shallow(fi.node):
        if isinstance(st, ast.Assign) and isinstance(
                st.value, ast.Name) and st.value.id in ps and isinstance(
                st.targets[0], ast.Tuple) and len(
                st.targets[0].elts) == 2 and isinstance(
                st.targets[0].elts[1], ast.Name):
            kw[st.targets[0].elts[1].id] = st.value.id

    def mentions(e):
        out = set()
        for x in ast.walk(e):
            if isinstance(x, ast.Name) and x.id in kw:
                out.add(x.id)
            elif isinstance(x, ast.Subscript) and isinstance(
                    x.value, ast.Name) and x.value.id in ps and \
                    isinstance(x.slice, ast.Constant) and \
                    x.slice.value == 1:
                out.add('%s[1]' % x.value.id)
        return out
    if not kw and not any('[1]' in m for m in mentions(fi.node)):
        raise AnalysisError('anchor vanished: the keyword component of the '
                            'two mappings in _is_specialization_of')
    bad = []
    for c in model.calls_in(fi.node):
        d = repo.resolve(mod, c.func, model.scope_locals(fi))
        if d in ('builtins.zip', 'itertools.zip_longest', 'builtins.map'):
            if len(mentions(c)) >= 2:
                bad.append(c)
    keyed = [x for x in ast.walk(fi.node)
             if (isinstance(x, ast.Subscript) and mentions(x.value) and
                 not isinstance(x.slice, ast.Constant)) or
             (isinstance(x, ast.Call) and isinstance(
                 x.func, ast.Attribute) and x.func.attr == 'get' and
              mentions(x.func.value))]
    rep.ob('R05g', fi.key + '/keywords-paired-by-name',
           not bad and bool(keyed),
           'the keyword parameters of the two mappings must be paired by '
           'keyword name (kwargs2[key] for key in kwargs1); `%s` pairs them '
           'by position, and each mapping lists them in its own overload\'s '
           'declaration order: a more specific overload is then missed or '
           'an unrelated pair decides' % (
               model.norm(bad[0]) if bad else 'no keyed lookup found'),
           loc=mod.loc(bad[0] if bad else fi.node),
           construct=model.norm(bad[0]) if bad else '')


def run(repo, rep):
    from sa import resmodel
    resmodel.install(repo, rep)
    rep.rule('R05a', 'ERROR-KIND: Function resolution errors are raised only '
             'on the no-receiver side of a `receiver is NO_VALUE` test, '
             'Method ones on the other')
    rep.rule('R05b', 'ERROR-STAGE: "unknown" is raised by call() exactly '
             'when collect_functions found nothing; "no matching"/'
             '"ambiguous" only inside choose_overload')
    rep.rule('R05c', 'TYPE-CHECK-UNCONDITIONAL: every slot handed to the '
             'payload comes from the checker; the checker raises '
             'ArgumentException iff value_type.check(value) fails; '
             'map_args rejects iff a check fails')
    rep.rule('R05d', 'FIRST-LAYER-WINS: once a layer selected the delegate '
             'the loop over layers is left')
    rep.rule('R05e', 'ONLY-ARGUMENT-ERRORS-EXCLUDE: get_delegate is called '
             'under a handler for ArgumentException only')
    rep.rule('R05g', 'KEYWORDS-PAIRED-BY-NAME: the specificity comparison '
             'pairs keyword parameters of two mappings by keyword name')
    rep.rule('R05f', 'LAZINESS-ACROSS-LAYERS: the agreed lazy set is fixed '
             'by the first candidate of any layer')
    rep.rule('R11a', 'see C11: eager arguments are evaluated in one sweep '
             'outside the candidate loops (shared by all candidates)')
    rep.rule('R11f', 'see C11: the lazy set is keyed like the sweep')
    rep.rule('R12c', 'see C12: kind predicate is_function / is_method')
    rep.rule('R17d', 'see C17: layers are collected nearest first and the '
             'walk stops at an exclusive layer')
    rep.trusted += [
        'the specificity order (is_specialization_of) and the arity / '
        'keyword / default arithmetic of map_args are values: not decided',
        'order independence of the winner is decided under C06']
    rep.explanation = (
        'The documented resolution procedure is eight steps; this check '
        'decides the part of each step that is visible in the shape of '
        'call / choose_overload / map_args / get_delegate / '
        'collect_functions: which error class each exit raises and on '
        'which side of the receiver test, that no argument escapes the '
        'type check in either phase, that the layer loop stops at the '
        'first layer with a match, that only ArgumentException excludes '
        'an overload, that laziness is compared across all layers, that '
        'eager arguments are evaluated once for all candidates, and the '
        'layer walk. These are necessary conditions: breaking one changes '
        'which overload runs or which error is raised for some overload '
        'family. Which overload the arithmetic of map_args and the '
        'specificity comparison pick is NOT decided.')
    G = resmodel.guarded
    n1 = G(repo, rep, 'R05b', check_error_kinds, repo, rep)
    n2 = resmodel.guarded_specs(repo, rep, 'R05c', check_type_checks, repo,
                                rep)
    n3 = G(repo, rep, 'R05d', check_first_layer_wins, repo, rep)
    G(repo, rep, 'R05f', check_lazy_across_layers, repo, rep)
    check_keywords_paired_by_name(repo, rep)
    rep.rule('R05i', 'TYPE-CHECK-IS-CLASS-AND-VALIDATORS: PythonType.check '
             'accepts a non-null value iff isinstance and all validators')
    check_python_type_checker(repo, rep)
    G(repo, rep, 'R05f', check_lazy_agreement_symmetric, repo, rep)
    from sa.rules import c11, c12, c17
    G(repo, rep, 'R11a', c11.check_r11a, repo, rep)
    G(repo, rep, 'R11f', c11.check_lazy_keys, repo, rep)
    G(repo, rep, 'R12c', c12.check_kind_predicate, repo, rep)
    rep.rule('R12f', 'see C12: clone() copies parameter definitions, so the '
             'keyword names candidates are filtered by are per context')
    c12.check_clone_copies_parameters(repo, rep)
    c17.check_collect(repo, rep, repo.module('yaql.language.contexts'))
    rep.rule('R05h', 'RESOLUTION-SITUATIONS: choose_overload / call / '
             'get_delegate / map_args evaluated abstractly on a finite family '
             'of call situations give the outcome and the call discipline '
             'the documented rules prescribe')
    resmodel.report_situations(repo, rep, 'R05h', (
        'outcome', 'error-flavour', 'unknown-error', 'kind-predicate',
        'first-layer-wins', 'no-evaluation-when-unmatched',
        'chosen-overload-runs-alone',
        'every-value-checked', 'failed-check-rejects', 'rejects-bad-calls',
        'payload-gets-converted-slots',
        'conversion-error-is-argument-error', 'map-accepts-iff-wellformed',
        'map-checks-every-supplied-value',
        'map-pairs-values-with-parameters'),
        'the resolution procedure departs from the documented rules')
    rep.count(resolution_raise_sites=n1, type_check_obligations=n2,
              layer_loops=n3)
