"""C12 -- all ways of passing the same arguments are equivalent
(declaration-level necessary conditions)."""
import ast
import re

from sa import grammar
from sa import model
from sa import norm
from sa import regexlang
from sa import universe as unimod
from sa.model import AnalysisError

TITLE = 'keyword names writable; declared = effective registry; kinds'

V = re.UNICODE | re.VERBOSE
RESERVED = {'true', 'false', 'null'}


def operator_words(repo):
    """Word operators of the default and the legacy table, read from the
    AST literal of _standard_operators and legacy's insert_operator."""
    fac = repo.module('yaql.language.factory')
    fi = fac.func('YaqlFactory._standard_operators')
    words = set()
    for n in ast.walk(fi.node):
        if isinstance(n, ast.Tuple) and n.elts and isinstance(
                n.elts[0], ast.Constant) and isinstance(
                n.elts[0].value, str) and n.elts[0].value[:1].isalpha():
            words.add(n.elts[0].value)
    return words


def check_keyword_names(repo, rep, uni):
    lex = repo.module('yaql.language.lexer')
    kw = lex.func('Lexer.t_KEYWORD_STRING')
    pat = grammar.effective_token_regex(kw.name)
    langs = regexlang.Languages({'kw': (pat, V)})
    words = operator_words(repo)
    n = 0
    seen = set()
    for o in uni.reg.overloads:
        names = {}
        for p in o.params:
            if p.type.hidden or p.kind in ('vararg', 'varkw'):
                continue
            if o.is_property:
                continue
            k = (o.func.key, p.name)
            kwname = p.keyword
            names.setdefault(kwname, []).append(p.name)
            if k in seen:
                continue
            seen.add(k)
            n += 1
            site = '%s/%s' % (o.func.key, p.name)
            ok = langs.accepts('kw', kwname)
            why = ''
            if not ok:
                why = 'is not a keyword token (it cannot be written before ' \
                      '`=>`)'
            elif kwname in words:
                ok = False
                why = 'is the word operator `%s`: `%s => x` does not parse ' \
                      'as a keyword argument' % (kwname, kwname)
            elif kwname in RESERVED:
                ok = False
                why = 'is a JSON constant keyword'
            rep.ob('R12a', site, ok,
                   'parameter `%s` of %s is passed by keyword as `%s`, '
                   'which %s: the keyword spelling of this call does not '
                   'exist' % (p.name, o.name, kwname, why),
                   loc=o.func.module.loc(o.func.node))
        for kwname, ps in names.items():
            if len(ps) > 1:
                rep.ob('R12a', '%s/duplicate[%s]' % (o.func.key, kwname),
                       False, 'parameters %s of %s share the keyword name '
                       '`%s`' % (ps, o.name, kwname),
                       loc=o.func.module.loc(o.func.node))
    rep.floor('visible parameters with a keyword name', n, 450)
    return n


def check_varkw_collisions(repo, rep, uni):
    """R12e: a function that accepts arbitrary keyword arguments (**kwargs)
    receives them as python keyword arguments of its payload.  A hidden
    (injected) parameter of the same payload whose python name can be
    written as a YAQL keyword collides with a user keyword of that name
    (TypeError: multiple values) -- so `f(name => v)` works for every name
    but that one."""
    lex = repo.module('yaql.language.lexer')
    pat = grammar.effective_token_regex('t_KEYWORD_STRING')
    langs = regexlang.Languages({'kw': (pat, V)})
    n = 0
    for o in uni.reg.overloads:
        if not any(p.kind == 'varkw' for p in o.params):
            continue
        for p in o.params:
            if not p.type.hidden or p.kind in ('vararg', 'varkw'):
                continue
            n += 1
            writable = langs.accepts('kw', p.name)
            rep.ob('R12e', '%s/%s' % (o.func.key, p.name), not writable,
                   '%s takes arbitrary keyword arguments and has the hidden '
                   'parameter `%s`, a name an expression can write: '
                   '`%s(%s => ...)` binds it twice (TypeError) although '
                   'every other keyword works' % (
                       o.name, p.name, o.name, p.name),
                   loc=o.func.module.loc(o.func.node), construct=p.name)
    return n


def check_clone_copies_parameters(repo, rep):
    """R12f: keyword names (aliases) are written into the parameter
    definitions of a *clone* per context/convention
    (get_function_definition: p.alias = convention...).  That is only
    per-context if clone() gives the copy its own ParameterDefinition
    objects."""
    sp = repo.module('yaql.language.specs')
    fd = sp.cls('FunctionDefinition')
    cl = fd.methods.get('clone')
    if cl is None:
        raise AnalysisError('anchor vanished: FunctionDefinition.clone')
    ctor = [c for c in model.calls_in(cl.node)
            if isinstance(c.func, ast.Name) and c.func.id == fd.node.name]
    ok = False
    why = 'clone() does not construct a FunctionDefinition'
    init = fd.methods['__init__'].params()[1:]
    for c in ctor:
        arg = None
        if 'parameters' in init and init.index('parameters') < len(c.args):
            arg = c.args[init.index('parameters')]
        for k in c.keywords:
            if k.arg == 'parameters':
                arg = k.value
        if arg is None:
            why = 'the clone is built without parameters'
            continue
        e = norm.subst_locals(cl.node, arg, only_pure=False)
        copies = [x for x in ast.walk(e) if isinstance(x, ast.Call) and (
            (isinstance(x.func, ast.Attribute) and x.func.attr in (
                'clone', '__copy__', '__deepcopy__')) or
            model.norm(x.func) in ('copy.deepcopy', 'copy.copy',
                                   'ParameterDefinition'))]
        per_item = any(isinstance(x, (ast.DictComp, ast.GeneratorExp,
                                      ast.ListComp)) for x in ast.walk(e)) \
            or model.norm(e).startswith('copy.deepcopy(')
        if copies and per_item:
            ok = True
        else:
            why = 'the clone receives `%s`: the same ParameterDefinition ' \
                  'objects as the original' % model.norm(e)[:80]
    rep.ob('R12f', cl.key + '/copies-parameters', ok,
           'FunctionDefinition.clone() must copy every parameter '
           'definition; %s -- the keyword names written for one context\'s '
           'naming convention then show up in every other context that '
           'registers the same function' % why, loc=sp.loc(cl.node))


def check_call_kwargs_verbatim(repo, rep):
    """R12g: call(name, args, kwargs) hands the keys of `kwargs` to the
    callee as they are (only non-keyword keys are dropped): the spelling
    `call(f, [], {k => v})` names the same parameter as `f(k => v)`."""
    sysm = repo.module('yaql.standard_library.system')
    cf = sysm.func('call_func')
    pname = 'kwargs' if 'kwargs' in cf.params() else None
    if pname is None:
        raise AnalysisError('anchor vanished: call_func(kwargs)')
    star = []
    for call in model.calls_in(cf.node):
        for k in call.keywords:
            if k.arg is None:
                star.append(k.value)
    rep.ob('R12g', cf.key + '/forwards-kwargs', bool(star),
           'call() no longer forwards its kwargs as keyword arguments',
           loc=sysm.loc(cf.node))

    def key_preserving(e, depth=0):
        """-> (ok, why)"""
        if depth > 6:
            return False, 'too deep'
        if isinstance(e, ast.Name):
            if e.id == pname and not any(
                    isinstance(s, ast.Assign) and any(
                        isinstance(t, ast.Name) and t.id == pname
                        for t in s.targets)
                    for s in model.walk_shallow(cf.node)):
                return True, ''
            vals = [s.value for s in model.walk_shallow(cf.node)
                    if isinstance(s, ast.Assign) and any(
                        isinstance(t, ast.Name) and t.id == e.id
                        for t in s.targets)]
            if not vals and e.id == pname:
                return True, ''
            if not vals:
                return False, '`%s` is not derived from kwargs' % e.id
            for v in vals:
                ok, why = key_preserving(v, depth + 1) if not (
                    isinstance(v, ast.Name) and v.id == e.id) else (True, '')
                if not ok:
                    return False, why
            return True, ''
        if isinstance(e, ast.Call):
            d = repo.resolve(sysm, e.func, model.scope_locals(cf))
            if d in ('yaql.language.utils.filter_parameters_dict',
                     'builtins.dict') and len(e.args) == 1:
                return key_preserving(e.args[0], depth + 1)
            return False, '`%s` may rename keys' % model.norm(e)[:60]
        if isinstance(e, ast.DictComp) and len(e.generators) == 1:
            g = e.generators[0]
            tgt = g.target
            kname = tgt.elts[0].id if isinstance(
                tgt, ast.Tuple) and tgt.elts and isinstance(
                tgt.elts[0], ast.Name) else None
            if isinstance(e.key, ast.Name) and e.key.id == kname and \
                    isinstance(g.iter, ast.Call) and isinstance(
                    g.iter.func, ast.Attribute) and \
                    g.iter.func.attr == 'items':
                return key_preserving(g.iter.func.value, depth + 1)
            return False, 'the keys are rewritten: `%s`' % model.norm(
                e.key)
        return False, '`%s`' % model.norm(e)[:60]
    for e in star:
        ok, why = key_preserving(e)
        rep.ob('R12g', cf.key + '/keys-verbatim', ok,
               'call(name, args, kwargs) must pass the keys of kwargs '
               'unchanged; %s -- the same mapping then names different '
               'parameters through call() than written as `name => value`' %
               why, loc=sysm.loc(e), construct=model.norm(e)[:100])


def effective_registry():
    m = grammar.load_repo_package()
    yaql = m['yaql']
    out = []
    try:
        ctx = yaql.create_context(delegates=True)
        lctx = yaql.legacy.create_context()
    except Exception as e:
        raise AnalysisError('registration code failed: %r' % (e,))

    def walk(c, label, stop=None):
        seen = set()
        while c is not None and c is not stop:
            funcs = getattr(c, '_functions', None)
            if funcs is not None:
                for name, fds in funcs.items():
                    for fd in fds:
                        if id(fd) in seen:
                            continue
                        seen.add(id(fd))
                        out.append((label, fd))
            c = c.parent
    walk(ctx, 'default')
    # legacy layer = the top layer(s) above the shared default stack
    depth = 0
    c = lctx
    funcs = getattr(c, '_functions', {})
    for name, fds in funcs.items():
        for fd in fds:
            out.append(('legacy', fd))
    return out


def fd_key(fd):
    p = fd.payload
    return '%s:%s' % (getattr(p, '__module__', '?'),
                      getattr(p, '__qualname__', '?').replace(
                          '.<locals>', ''))


def check_declared_vs_effective(repo, rep, uni):
    eff = effective_registry()
    from collections import defaultdict
    eff_by = defaultdict(list)
    for label, fd in eff:
        eff_by[(label, fd.name, fd_key(fd))].append(fd)
    n = 0
    miss = 0
    for o in uni.reg.overloads:
        label = 'legacy' if o.ctx == 'legacy' else 'default'
        if 'delegates' in o.condition or o.ctx in ('default', 'fallback',
                                                   'finalizer', 'legacy'):
            pass
        key = (label, o.name, o.func.key)
        if o.is_property:
            cands = [fd for (lb, nm, k), fds in eff_by.items()
                     if lb == label and nm == o.name for fd in fds]
        else:
            cands = eff_by.get(key, [])
        site = '%s[%s]' % (o.func.key, o.name)
        n += 1
        if not cands:
            # same payload registered under another name?
            other = sorted(nm for (lb, nm, k) in eff_by
                           if lb == label and k == o.func.key)
            rep.ob('R12b', site, False,
                   'the declarations say %s is registered as `%s`; the '
                   'effective registry has it as %s: the convention '
                   'translated name that callers use does not reach it' % (
                       o.func.qualname, o.name, other or 'nothing'),
                   loc=o.func.module.loc(o.func.node))
            miss += 1
            continue
        fd = cands[0]
        probs = []
        if bool(fd.is_function) != bool(o.is_function) or \
                bool(fd.is_method) != bool(o.is_method):
            probs.append('kind: declared function=%s method=%s, effective '
                         'function=%s method=%s' % (
                             o.is_function, o.is_method, fd.is_function,
                             fd.is_method))
        if bool(fd.no_kwargs) != bool(o.no_kwargs):
            probs.append('no_kwargs: declared %s, effective %s' % (
                o.no_kwargs, fd.no_kwargs))
        if not o.is_property:
            eff_params = {}
            for k, p in fd.parameters.items():
                eff_params[p.name] = p
            for p in o.params:
                ep = eff_params.get(p.name)
                if ep is None:
                    probs.append('parameter %s missing in the effective '
                                 'definition' % p.name)
                    continue
                if p.kind in ('pos',) and ep.position != p.position:
                    probs.append('parameter %s at position %s, declared '
                                 '%s' % (p.name, ep.position, p.position))
                if not p.type.hidden and p.kind in ('pos', 'kwonly'):
                    if (ep.alias or ep.name) != p.keyword:
                        probs.append(
                            'keyword name of %s: declared `%s`, effective '
                            '`%s`' % (p.name, p.keyword,
                                      ep.alias or ep.name))
                cls = type(ep.value_type)
                lazy = any(b.__name__ == 'LazyParameterType'
                           for b in cls.__mro__)
                hidden = any(b.__name__ == 'HiddenParameterType'
                             for b in cls.__mro__)
                if lazy != p.type.lazy or hidden != p.type.hidden:
                    probs.append('parameter %s: declared lazy=%s hidden=%s,'
                                 ' effective lazy=%s hidden=%s' % (
                                     p.name, p.type.lazy, p.type.hidden,
                                     lazy, hidden))
            if len(eff_params) != len(o.params):
                probs.append('parameter count: declared %d, effective %d' %
                             (len(o.params), len(eff_params)))
        rep.ob('R12b', site, not probs,
               'declared and effective definition of `%s` disagree: %s' % (
                   o.name, '; '.join(probs)),
               loc=o.func.module.loc(o.func.node))
    # effective entries nobody declared (besides the legacy re-exports)
    declared_keys = {('legacy' if o.ctx == 'legacy' else 'default', o.name)
                     for o in uni.reg.overloads}
    extra = sorted({(lb, nm) for (lb, nm, k) in eff_by
                    if (lb, nm) not in declared_keys and lb == 'default'})
    rep.ob('R12b', 'effective-not-declared', not extra,
           'functions present in the default context that no register() '
           'body declares: %s' % extra[:8])
    rep.floor('overloads compared with the effective registry', n, 280)
    return n, len(eff)


def _predicate_functions(mod, fi):
    """The callables that may be passed as the overload predicate to
    collect_functions in runner.call: [(params, returned expression, the
    node that defines it)]."""
    out = []
    names = set()
    for c in model.calls_in(fi.node, shallow=True):
        if isinstance(c.func, ast.Attribute) and \
                c.func.attr == 'collect_functions':
            cand = list(c.args[1:2]) + [k.value for k in c.keywords
                                        if k.arg == 'predicate']
            for a in cand:
                if isinstance(a, ast.Name):
                    names.add(a.id)
                elif isinstance(a, ast.Lambda):
                    out.append(([x.arg for x in a.args.args], a.body, a))
    for n in ast.walk(fi.node):
        if isinstance(n, ast.Assign) and isinstance(
                n.value, ast.Lambda) and any(
                isinstance(t, ast.Name) and t.id in names
                for t in n.targets):
            out.append(([x.arg for x in n.value.args.args], n.value.body,
                        n))
        elif isinstance(n, ast.FunctionDef) and n is not fi.node and \
                n.name in names:
            rets = [r for r in model.walk_shallow(n)
                    if isinstance(r, ast.Return) and r.value is not None]
            for r in rets:
                out.append(([x.arg for x in n.args.args],
                            norm.subst_locals(n, r.value), r))
    return out


def _must_hold(expr, side, fn_node):
    """Atoms (normalised source) that are necessarily truthy whenever
    `expr` is truthy, on the given side of the receiver test."""
    from sa.rules import c05
    if isinstance(expr, ast.BoolOp):
        sets = [_must_hold(v, side, fn_node) for v in expr.values]
        if isinstance(expr.op, ast.And):
            return set().union(*sets)
        out = sets[0]
        for x in sets[1:]:
            out = out & x
        return out
    if isinstance(expr, ast.IfExp):
        t = None
        for e, pol in norm.atoms(norm.subst_locals(fn_node, expr.test),
                                 True):
            if c05.is_receiver_test(e):
                t = (pol == side)
        if t is True:
            return _must_hold(expr.body, side, fn_node)
        if t is False:
            return _must_hold(expr.orelse, side, fn_node)
        return _must_hold(expr.body, side, fn_node) & _must_hold(
            expr.orelse, side, fn_node)
    return {model.norm(expr)}


def check_kind_predicate(repo, rep):
    from sa.rules import c05
    mod = repo.module('yaql.language.runner')
    fi = mod.func('call')
    preds = _predicate_functions(mod, fi)
    if not preds:
        raise AnalysisError('anchor vanished: the predicate runner.call '
                            'hands to collect_functions')
    for side, flag, other, label in (
            (True, 'is_function', 'is_method', 'function-branch'),
            (False, 'is_method', 'is_function', 'method-branch')):
        seen = 0
        ok = True
        bad = ''
        for params, ret, node in preds:
            where = c05.receiver_side(node, fi.node)
            if where is not None and where != side:
                continue        # defined on the other side only
            seen += 1
            fd = params[0] if params else 'fd'
            must = _must_hold(ret, side, fi.node)
            if '%s.%s' % (fd, flag) not in must:
                ok = False
                bad = model.norm(ret)
        rep.ob('R12c', fi.key + '/' + label, ok and seen > 0,
               '%s the overload predicate must require %s (%s); the '
               'predicate in force there is `%s`' % (
                   'without a receiver' if side else 'with a receiver',
                   flag, 'methods-only functions are never callable as '
                   'functions' if side else 'functions-only definitions '
                   'are never callable as methods', bad or 'none'),
               loc=mod.loc(fi.node), construct=bad)
    # the two decorators set the flags they are named after
    sp = repo.module('yaql.language.specs')
    for name, want in (('method', {'is_method': True, 'is_function': False}),
                       ('extension_method', {'is_method': True,
                                             'is_function': True})):
        f = sp.func(name)
        # abstract evaluation of the decorator on an opaque function whose
        # definition object starts with both flags unset
        from sa import absint
        fd = absint.Obj('definition', is_method='unset',
                        is_function='unset', name=None, no_kwargs=False)
        func = absint.Obj('func')

        def oracle(callee, args, kwargs, _fd=fd):
            if callee.endswith('_get_function_definition'):
                return (_fd,)
            return None
        try:
            out = absint.Interp(repo, sp, oracle).run(f.node, {0: func})
        except absint.Unsupported as e:
            raise AnalysisError('R12c: specs.%s uses a construct outside '
                                'the modelled fragment (%s)' % (name, e))
        got = {k: fd.attrs.get(k) for k in want}
        rep.ob('R12c', f.key, got == want and out[0] == 'return' and
               out[1] is func,
               '@specs.%s must set %s on the function definition and '
               'return the function; it sets %s' % (name, want, got),
               loc=sp.loc(f.node))


class _NoValue:
    def __repr__(self):
        return '_'


def _action_interp(fnode, vals, NO):
    """Abstractly run a grammar action (assignments to p[0] under tests of
    len(p); list literals and concatenation; utils.NO_VALUE) on the symbolic
    semantic values `vals` (p[1:]).  Raises minieval.Unsupported."""
    from sa import minieval
    p = [None] + list(vals)

    def ev(n):
        if isinstance(n, ast.Attribute) and n.attr == 'NO_VALUE':
            return NO
        if isinstance(n, ast.List):
            return [ev(e) for e in n.elts]
        if isinstance(n, ast.BinOp) and isinstance(n.op, ast.Add):
            a, b = ev(n.left), ev(n.right)
            if not (isinstance(a, list) and isinstance(b, list)):
                raise minieval.Unsupported('non-list +')
            return a + b
        if isinstance(n, ast.Subscript) and isinstance(
                n.value, ast.Name) and n.value.id == 'p':
            if isinstance(n.slice, ast.Slice):
                raise minieval.Unsupported('slice of p')
            return p[ev(n.slice)]
        if isinstance(n, ast.Call) and isinstance(
                n.func, ast.Name) and n.func.id == 'len' and isinstance(
                n.args[0], ast.Name) and n.args[0].id == 'p':
            return len(p)
        if isinstance(n, ast.Call) and isinstance(
                n.func, ast.Name) and n.func.id == 'list' and n.args:
            v = ev(n.args[0])
            if isinstance(v, list):
                return list(v)
        if isinstance(n, (ast.Constant, ast.Compare, ast.BoolOp,
                          ast.UnaryOp, ast.IfExp)):
            if isinstance(n, ast.Constant):
                return n.value
            if isinstance(n, ast.Compare):
                left = ev(n.left)
                for op, c in zip(n.ops, n.comparators):
                    r = ev(c)
                    ok = {ast.Eq: lambda: left == r,
                          ast.NotEq: lambda: left != r,
                          ast.Lt: lambda: left < r,
                          ast.LtE: lambda: left <= r,
                          ast.Gt: lambda: left > r,
                          ast.GtE: lambda: left >= r}.get(type(op))
                    if ok is None:
                        raise minieval.Unsupported('compare')
                    if not ok():
                        return False
                    left = r
                return True
            if isinstance(n, ast.BoolOp):
                vs = [ev(x) for x in n.values]
                return all(vs) if isinstance(n.op, ast.And) else any(vs)
            if isinstance(n, ast.UnaryOp) and isinstance(n.op, ast.Not):
                return not ev(n.operand)
            if isinstance(n, ast.IfExp):
                return ev(n.body) if ev(n.test) else ev(n.orelse)
        raise minieval.Unsupported(type(n).__name__)

    def block(stmts):
        for st in stmts:
            if isinstance(st, ast.Expr) and isinstance(
                    st.value, ast.Constant):
                continue
            if isinstance(st, ast.If):
                block(st.body if ev(st.test) else st.orelse)
            elif isinstance(st, ast.Assign) and len(st.targets) == 1 and \
                    isinstance(st.targets[0], ast.Subscript) and isinstance(
                    st.targets[0].value, ast.Name) and \
                    st.targets[0].value.id == 'p':
                p[ev(st.targets[0].slice)] = ev(st.value)
            elif isinstance(st, ast.Pass):
                pass
            else:
                raise minieval.Unsupported(type(st).__name__)
    block(fnode.body)
    return p[0]


def check_empty_slots(repo, rep, bound=7):
    """R12d: decided on the generated LALR table.  Every argument list made
    of up to `bound` positional slots, each either a value or empty, whose
    last positional slot is a value -- optionally followed by keyword
    arguments, and the one-trailing-empty-slot-before-keywords form -- is
    accepted, and the actions build exactly one entry per slot (NO_VALUE for
    an empty one) in order."""
    from sa import minieval
    import itertools
    m = grammar.load_repo_package()
    pmod = repo.module('yaql.language.parser')
    NO = _NoValue()
    n_total = 0
    for label, fac in (('default', m['factory'].YaqlFactory()),
                       ('legacy', m['legacy'].YaqlFactory()
                        if hasattr(m['legacy'], 'YaqlFactory') else None)):
        if fac is None:
            continue
        b = grammar.build(fac)
        prods = b.grammar.Productions
        term = b.grammar.Terminals

        def find(name, pred):
            for pr in prods:
                if pr.name == name and pred(pr.prod):
                    return pr
            raise AnalysisError('anchor vanished: production of `%s`' % name)
        pf = find('func', lambda r: len(r) == 3 and r[1] == 'args')
        T_open, T_close = pf.prod[0], pf.prod[2]
        pn = find('named_arg', lambda r: len(r) == 3)
        T_map = pn.prod[1]
        pv = find('value', lambda r: len(r) == 1 and r[0] in term and
                  r[0] not in ('error',))
        T_val = pv.prod[0]
        if ',' not in term:
            raise AnalysisError('anchor vanished: terminal `,`')
        action, goto = b.table.lr_action, b.table.lr_goto
        interp_ok = [True]
        actions_ast = {}

        def parse(tokens):
            """-> (accepted, slot list captured at the func reduction)"""
            toks = list(tokens) + ['$end']
            st = [0]
            vals = [None]
            i = 0
            captured = [None]
            steps = 0
            while True:
                steps += 1
                if steps > 10000:
                    raise AnalysisError('LR simulation does not terminate')
                t = action[st[-1]].get(toks[i])
                if t is None:
                    return False, None
                if t > 0:
                    st.append(t)
                    vals.append('V' if toks[i] == T_val else toks[i])
                    i += 1
                elif t < 0:
                    pr = prods[-t]
                    k = pr.len
                    rhs = vals[len(vals) - k:] if k else []
                    if k:
                        del st[-k:]
                        del vals[-k:]
                    v = None
                    if pr.name == 'named_arg':
                        v = 'N'
                    elif pr.name == 'value':
                        v = 'V'
                    elif pr.name == 'func':
                        captured[0] = rhs[1]
                        v = 'V'
                    elif pr.name in ('args', 'arglist', 'incomplete_arglist',
                                     'named_arglist') and interp_ok[0]:
                        fn = actions_ast.get(pr.func)
                        if fn is None:
                            fi = pmod.func('Parser.' + pr.func)
                            fn = actions_ast[pr.func] = fi.node
                        try:
                            v = _action_interp(fn, rhs, NO)
                        except (minieval.Unsupported, IndexError, TypeError,
                                KeyError) as e:
                            interp_ok[0] = False
                            rep.note('R12d: action %s not interpretable '
                                     '(%s); slot alignment not decided' % (
                                         pr.func, e))
                    st.append(goto[st[-1]][pr.name])
                    vals.append(v)
                else:
                    return True, captured[0]

        cases = []
        for k in range(1, bound + 1):
            for pat in itertools.product((True, False), repeat=k - 1):
                slots = list(pat) + [True]
                for named in (0, 1, 2):
                    cases.append((slots, named))
            # one trailing empty slot directly before keyword arguments
            for pat in itertools.product((True, False), repeat=k - 1):
                if k >= 2 and pat and pat[-1]:
                    slots = list(pat) + [False]
                    cases.append((slots, 1))
        bad_acc = []
        bad_align = []
        for slots, named in cases:
            toks = [T_open]
            for j, s in enumerate(slots):
                if j:
                    toks.append(',')
                if s:
                    toks.append(T_val)
            for j in range(named):
                toks += [',', T_val, T_map, T_val]
            toks.append(T_close)
            ok, got = parse(toks)
            n_total += 1
            text = 'f(' + ', '.join(
                ['v' if s else '' for s in slots] + ['k=>v'] * named) + ')'
            if not ok:
                bad_acc.append(text)
                continue
            if interp_ok[0]:
                want = ['V' if s else NO for s in slots] + ['N'] * named
                if got != want:
                    bad_align.append('%s -> %r' % (text, got))
        rep.ob('R12d', 'grammar[%s]/empty-slots-accepted' % label,
               not bad_acc,
               'the generated %s grammar rejects %d of %d argument lists '
               'whose defaulted positional parameters are skipped with '
               'empty slots, e.g. %s: the empty-slot spelling of those '
               'calls does not exist although the keyword spelling does' % (
                   label, len(bad_acc), len(cases), bad_acc[:4]),
               loc=_arglist_loc(pmod),
               construct='; '.join(bad_acc[:3]))
        if interp_ok[0]:
            rep.ob('R12d', 'grammar[%s]/one-entry-per-slot' % label,
                   not bad_align,
                   'the %s grammar actions do not build one argument per '
                   'slot in order (NO_VALUE for an empty slot) for %d '
                   'argument lists, e.g. %s: a later positional argument '
                   'binds to the wrong parameter' % (
                       label, len(bad_align), bad_align[:3]),
                   loc=_arglist_loc(pmod),
                   construct='; '.join(bad_align[:2]))
    rep.floor('argument-list shapes run through the LALR tables', n_total,
              500)
    return n_total


def _arglist_loc(pmod):
    """Where the `arglist` productions are written (for reports only)."""
    for fi in pmod.functions.values():
        doc = ast.get_docstring(fi.node) or ''
        if fi.qualname.startswith('Parser.') and doc.strip().startswith(
                'arglist'):
            return pmod.loc(fi.node)
    return pmod.loc(pmod.classes['Parser'].node)


def check_call_kwargs_filter(repo, rep):
    """R12j: call(name, args, kwargs) must hand on every keyword that could
    have been written in the expression (`f(from => 1)`): the filter applied
    to the kwargs dict keeps exactly the keys utils.is_keyword accepts.  A
    narrower filter (python reserved words, ...) makes the call() spelling
    fail where the direct spelling works."""
    from sa import absint
    ut = repo.module('yaql.language.utils')
    fi = ut.functions.get('filter_parameters_dict')
    if fi is None:
        raise AnalysisError('anchor vanished: utils.filter_parameters_dict')
    good = {'a', 'from', 'class', 'x_', 'to', 'lambda'}
    bad = {'1x', '__d', 'a b'}

    def oracle(callee, args, kwargs):
        if callee.endswith('is_keyword') and args:
            return (args[0] in good,)
        return None
    def inst(value, cls_expr):
        names = [model.norm(x).rsplit('.', 1)[-1] for x in (
            cls_expr.elts if isinstance(cls_expr, ast.Tuple)
            else [cls_expr])]
        if isinstance(value, (str, int, dict, list, tuple)):
            return type(value).__name__ in names
        return False
    it = absint.Interp(repo, ut, oracle, inst)
    src = {k: absint.Sym('v:' + k) for k in sorted(good | bad)}
    try:
        out = it.run(fi.node, {fi.params()[0]: dict(src)})
    except absint.Unsupported as e:
        raise AnalysisError('R12j: filter_parameters_dict uses a construct '
                            'outside the modelled fragment (%s)' % e)
    kept = set(out[1]) if out[0] == 'return' and isinstance(
        out[1], dict) else None
    rep.ob('R12j', fi.key, kept == good,
           'the keyword filter of call() keeps %s; it must keep exactly the '
           'names utils.is_keyword accepts (%s): a keyword that can be '
           'written directly, such as `from`, is otherwise lost in the '
           'call() spelling' % (sorted(kept) if kept is not None
                                else out, sorted(good)),
           loc=ut.loc(fi.node))


def run(repo, rep):
    from sa import resmodel
    resmodel.install(repo, rep)
    rep.rule('R12a', 'KEYWORD-NAMES-ARE-WRITABLE: the keyword name of '
             'every visible parameter is a keyword token, not a word '
             'operator or JSON constant, and unique within its overload')
    rep.rule('R12b', 'DECLARED = EFFECTIVE: the registry recovered from '
             'decorators/register() agrees with the registry the '
             'registration pipeline actually built (name, kind, '
             'no_kwargs, parameter positions, keyword names, laziness, '
             'hiddenness)')
    rep.rule('R12c', 'KIND-PREDICATE: runner.call tests is_function '
             'without and is_method with a receiver; the kind decorators '
             'set the flags they are named after')
    rep.rule('R12e', 'VARKW-NAMES-ARE-FREE: the hidden parameters of a '
             'function with **kwargs have names no expression can write')
    rep.rule('R12f', 'CLONE-COPIES-PARAMETERS: the per-context keyword names '
             'are written into parameter objects the clone owns')
    rep.rule('R12h', 'ABSENCE-IS-NOT-NULL: argument mapping decides '
             'whether a keyword was passed by membership, never by '
             'comparing a looked-up value with None (null is a value)')
    rep.rule('R12g', 'CALL-KWARGS-VERBATIM: call() forwards the keys of its '
             'kwargs mapping unchanged')
    rep.rule('R12d', 'EMPTY-SLOTS: on the generated LALR tables, every '
             'pattern of value/empty positional slots (bounded length) '
             'ending in a value, optionally followed by keyword arguments, '
             'is accepted and the actions yield one entry per slot')
    rep.trusted += ['reflection executes import-time and registration code '
                    'only (create_context), never runner.call',
                    'result equality across spellings is not decided']
    rep.explanation = (
        'Necessary conditions for the spellings of a call to be '
        'equivalent: each parameter\'s convention-translated keyword name '
        'can be written at all, the generic registration pipeline did to '
        'every function what its declaration says (so a call by keyword, '
        'as method or as function reaches the same definition), and the '
        'dispatcher filters candidates by the right kind flag.')
    uni = unimod.Universe(repo)
    n1 = check_keyword_names(repo, rep, uni)
    n2, neff = check_declared_vs_effective(repo, rep, uni)
    rep.rule('R12i', 'SPELLING-SITUATIONS: function / method kind '
             'predicate, lazy keys by call keyword, and mapping of '
             'positional, keyword and null-valued keyword arguments decided '
             'by abstract evaluation of call / choose_overload / map_args / '
             'get_delegate')
    resmodel.report_situations(repo, rep, 'R12i', (
        'kind-predicate', 'lazy-untouched', 'delegates-get-values',
        'map-accepts-iff-wellformed', 'map-pairs-values-with-parameters',
        'payload-gets-converted-slots'),
        'two spellings of one call are treated differently')
    resmodel.guarded(repo, rep, 'R12c', check_kind_predicate, repo, rep)
    check_varkw_collisions(repo, rep, uni)
    check_clone_copies_parameters(repo, rep)
    check_call_kwargs_verbatim(repo, rep)
    rep.rule('R12j', 'CALL-KWARGS-FILTER: call() keeps exactly the keyword '
             'names is_keyword accepts')
    check_call_kwargs_filter(repo, rep)
    # a keyword whose value is null is still a keyword that was passed
    from sa.rules import c13
    scope = [f for f in repo.all_functions()
             if f.module.name in ('yaql.language.specs',
                                  'yaql.language.runner')]
    c13.check_absence_is_not_null(repo, rep, uni, scope, 'R12h', True,
                                  sentinels=False)
    rep.ob('R12h', 'argument-mapping', True, '%d functions of specs / '
           'runner scanned' % len(scope), nontrivial=True)
    n4 = check_empty_slots(repo, rep,
                           bound=10 if rep.tier == 'thorough' else 7)
    from sa.rules import c11
    rep.rule('R11f', 'LAZY-KEYS (shared with C11): the lazy argument set is '
             'keyed by positional index and the call\'s keyword, so a lazy '
             'parameter is handled the same whether passed positionally or '
             'by (aliased) keyword')
    resmodel.guarded(repo, rep, 'R11f', c11.check_lazy_keys, repo, rep)
    rep.count(keyword_parameters=n1, declared_overloads=n2,
              effective_definitions=neff, argument_list_shapes=n4)
