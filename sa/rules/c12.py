"""C12 -- all ways of passing the same arguments are equivalent
(declaration-level necessary conditions)."""
import ast
import re

from sa import grammar
from sa import model
from sa import regexlang
from sa import universe as unimod
from sa.model import AnalysisError

TITLE = 'keyword names writable; declared = effective registry; kinds'

V = re.UNICODE | re.VERBOSE
RESERVED = {'true', 'false', 'null'}


def operator_words(repo):
    """Word operators of the default and the legacy table, read from the
    AST literal of _standard_operators and legacy's insert_operator."""
    fac = repo.module('yaql.language.factory')
    fi = fac.func('YaqlFactory._standard_operators')
    words = set()
    for n in ast.walk(fi.node):
        if isinstance(n, ast.Tuple) and n.elts and isinstance(
                n.elts[0], ast.Constant) and isinstance(
                n.elts[0].value, str) and n.elts[0].value[:1].isalpha():
            words.add(n.elts[0].value)
    return words


def check_keyword_names(repo, rep, uni):
    lex = repo.module('yaql.language.lexer')
    kw = lex.func('Lexer.t_KEYWORD_STRING')
    pat = grammar.effective_token_regex(kw.name)
    langs = regexlang.Languages({'kw': (pat, V)})
    words = operator_words(repo)
    n = 0
    seen = set()
    for o in uni.reg.overloads:
        names = {}
        for p in o.params:
            if p.type.hidden or p.kind in ('vararg', 'varkw'):
                continue
            if o.is_property:
                continue
            k = (o.func.key, p.name)
            kwname = p.keyword
            names.setdefault(kwname, []).append(p.name)
            if k in seen:
                continue
            seen.add(k)
            n += 1
            site = '%s/%s' % (o.func.key, p.name)
            ok = langs.accepts('kw', kwname)
            why = ''
            if not ok:
                why = 'is not a keyword token (it cannot be written before ' \
                      '`=>`)'
            elif kwname in words:
                ok = False
                why = 'is the word operator `%s`: `%s => x` does not parse ' \
                      'as a keyword argument' % (kwname, kwname)
            elif kwname in RESERVED:
                ok = False
                why = 'is a JSON constant keyword'
            rep.ob('R12a', site, ok,
                   'parameter `%s` of %s is passed by keyword as `%s`, '
                   'which %s: the keyword spelling of this call does not '
                   'exist' % (p.name, o.name, kwname, why),
                   loc=o.func.module.loc(o.func.node))
        for kwname, ps in names.items():
            if len(ps) > 1:
                rep.ob('R12a', '%s/duplicate[%s]' % (o.func.key, kwname),
                       False, 'parameters %s of %s share the keyword name '
                       '`%s`' % (ps, o.name, kwname),
                       loc=o.func.module.loc(o.func.node))
    rep.floor('visible parameters with a keyword name', n, 450)
    return n


def effective_registry():
    m = grammar.load_repo_package()
    yaql = m['yaql']
    out = []
    try:
        ctx = yaql.create_context(delegates=True)
        lctx = yaql.legacy.create_context()
    except Exception as e:
        raise AnalysisError('registration code failed: %r' % (e,))

    def walk(c, label, stop=None):
        seen = set()
        while c is not None and c is not stop:
            funcs = getattr(c, '_functions', None)
            if funcs is not None:
                for name, fds in funcs.items():
                    for fd in fds:
                        if id(fd) in seen:
                            continue
                        seen.add(id(fd))
                        out.append((label, fd))
            c = c.parent
    walk(ctx, 'default')
    # legacy layer = the top layer(s) above the shared default stack
    depth = 0
    c = lctx
    funcs = getattr(c, '_functions', {})
    for name, fds in funcs.items():
        for fd in fds:
            out.append(('legacy', fd))
    return out


def fd_key(fd):
    p = fd.payload
    return '%s:%s' % (getattr(p, '__module__', '?'),
                      getattr(p, '__qualname__', '?').replace(
                          '.<locals>', ''))


def check_declared_vs_effective(repo, rep, uni):
    eff = effective_registry()
    from collections import defaultdict
    eff_by = defaultdict(list)
    for label, fd in eff:
        eff_by[(label, fd.name, fd_key(fd))].append(fd)
    n = 0
    miss = 0
    for o in uni.reg.overloads:
        label = 'legacy' if o.ctx == 'legacy' else 'default'
        if 'delegates' in o.condition or o.ctx in ('default', 'fallback',
                                                   'finalizer', 'legacy'):
            pass
        key = (label, o.name, o.func.key)
        if o.is_property:
            cands = [fd for (lb, nm, k), fds in eff_by.items()
                     if lb == label and nm == o.name for fd in fds]
        else:
            cands = eff_by.get(key, [])
        site = '%s[%s]' % (o.func.key, o.name)
        n += 1
        if not cands:
            # same payload registered under another name?
            other = sorted(nm for (lb, nm, k) in eff_by
                           if lb == label and k == o.func.key)
            rep.ob('R12b', site, False,
                   'the declarations say %s is registered as `%s`; the '
                   'effective registry has it as %s: the convention '
                   'translated name that callers use does not reach it' % (
                       o.func.qualname, o.name, other or 'nothing'),
                   loc=o.func.module.loc(o.func.node))
            miss += 1
            continue
        fd = cands[0]
        probs = []
        if bool(fd.is_function) != bool(o.is_function) or \
                bool(fd.is_method) != bool(o.is_method):
            probs.append('kind: declared function=%s method=%s, effective '
                         'function=%s method=%s' % (
                             o.is_function, o.is_method, fd.is_function,
                             fd.is_method))
        if bool(fd.no_kwargs) != bool(o.no_kwargs):
            probs.append('no_kwargs: declared %s, effective %s' % (
                o.no_kwargs, fd.no_kwargs))
        if not o.is_property:
            eff_params = {}
            for k, p in fd.parameters.items():
                eff_params[p.name] = p
            for p in o.params:
                ep = eff_params.get(p.name)
                if ep is None:
                    probs.append('parameter %s missing in the effective '
                                 'definition' % p.name)
                    continue
                if p.kind in ('pos',) and ep.position != p.position:
                    probs.append('parameter %s at position %s, declared '
                                 '%s' % (p.name, ep.position, p.position))
                if not p.type.hidden and p.kind in ('pos', 'kwonly'):
                    if (ep.alias or ep.name) != p.keyword:
                        probs.append(
                            'keyword name of %s: declared `%s`, effective '
                            '`%s`' % (p.name, p.keyword,
                                      ep.alias or ep.name))
                cls = type(ep.value_type)
                lazy = any(b.__name__ == 'LazyParameterType'
                           for b in cls.__mro__)
                hidden = any(b.__name__ == 'HiddenParameterType'
                             for b in cls.__mro__)
                if lazy != p.type.lazy or hidden != p.type.hidden:
                    probs.append('parameter %s: declared lazy=%s hidden=%s,'
                                 ' effective lazy=%s hidden=%s' % (
                                     p.name, p.type.lazy, p.type.hidden,
                                     lazy, hidden))
            if len(eff_params) != len(o.params):
                probs.append('parameter count: declared %d, effective %d' %
                             (len(o.params), len(eff_params)))
        rep.ob('R12b', site, not probs,
               'declared and effective definition of `%s` disagree: %s' % (
                   o.name, '; '.join(probs)),
               loc=o.func.module.loc(o.func.node))
    # effective entries nobody declared (besides the legacy re-exports)
    declared_keys = {('legacy' if o.ctx == 'legacy' else 'default', o.name)
                     for o in uni.reg.overloads}
    extra = sorted({(lb, nm) for (lb, nm, k) in eff_by
                    if (lb, nm) not in declared_keys and lb == 'default'})
    rep.ob('R12b', 'effective-not-declared', not extra,
           'functions present in the default context that no register() '
           'body declares: %s' % extra[:8])
    rep.floor('overloads compared with the effective registry', n, 280)
    return n, len(eff)


def check_kind_predicate(repo, rep):
    mod = repo.module('yaql.language.runner')
    fi = mod.func('call')
    ok_f = ok_m = False
    for st in model.walk_shallow(fi.node):
        if isinstance(st, ast.If) and 'receiver' in model.norm(st.test) and \
                'NO_VALUE' in model.norm(st.test):
            positive = ' is not ' not in model.norm(st.test)
            fb = st.body if positive else st.orelse
            mb = st.orelse if positive else st.body
            for s in fb:
                if isinstance(s, ast.Assign) and isinstance(
                        s.value, ast.Lambda):
                    attrs = {a.attr for a in ast.walk(s.value.body)
                             if isinstance(a, ast.Attribute)}
                    ok_f = 'is_function' in attrs and \
                        'is_method' not in attrs
            for s in mb:
                if isinstance(s, ast.Assign) and isinstance(
                        s.value, ast.Lambda):
                    attrs = {a.attr for a in ast.walk(s.value.body)
                             if isinstance(a, ast.Attribute)}
                    ok_m = 'is_method' in attrs and \
                        'is_function' not in attrs
    rep.ob('R12c', fi.key + '/function-branch', ok_f,
           'without a receiver the overload predicate must test '
           'is_function (methods-only functions are never callable as '
           'functions)', loc=mod.loc(fi.node))
    rep.ob('R12c', fi.key + '/method-branch', ok_m,
           'with a receiver the overload predicate must test is_method',
           loc=mod.loc(fi.node))
    # the two decorators set the flags they are named after
    sp = repo.module('yaql.language.specs')
    for name, want in (('method', {'is_method': True, 'is_function': False}),
                       ('extension_method', {'is_method': True,
                                             'is_function': True})):
        f = sp.func(name)
        got = {}
        for s in model.walk_shallow(f.node):
            if isinstance(s, ast.Assign) and isinstance(
                    s.targets[0], ast.Attribute) and isinstance(
                    s.value, ast.Constant):
                got[s.targets[0].attr] = s.value.value
        rep.ob('R12c', f.key, got == want,
               '@specs.%s must set %s; it sets %s' % (name, want, got),
               loc=sp.loc(f.node))


def run(repo, rep):
    rep.rule('R12a', 'KEYWORD-NAMES-ARE-WRITABLE: the keyword name of '
             'every visible parameter is a keyword token, not a word '
             'operator or JSON constant, and unique within its overload')
    rep.rule('R12b', 'DECLARED = EFFECTIVE: the registry recovered from '
             'decorators/register() agrees with the registry the '
             'registration pipeline actually built (name, kind, '
             'no_kwargs, parameter positions, keyword names, laziness, '
             'hiddenness)')
    rep.rule('R12c', 'KIND-PREDICATE: runner.call tests is_function '
             'without and is_method with a receiver; the kind decorators '
             'set the flags they are named after')
    rep.trusted += ['reflection executes import-time and registration code '
                    'only (create_context), never runner.call',
                    'result equality across spellings is not decided']
    rep.explanation = (
        'Necessary conditions for the spellings of a call to be '
        'equivalent: each parameter\'s convention-translated keyword name '
        'can be written at all, the generic registration pipeline did to '
        'every function what its declaration says (so a call by keyword, '
        'as method or as function reaches the same definition), and the '
        'dispatcher filters candidates by the right kind flag.')
    uni = unimod.Universe(repo)
    n1 = check_keyword_names(repo, rep, uni)
    n2, neff = check_declared_vs_effective(repo, rep, uni)
    check_kind_predicate(repo, rep)
    rep.count(keyword_parameters=n1, declared_overloads=n2,
              effective_definitions=neff)
